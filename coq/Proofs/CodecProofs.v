(* Theorems about the generic codec model (Model/Codec.v), for ALL descriptors. *)
From Coq Require Import NArith List Bool Lia ZArith.
From MlsV Require Import Codec CodecPrim.
Import ListNotations.
Local Open Scope N_scope.
Arguments N.add : simpl never.
Arguments N.mul : simpl never.
Arguments N.div : simpl never.
Arguments N.modulo : simpl never.
Arguments N.pow : simpl never.
Arguments N.sub : simpl never.
Arguments N.ltb : simpl never.
Arguments N.leb : simpl never.
Arguments N.eqb : simpl never.

(* ---- chains ---- *)
Fixpoint vcat (acc v : val) : val :=
  match acc with VCons h t => VCons h (vcat t v) | _ => v end.

Lemma vcat_vsnoc acc x r : vcat (vsnoc acc x) r = vcat acc (VCons x r).
Proof. induction acc; cbn [vsnoc vcat]; try reflexivity. rewrite IHacc2. reflexivity. Qed.

Definition is_chain (acc : val) : Prop := vcat acc VNil = acc.

Lemma is_chain_nil : is_chain VNil.
Proof. reflexivity. Qed.

Lemma is_chain_vsnoc acc x : is_chain acc -> is_chain (vsnoc acc x).
Proof.
  unfold is_chain. rewrite vcat_vsnoc.
  induction acc; cbn [vcat vsnoc]; intro H; try discriminate; try reflexivity.
  inversion H as [H1]. rewrite H1. f_equal. apply IHacc2. assumption.
Qed.

(* ---- value equality ---- *)
Lemma list_N_eqb_eq a : forall b, list_N_eqb a b = true <-> a = b.
Proof.
  induction a as [|x a IH]; destruct b as [|y b]; cbn [list_N_eqb]; split; try discriminate; try reflexivity.
  - intro H. apply andb_true_iff in H. destruct H as [H1 H2]. apply N.eqb_eq in H1. apply IH in H2. congruence.
  - intro H. inversion H; subst. rewrite N.eqb_refl. cbn. apply IH. reflexivity.
Qed.

Lemma val_eqb_eq a : forall c, val_eqb a c = true <-> a = c.
Proof.
  induction a; destruct c; cbn [val_eqb]; split; try discriminate; try reflexivity; intro H.
  - apply N.eqb_eq in H. congruence.
  - inversion H. apply N.eqb_refl.
  - apply Bool.eqb_prop in H. congruence.
  - inversion H. apply Bool.eqb_reflx.
  - apply list_N_eqb_eq in H. congruence.
  - inversion H. apply list_N_eqb_eq. reflexivity.
  - apply andb_true_iff in H. destruct H as [H1 H2]. apply IHa1 in H1. apply IHa2 in H2. congruence.
  - inversion H; subst. apply andb_true_iff. split; [apply IHa1|apply IHa2]; reflexivity.
  - apply IHa in H. congruence.
  - inversion H; subst. apply IHa. reflexivity.
  - apply andb_true_iff in H. destruct H as [H1 H2]. apply N.eqb_eq in H1. apply IHa in H2. congruence.
  - inversion H; subst. apply andb_true_iff. split; [apply N.eqb_refl|apply IHa; reflexivity].
Qed.

(* ---- well-typed values with pairwise distinct map keys ---- *)
Fixpoint map_ok (acc m : val) : bool :=
  match m with
  | VNil => true
  | VCons (VCons k x) r => negb (map_has_key k acc) && map_ok (vsnoc acc (VCons k x)) r
  | _ => false
  end.

Fixpoint all_items (p : val -> bool) (v : val) : bool :=
  match v with VNil => true | VCons x r => p x && all_items p r | _ => false end.

Fixpoint all_entries (pk pv : val -> bool) (v : val) : bool :=
  match v with
  | VNil => true
  | VCons (VCons k x) r => pk k && pv x && all_entries pk pv r
  | _ => false
  end.

(* [vwf t v]: inside v every map has pairwise distinct keys and every leaf index is within
   the 2^24 bound (nothing else is required: ill-typed values are already excluded by
   [encode t v = Some _]) *)
Fixpoint vwf (t : ty) (v : val) {struct t} : bool :=
  match t with
  | TVec t' => all_items (vwf t') v
  | TOpt t' => match v with VSome x => vwf t' x | _ => true end
  | TPair a b => match v with VCons x y => vwf a x && vwf b y | _ => true end
  | TEnum _ c => vwf c v
  | TCase d' p r => match v with
                    | VEnum d q => if d =? d' then vwf p q else vwf r v
                    | _ => true end
  | TMap _ k x => map_ok VNil v && all_entries (vwf k) (vwf x) v
  | TDefault _ p => match v with VEnum _ q => vwf p q | _ => true end
  | TDep a f => match v with VCons x y => vwf a x && vwf (f x) y | _ => true end
  | TLeafIndex => match v with VU n => n <=? max_leaf_index | _ => true end
  | _ => true
  end.

(* ---- every encoding of a [nonempty] type has at least one byte ---- *)
Lemma with_len_nonempty body bs : with_len body = Some bs -> bs <> [].
Proof.
  unfold with_len. destruct (encode_varint _) as [h|] eqn:E; [|discriminate]. cbn [obind].
  intro H. inversion H; subst. apply encode_varint_nonempty in E. destruct h; [congruence|discriminate].
Qed.

Lemma be_bytes_nonempty w n : w <> 0%nat -> be_bytes w n <> [].
Proof. destruct w; [congruence|]. cbn [be_bytes]. discriminate. Qed.

Lemma nonempty_sound t : forall v bs, nonempty t = true -> encode t v = Some bs -> bs <> [].
Proof.
  induction t as [w| | |n|t IHt|t IHt| |t1 IHt1 t2 IHt2|w t IHt|d t1 IHt1 t2 IHt2| | |o t1 IHt1 t2 IHt2|m t IHt|t IHt f IHf]; intros v bs Hn He; cbn [nonempty] in Hn; cbn [encode] in He; try discriminate.
  - destruct v; try discriminate. destruct (n <? 256 ^ N.of_nat w); [|discriminate].
    inversion He; subst. apply be_bytes_nonempty. destruct w; [discriminate|lia].
  - destruct v; try discriminate. inversion He. discriminate.
  - destruct v; try discriminate. eapply with_len_nonempty; eassumption.
  - destruct v; try discriminate. destruct (Nat.eqb (length l) n) eqn:E; [|discriminate].
    inversion He; subst. apply Nat.eqb_eq in E. destruct bs; [|discriminate]. cbn in E. subst n. discriminate.
  - destruct (enc_items (encode t) v); [|discriminate]. cbn [obind] in He. eapply with_len_nonempty; eassumption.
  - destruct v; try discriminate; [inversion He; discriminate|].
    destruct (encode t v); [|discriminate]. inversion He. discriminate.
  - destruct v; try discriminate.
    destruct (encode t1 v1) as [ea|] eqn:E1; [|discriminate]. destruct (encode t2 v2) as [eb|] eqn:E2; [|discriminate].
    cbn [obind] in He. inversion He; subst. apply orb_true_iff in Hn. destruct Hn as [H|H].
    + specialize (IHt1 _ _ H E1). destruct ea; [congruence|discriminate].
    + specialize (IHt2 _ _ H E2). destruct eb; [congruence|]. destruct ea; discriminate.
  - destruct v; try discriminate. destruct (d <? 256 ^ N.of_nat w); [|discriminate].
    destruct (encode t (VEnum d v)); [|discriminate]. cbn [obind] in He. inversion He; subst.
    assert (be_bytes w d <> []) by (apply be_bytes_nonempty; destruct w; [discriminate|lia]).
    destruct (be_bytes w d); [congruence|discriminate].
  - destruct v; try discriminate. destruct (n <? 256 ^ 4); [|discriminate]. inversion He. discriminate.
  - destruct (enc_entries (encode t1) (encode t2) v); [|discriminate]. cbn [obind] in He. eapply with_len_nonempty; eassumption.
  - destruct v; try discriminate.
    destruct (encode t v1) as [ea|] eqn:E1; [|discriminate]. destruct (encode (f v1) v2) as [eb|] eqn:E2; [|discriminate].
    cbn [obind] in He. inversion He; subst. specialize (IHt _ _ Hn E1). destruct ea; [congruence|discriminate].
Qed.

(* ---- loops: round trip ---- *)
Section LoopRoundtrip.
  Variables (enc : val -> option (list N)) (dec : list N -> dres (val * list N)) (ok : val -> bool).
  Hypothesis Hrt : forall x a rest, ok x = true -> enc x = Some a -> dec (a ++ rest) = DOk (x, rest).
  Hypothesis Hne : forall x a, enc x = Some a -> a <> [].

  Lemma vec_loop_roundtrip v : forall body fuel acc,
    is_chain acc -> all_items ok v = true -> enc_items enc v = Some body -> (length body <= fuel)%nat ->
    vec_loop dec fuel body acc = DOk (vcat acc v).
  Proof.
    induction v; intros body fuel acc Hc Hok He Hf; cbn [enc_items all_items] in *; try discriminate.
    - inversion He; subst. rewrite Hc. destruct fuel; reflexivity.
    - apply andb_true_iff in Hok. destruct Hok as [Hx Hr].
      destruct (enc v1) as [a|] eqn:Ea; [|discriminate]. destruct (enc_items enc v2) as [b|] eqn:Eb; [|discriminate].
      cbn [obind] in He. inversion He; subst. pose proof (Hne _ _ Ea) as Hna.
      destruct a as [|a0 a']; [congruence|]. destruct fuel as [|fuel]; [cbn in Hf; lia|].
      cbn [app vec_loop]. change (a0 :: a' ++ b) with ((a0 :: a') ++ b). rewrite (Hrt _ _ _ Hx Ea). cbn [dbind].
      replace (Nat.eqb (length b) (length ((a0 :: a') ++ b))) with false
        by (symmetry; apply Nat.eqb_neq; rewrite app_length; cbn; lia).
      rewrite IHv2 with (body := b); try assumption; try reflexivity.
      + rewrite vcat_vsnoc. reflexivity.
      + apply is_chain_vsnoc. assumption.
      + rewrite app_length in Hf. cbn in Hf. lia.
  Qed.
End LoopRoundtrip.



Section MapRoundtrip.
  Variables (enck encv : val -> option (list N)) (deck decv : list N -> dres (val * list N)) (okk okv : val -> bool).
  Hypothesis Hrtk : forall x a rest, okk x = true -> enck x = Some a -> deck (a ++ rest) = DOk (x, rest).
  Hypothesis Hrtv : forall x a rest, okv x = true -> encv x = Some a -> decv (a ++ rest) = DOk (x, rest).
  Hypothesis Hnek : forall x a, enck x = Some a -> a <> [].

  Lemma map_loop_roundtrip v : forall body fuel acc,
    is_chain acc -> map_ok acc v = true -> all_entries okk okv v = true ->
    enc_entries enck encv v = Some body -> (length body <= fuel)%nat ->
    map_loop deck decv fuel body acc = DOk (vcat acc v).
  Proof.
    induction v; intros body fuel acc Hc Hm Hok He Hf; cbn [enc_entries all_entries map_ok] in *; try discriminate.
    - inversion He; subst. rewrite Hc. destruct fuel; reflexivity.
    - destruct v1; try discriminate.
      apply andb_true_iff in Hm. destruct Hm as [Hk Hm].
      apply andb_true_iff in Hok. destruct Hok as [Hok Hr]. apply andb_true_iff in Hok. destruct Hok as [Hok1 Hok2].
      destruct (enck v1_1) as [a|] eqn:Ea; [|discriminate]. destruct (encv v1_2) as [b|] eqn:Eb; [|discriminate].
      destruct (enc_entries enck encv v2) as [c|] eqn:Ec; [|discriminate].
      cbn [obind] in He. inversion He; subst. pose proof (Hnek _ _ Ea) as Hna.
      destruct a as [|a0 a']; [congruence|]. destruct fuel as [|fuel]; [cbn in Hf; lia|].
      cbn [app map_loop]. change (a0 :: a' ++ b ++ c) with ((a0 :: a') ++ b ++ c).
      rewrite (Hrtk _ _ _ Hok1 Ea). cbn [dbind]. rewrite (Hrtv _ _ _ Hok2 Eb). cbn [dbind].
      replace (Nat.eqb (length c) (length ((a0 :: a') ++ b ++ c))) with false
        by (symmetry; apply Nat.eqb_neq; rewrite !app_length; cbn; lia).
      apply negb_true_iff in Hk. rewrite Hk. cbn [orb].
      rewrite IHv2 with (body := c); try assumption; try reflexivity.
      + rewrite vcat_vsnoc. reflexivity.
      + apply is_chain_vsnoc. assumption.
      + rewrite !app_length in Hf. cbn in Hf. lia.
  Qed.
End MapRoundtrip.

(* ================= round trip ================= *)
Definition rt_type (t : ty) : Prop :=
  forall v bs rest, vwf t v = true -> encode t v = Some bs -> decode t None (bs ++ rest) = DOk (v, rest).
Definition rt_chain (t : ty) : Prop :=
  forall d p bs rest, vwf t (VEnum d p) = true -> encode t (VEnum d p) = Some bs ->
                      decode t (Some d) (bs ++ rest) = DOk (VEnum d p, rest).

Ltac ind_ty t :=
  induction t as [w| | |n|t IHt|t IHt| |t1 IHt1 t2 IHt2|w t IHt|d t1 IHt1 t2 IHt2| | |o t1 IHt1 t2 IHt2|m t IHt|t IHt f IHf].

Lemma roundtrip_both t : (wfP false t -> rt_type t) /\ (wfP true t -> rt_chain t).
Proof.
  ind_ty t; (split; [intros W v bs rest Hv He | intros W d0 p0 bs rest Hv He]);
    cbn [wfP] in W; try discriminate; try (destruct W as [W _]; discriminate);
    cbn [encode] in He; cbn [decode].
  - (* TU *) destruct v; try discriminate. destruct (N.ltb_spec n (256 ^ N.of_nat w)); [|discriminate].
    inversion He; subst. rewrite decode_uint_encode by assumption. reflexivity.
  - (* TBool *) destruct v; try discriminate. inversion He; subst.
    destruct b; reflexivity.
  - (* TBytes *) destruct v; try discriminate. rewrite (split_with_len _ _ _ He). reflexivity.
  - (* TArr *) destruct v; try discriminate. destruct (Nat.eqb (length l) n) eqn:E; [|discriminate].
    inversion He; subst. apply Nat.eqb_eq in E. subst n. rewrite take_n_app. reflexivity.
  - (* TVec *) destruct W as (_ & W1 & W2).
    destruct (enc_items (encode t) v) as [body|] eqn:Eb; [|discriminate]. cbn [obind] in He.
    rewrite (split_with_len _ _ _ He). cbn [dbind]. cbn [vwf] in Hv.
    rewrite vec_loop_roundtrip with (enc := encode t) (ok := vwf t) (v := v); try assumption.
    + reflexivity.
    + intros x a r Hx Ha. apply (proj1 IHt W2); assumption.
    + intros x a Ha. eapply nonempty_sound; eassumption.
    + apply is_chain_nil.
    + lia.
  - (* TOpt *) destruct W as (_ & W). destruct v; try discriminate.
    + inversion He; subst. reflexivity.
    + destruct (encode t v) as [a|] eqn:Ea; [|discriminate]. cbn [obind] in He. inversion He; subst.
      cbn [app]. unfold decode_uint. cbn [take_n length Nat.leb firstn skipn be_value dbind].
      change (0 * 256 + 1 =? 0) with false. change (0 * 256 + 1 =? 1) with true. cbv iota.
      cbn [vwf] in Hv. rewrite (proj1 IHt W v a rest Hv Ea). reflexivity.
  - (* TUnit *) destruct v; try discriminate. inversion He; subst. reflexivity.
  - (* TPair *) destruct W as (_ & W1 & W2).
    destruct v; try discriminate.
    destruct (encode t1 v1) as [ea|] eqn:E1; [|discriminate]. destruct (encode t2 v2) as [eb|] eqn:E2; [|discriminate].
    cbn [obind] in He. inversion He; subst. cbn [vwf] in Hv. apply andb_true_iff in Hv. destruct Hv as [Hv1 Hv2].
    rewrite <- app_assoc. rewrite (proj1 IHt1 W1 _ _ _ Hv1 E1). cbn [dbind].
    rewrite (proj1 IHt2 W2 _ _ _ Hv2 E2). reflexivity.
  - (* TEnum *) destruct W as (_ & W). destruct v; try discriminate.
    destruct (N.ltb_spec d (256 ^ N.of_nat w)); [|discriminate].
    destruct (encode t (VEnum d v)) as [pb|] eqn:Ep; [|discriminate]. cbn [obind] in He. inversion He; subst.
    rewrite <- app_assoc, decode_uint_encode by assumption. cbn [dbind]. cbn [vwf] in Hv.
    apply (proj2 IHt W); assumption.
  - (* TCase, chain mode *) destruct W as (_ & W1 & W3).
    cbn [vwf] in Hv. destruct (N.eqb_spec d0 d).
    + rewrite (proj1 IHt1 W1 _ _ _ Hv He). reflexivity.
    + apply (proj2 IHt2 W3); assumption.
  - (* TLeafIndex *) destruct v; try discriminate. destruct (N.ltb_spec n (256 ^ 4)); [|discriminate].
    injection He as E. rewrite <- E.
    match goal with |- dbind ?X _ = _ => change X with (decode_uint 4 (be_bytes 4 n ++ rest)) end.
    rewrite decode_uint_encode by assumption. cbn [dbind]. cbn [vwf] in Hv. rewrite Hv. reflexivity.
  - (* TMap *) destruct W as (_ & W1 & W2 & W3).
    destruct (enc_entries (encode t1) (encode t2) v) as [body|] eqn:Eb; [|discriminate]. cbn [obind] in He.
    rewrite (split_with_len _ _ _ He). cbn [dbind]. cbn [vwf] in Hv. apply andb_true_iff in Hv. destruct Hv as [Hm Ha].
    rewrite map_loop_roundtrip with (enck := encode t1) (encv := encode t2) (okk := vwf t1) (okv := vwf t2) (v := v); try assumption.
    + reflexivity.
    + intros x a r Hx Hea. apply (proj1 IHt1 W2); assumption.
    + intros x a r Hx Hea. apply (proj1 IHt2 W3); assumption.
    + intros x a Hea. eapply nonempty_sound; eassumption.
    + apply is_chain_nil.
    + lia.
  - (* TDefault, chain mode *) destruct W as (_ & W). cbn [vwf] in Hv.
    destruct (N.leb_spec m d0); [|discriminate]. destruct (N.ltb_spec d0 m); [lia|].
    rewrite (proj1 IHt W _ _ _ Hv He). reflexivity.
  - (* TDep *) destruct W as (_ & W1 & W2). destruct v; try discriminate.
    destruct (encode t v1) as [ea|] eqn:E1; [|discriminate]. destruct (encode (f v1) v2) as [eb|] eqn:E2; [|discriminate].
    cbn [obind] in He. inversion He; subst. cbn [vwf] in Hv. apply andb_true_iff in Hv. destruct Hv as [Hv1 Hv2].
    rewrite <- app_assoc. rewrite (proj1 IHt W1 _ _ _ Hv1 E1). cbn [dbind].
    rewrite (proj1 (IHf v1) (W2 v1) _ _ _ Hv2 E2). reflexivity.
Qed.

Theorem roundtrip t v bs rest :
  wf t -> vwf t v = true -> encode t v = Some bs -> decode t None (bs ++ rest) = DOk (v, rest).
Proof. intros W. apply (proj1 (roundtrip_both t) W). Qed.

(* ================= exact length ================= *)
Lemma with_len_size body bs :
  with_len body = Some bs ->
  N.of_nat (length bs) = header_len (N.of_nat (length body)) + N.of_nat (length body).
Proof.
  unfold with_len. destruct (encode_varint (N.of_nat (length body))) as [h|] eqn:E; [|discriminate].
  cbn [obind]. intro H. inversion H; subst. rewrite app_length, Nnat.Nat2N.inj_add.
  rewrite (encode_varint_len _ _ E). unfold header_len. unfold encode_varint in E.
  destruct (N.of_nat (length body) <=? varint_max); [reflexivity|discriminate].
Qed.

Lemma size_items_exact enc sz v : forall body,
  (forall x a, enc x = Some a -> sz x = N.of_nat (length a)) ->
  enc_items enc v = Some body -> size_items sz v = N.of_nat (length body).
Proof.
  induction v; intros body H He; cbn [enc_items size_items] in *; try discriminate.
  - inversion He. reflexivity.
  - destruct (enc v1) as [a|] eqn:Ea; [|discriminate]. destruct (enc_items enc v2) as [b|] eqn:Eb; [|discriminate].
    cbn [obind] in He. inversion He; subst. rewrite app_length, Nnat.Nat2N.inj_add.
    rewrite (H _ _ Ea), (IHv2 b H eq_refl). reflexivity.
Qed.

Lemma size_entries_exact enck encv szk szv v : forall body,
  (forall x a, enck x = Some a -> szk x = N.of_nat (length a)) ->
  (forall x a, encv x = Some a -> szv x = N.of_nat (length a)) ->
  enc_entries enck encv v = Some body -> size_entries szk szv v = N.of_nat (length body).
Proof.
  induction v; intros body Hk Hv He; cbn [enc_entries size_entries] in *; try discriminate.
  - inversion He. reflexivity.
  - destruct v1; try discriminate.
    destruct (enck v1_1) as [a|] eqn:Ea; [|discriminate]. destruct (encv v1_2) as [b|] eqn:Eb; [|discriminate].
    destruct (enc_entries enck encv v2) as [c|] eqn:Ec; [|discriminate].
    cbn [obind] in He. inversion He; subst. rewrite !app_length, !Nnat.Nat2N.inj_add.
    rewrite (Hk _ _ Ea), (Hv _ _ Eb), (IHv2 c Hk Hv eq_refl). lia.
Qed.

Theorem size_exact t : forall v bs, encode t v = Some bs -> size t v = N.of_nat (length bs).
Proof.
  ind_ty t; intros v bs He; cbn [encode] in He; cbn [size]; try discriminate.
  - destruct v; try discriminate. destruct (n <? 256 ^ N.of_nat w); [|discriminate].
    inversion He; subst. rewrite be_bytes_length. reflexivity.
  - destruct v; try discriminate. inversion He. reflexivity.
  - destruct v; try discriminate. rewrite (with_len_size _ _ He). reflexivity.
  - destruct v; try discriminate. destruct (Nat.eqb (length l) n) eqn:E; [|discriminate].
    inversion He; subst. apply Nat.eqb_eq in E. rewrite E. reflexivity.
  - destruct (enc_items (encode t) v) as [body|] eqn:Eb; [|discriminate]. cbn [obind] in He.
    rewrite (with_len_size _ _ He). rewrite (size_items_exact _ _ _ _ IHt Eb). reflexivity.
  - destruct v; try discriminate.
    + inversion He. reflexivity.
    + destruct (encode t v) as [a|] eqn:Ea; [|discriminate]. cbn [obind] in He. inversion He; subst.
      rewrite (IHt _ _ Ea). cbn [length]. lia.
  - destruct v; try discriminate. inversion He. reflexivity.
  - destruct v; try discriminate.
    destruct (encode t1 v1) as [ea|] eqn:E1; [|discriminate]. destruct (encode t2 v2) as [eb|] eqn:E2; [|discriminate].
    cbn [obind] in He. inversion He; subst. rewrite app_length, Nnat.Nat2N.inj_add, (IHt1 _ _ E1), (IHt2 _ _ E2). reflexivity.
  - destruct v; try discriminate. destruct (d <? 256 ^ N.of_nat w); [|discriminate].
    destruct (encode t (VEnum d v)) as [pb|] eqn:Ep; [|discriminate]. cbn [obind] in He. inversion He; subst.
    rewrite app_length, Nnat.Nat2N.inj_add, be_bytes_length, (IHt _ _ Ep). reflexivity.
  - destruct v; try discriminate. destruct (d0 =? d).
    + apply IHt1. assumption.
    + apply IHt2. assumption.
  - destruct v; try discriminate. destruct (n <? 256 ^ 4); [|discriminate]. injection He as E. rewrite <- E.
    change 4 with (N.of_nat (length (be_bytes 4 n))). reflexivity.
  - destruct (enc_entries (encode t1) (encode t2) v) as [body|] eqn:Eb; [|discriminate]. cbn [obind] in He.
    rewrite (with_len_size _ _ He). rewrite (size_entries_exact _ _ _ _ _ _ IHt1 IHt2 Eb). reflexivity.
  - destruct v; try discriminate. destruct (m <=? d); [|discriminate]. apply IHt. assumption.
  - destruct v; try discriminate.
    destruct (encode t v1) as [ea|] eqn:E1; [|discriminate]. destruct (encode (f v1) v2) as [eb|] eqn:E2; [|discriminate].
    cbn [obind] in He. inversion He; subst. rewrite app_length, Nnat.Nat2N.inj_add, (IHt _ _ E1), (IHf _ _ _ E2). reflexivity.
Qed.

(* ================= decoding consumes a prefix, never runs out of fuel ================= *)
Lemma decode_uint_len w bs n r : decode_uint w bs = DOk (n, r) -> (length r <= length bs)%nat.
Proof.
  unfold decode_uint. destruct (take_n w bs) as [[h r']|] eqn:E; [|discriminate].
  intro H. inversion H; subst. apply take_n_spec in E. destruct E as [-> _]. rewrite app_length. lia.
Qed.

Section LoopFuel.
  Variable dec : list N -> dres (val * list N).
  Hypothesis Hlen : forall bs x r, dec bs = DOk (x, r) -> (length r <= length bs)%nat.
  Hypothesis Hnf : forall bs, dec bs <> DErr EOutOfFuel.

  Lemma vec_loop_fuel fuel : forall data acc,
    (length data <= fuel)%nat -> vec_loop dec fuel data acc <> DErr EOutOfFuel.
  Proof.
    induction fuel; intros data acc Hf; destruct data as [|b data]; cbn [vec_loop]; try discriminate.
    - cbn in Hf. lia.
    - destruct (dec (b :: data)) as [[x d']|e] eqn:E; cbn [dbind].
      + destruct (Nat.eqb (length d') (length (b :: data))) eqn:L; [discriminate|].
        apply IHfuel. apply Nat.eqb_neq in L. apply Hlen in E. lia.
      + intro H. inversion H; subst. apply (Hnf _ E).
  Qed.
End LoopFuel.

Section MapFuel.
  Variables deck decv : list N -> dres (val * list N).
  Hypothesis Hlenk : forall bs x r, deck bs = DOk (x, r) -> (length r <= length bs)%nat.
  Hypothesis Hlenv : forall bs x r, decv bs = DOk (x, r) -> (length r <= length bs)%nat.
  Hypothesis Hnfk : forall bs, deck bs <> DErr EOutOfFuel.
  Hypothesis Hnfv : forall bs, decv bs <> DErr EOutOfFuel.

  Lemma map_loop_fuel fuel : forall data acc,
    (length data <= fuel)%nat -> map_loop deck decv fuel data acc <> DErr EOutOfFuel.
  Proof.
    induction fuel; intros data acc Hf; destruct data as [|b data]; cbn [map_loop]; try discriminate.
    - cbn in Hf. lia.
    - destruct (deck (b :: data)) as [[k d1]|e] eqn:E; cbn [dbind].
      + destruct (decv d1) as [[x d2]|e] eqn:E2; cbn [dbind].
        * destruct (Nat.eqb (length d2) (length (b :: data)) || map_has_key k acc) eqn:L; [discriminate|].
          apply IHfuel. apply orb_false_iff in L. destruct L as [L _]. apply Nat.eqb_neq in L.
          apply Hlenk in E. apply Hlenv in E2. lia.
        * intro H. inversion H; subst. apply (Hnfv _ E2).
      + intro H. inversion H; subst. apply (Hnfk _ E).
  Qed.
End MapFuel.

Lemma decode_len_fuel t : forall disc bs,
  (forall v r, decode t disc bs = DOk (v, r) -> (length r <= length bs)%nat)
  /\ decode t disc bs <> DErr EOutOfFuel.
Proof.
  ind_ty t; intros disc bs; cbn [decode].
  - destruct (decode_uint w bs) as [[n r]|e] eqn:E; cbn [dbind]; split; try discriminate.
    + intros v r' H. inversion H; subst. eapply decode_uint_len; eassumption.
    + unfold decode_uint in E. destruct (take_n w bs) as [[? ?]|]; inversion E. discriminate.
  - destruct (decode_uint 1 bs) as [[n r]|e] eqn:E; cbn [dbind].
    + destruct (n =? 0); [|destruct (n =? 1)]; split; try discriminate;
        intros v r' H; inversion H; subst; eapply decode_uint_len; eassumption.
    + split; [discriminate|]. unfold decode_uint in E. destruct (take_n 1 bs) as [[? ?]|]; inversion E. discriminate.
  - destruct (split_collection bs) as [[d r]|e] eqn:E; cbn [dbind]; split; try discriminate.
    + intros v r' H. inversion H; subst. apply split_in_bounds in E. lia.
    + unfold split_collection, decode_varint in E. destruct bs as [|f r0]; cbn [dbind] in E; [inversion E; discriminate|].
      destruct (f / 64 <? 3); cbn [dbind] in E; [|inversion E; discriminate].
      destruct (take_n _ r0) as [[? ?]|]; cbn [dbind] in E; [|inversion E; discriminate].
      destruct (varint_len _ =? _); cbn [dbind] in E; [|inversion E; discriminate].
      destruct (_ <? _); [inversion E; discriminate|].
      destruct (take_n _ l0) as [[? ?]|]; inversion E. discriminate.
  - destruct (take_n n bs) as [[h r]|] eqn:E; split; try discriminate.
    intros v r' H. inversion H; subst. apply take_n_spec in E. destruct E as [-> _]. rewrite app_length. lia.
  - destruct (split_collection bs) as [[d r]|e] eqn:E; cbn [dbind].
    + assert (NF : vec_loop (decode t None) (length d) d VNil <> DErr EOutOfFuel).
      { apply vec_loop_fuel; [intros; eapply (proj1 (IHt None _)); eassumption | intro; apply (proj2 (IHt None _)) | lia]. }
      destruct (vec_loop (decode t None) (length d) d VNil) as [items|e] eqn:L; cbn [dbind]; split; try discriminate.
      * intros v r' H. inversion H; subst. apply split_in_bounds in E. lia.
      * intro H. inversion H; subst. apply NF. reflexivity.
    + split; [discriminate|]. intro H. inversion H; subst.
      assert (X := proj2 (IHt None [])). clear X.
      unfold split_collection, decode_varint in E. destruct bs as [|f r0]; cbn [dbind] in E; [inversion E|].
      destruct (f / 64 <? 3); cbn [dbind] in E; [|inversion E].
      destruct (take_n _ r0) as [[? ?]|]; cbn [dbind] in E; [|inversion E].
      destruct (varint_len _ =? _); cbn [dbind] in E; [|inversion E].
      destruct (_ <? _); [inversion E|].
      destruct (take_n _ l0) as [[? ?]|]; inversion E.
  - destruct (decode_uint 1 bs) as [[m r]|e] eqn:E; cbn [dbind].
    + destruct (m =? 0); [split; [|discriminate]|destruct (m =? 1)].
      * intros v r' H. inversion H; subst. eapply decode_uint_len; eassumption.
      * destruct (decode t None r) as [[x r'']|e] eqn:E2; cbn [dbind]; split; try discriminate.
        -- intros v r' H. inversion H; subst. apply decode_uint_len in E. apply (proj1 (IHt None r)) in E2. lia.
        -- intro H. inversion H; subst. apply (proj2 (IHt None r) E2).
      * split; discriminate.
    + split; [discriminate|]. unfold decode_uint in E. destruct (take_n 1 bs) as [[? ?]|]; inversion E. discriminate.
  - split; [|discriminate]. intros v r H. inversion H; subst. lia.
  - destruct (decode t1 None bs) as [[x r]|e] eqn:E1; cbn [dbind].
    + destruct (decode t2 None r) as [[y r']|e] eqn:E2; cbn [dbind]; split; try discriminate.
      * intros v r'' H. inversion H; subst. apply (proj1 (IHt1 None bs)) in E1. apply (proj1 (IHt2 None r)) in E2. lia.
      * intro H. inversion H; subst. apply (proj2 (IHt2 None r) E2).
    + split; [discriminate|]. intro H. inversion H; subst. apply (proj2 (IHt1 None bs) E1).
  - destruct (decode_uint w bs) as [[d r]|e] eqn:E; cbn [dbind].
    + split.
      * intros v r' H. apply (proj1 (IHt (Some d) r)) in H. apply decode_uint_len in E. lia.
      * apply (proj2 (IHt (Some d) r)).
    + split; [discriminate|]. unfold decode_uint in E. destruct (take_n w bs) as [[? ?]|]; inversion E. discriminate.
  - destruct disc as [d0|]; [|split; discriminate]. destruct (d0 =? d).
    + destruct (decode t1 None bs) as [[p r]|e] eqn:E1; cbn [dbind]; split; try discriminate.
      * intros v r' H. inversion H; subst. apply (proj1 (IHt1 None bs)) in E1. assumption.
      * intro H. inversion H; subst. apply (proj2 (IHt1 None bs) E1).
    + apply IHt2.
  - destruct disc; split; discriminate.
  - destruct (decode_uint 4 bs) as [[n r]|e] eqn:E; cbn [dbind].
    + destruct (n <=? max_leaf_index); split; try discriminate.
      intros v r' H. inversion H; subst. eapply decode_uint_len; eassumption.
    + split; [discriminate|]. unfold decode_uint in E. destruct (take_n 4 bs) as [[? ?]|]; inversion E. discriminate.
  - destruct (split_collection bs) as [[d r]|e] eqn:E; cbn [dbind].
    + assert (NF : map_loop (decode t1 None) (decode t2 None) (length d) d VNil <> DErr EOutOfFuel).
      { apply map_loop_fuel; try lia.
        - intros; eapply (proj1 (IHt1 None _)); eassumption.
        - intros; eapply (proj1 (IHt2 None _)); eassumption.
        - intro; apply (proj2 (IHt1 None _)).
        - intro; apply (proj2 (IHt2 None _)). }
      destruct (map_loop _ _ (length d) d VNil) as [items|e] eqn:L; cbn [dbind]; split; try discriminate.
      * intros v r' H. inversion H; subst. apply split_in_bounds in E. lia.
      * intro H. inversion H; subst. apply NF. reflexivity.
    + split; [discriminate|]. intro H. inversion H; subst.
      unfold split_collection, decode_varint in E. destruct bs as [|f r0]; cbn [dbind] in E; [inversion E|].
      destruct (f / 64 <? 3); cbn [dbind] in E; [|inversion E].
      destruct (take_n _ r0) as [[? ?]|]; cbn [dbind] in E; [|inversion E].
      destruct (varint_len _ =? _); cbn [dbind] in E; [|inversion E].
      destruct (_ <? _); [inversion E|].
      destruct (take_n _ l0) as [[? ?]|]; inversion E.
  - destruct disc as [d0|]; [|split; discriminate]. destruct (d0 <? m); [split; discriminate|].
    destruct (decode t None bs) as [[p r]|e] eqn:E1; cbn [dbind]; split; try discriminate.
    + intros v r' H. inversion H; subst. apply (proj1 (IHt None bs)) in E1. assumption.
    + intro H. inversion H; subst. apply (proj2 (IHt None bs) E1).
  - destruct (decode t None bs) as [[x r]|e] eqn:E1; cbn [dbind].
    + destruct (decode (f x) None r) as [[y r']|e] eqn:E2; cbn [dbind]; split; try discriminate.
      * intros v r'' H. inversion H; subst. apply (proj1 (IHt None bs)) in E1. apply (proj1 (IHf x None r)) in E2. lia.
      * intro H. inversion H; subst. apply (proj2 (IHf x None r) E2).
    + split; [discriminate|]. intro H. inversion H; subst. apply (proj2 (IHt None bs) E1).
Qed.

Theorem decode_consumes t disc bs v r : decode t disc bs = DOk (v, r) -> (length r <= length bs)%nat.
Proof. apply (proj1 (decode_len_fuel t disc bs)). Qed.

Theorem decode_never_out_of_fuel t disc bs : decode t disc bs <> DErr EOutOfFuel.
Proof. apply (proj2 (decode_len_fuel t disc bs)). Qed.

(* ================= canonical decoding ================= *)
Section LoopCanon.
  Variables (enc : val -> option (list N)) (dec : list N -> dres (val * list N)).
  Hypothesis Hcanon : forall bs x r, bytes_ok bs -> dec bs = DOk (x, r) -> exists a, enc x = Some a /\ bs = a ++ r.

  Lemma vec_loop_canon fuel : forall data acc items,
    is_chain acc -> bytes_ok data -> vec_loop dec fuel data acc = DOk items ->
    exists v, items = vcat acc v /\ enc_items enc v = Some data.
  Proof.
    induction fuel; intros data acc items Hc Hok H; destruct data as [|b data]; cbn [vec_loop] in H; try discriminate.
    - inversion H; subst. exists VNil. split; [symmetry; exact Hc|reflexivity].
    - inversion H; subst. exists VNil. split; [symmetry; exact Hc|reflexivity].
    - destruct (dec (b :: data)) as [[x d']|e] eqn:E; cbn [dbind] in H; [|discriminate].
      destruct (Nat.eqb (length d') (length (b :: data))); [discriminate|].
      destruct (Hcanon _ _ _ Hok E) as (a & Ha & Hs).
      assert (Hok' : bytes_ok d') by (rewrite Hs in Hok; apply bytes_ok_app in Hok; tauto).
      destruct (IHfuel d' (vsnoc acc x) items (is_chain_vsnoc _ _ Hc) Hok' H) as (v & Hv & Hev).
      exists (VCons x v). split.
      + rewrite Hv, vcat_vsnoc. reflexivity.
      + cbn [enc_items]. rewrite Ha, Hev. cbn [obind]. rewrite Hs. reflexivity.
  Qed.
End LoopCanon.

Lemma be_bytes_1 m : m < 256 -> be_bytes 1 m = [m].
Proof.
  intro H. cbn [be_bytes]. change (N.of_nat 0) with 0. rewrite N.pow_0_r, N.div_1_r, N.mod_small by assumption. reflexivity.
Qed.

Section MapCanon.
  Variables (enck encv : val -> option (list N)) (deck decv : list N -> dres (val * list N)).
  Hypothesis Hck : forall bs x r, bytes_ok bs -> deck bs = DOk (x, r) -> exists a, enck x = Some a /\ bs = a ++ r.
  Hypothesis Hcv : forall bs x r, bytes_ok bs -> decv bs = DOk (x, r) -> exists a, encv x = Some a /\ bs = a ++ r.

  Lemma map_loop_canon fuel : forall data acc items,
    is_chain acc -> bytes_ok data -> map_loop deck decv fuel data acc = DOk items ->
    exists v, items = vcat acc v /\ enc_entries enck encv v = Some data.
  Proof.
    induction fuel; intros data acc items Hc Hok H; destruct data as [|b data]; cbn [map_loop] in H; try discriminate.
    - inversion H; subst. exists VNil. split; [symmetry; exact Hc|reflexivity].
    - inversion H; subst. exists VNil. split; [symmetry; exact Hc|reflexivity].
    - destruct (deck (b :: data)) as [[k d1]|e] eqn:E; cbn [dbind] in H; [|discriminate].
      destruct (decv d1) as [[x d2]|e] eqn:E2; cbn [dbind] in H; [|discriminate].
      destruct (Nat.eqb (length d2) (length (b :: data)) || map_has_key k acc); [discriminate|].
      destruct (Hck _ _ _ Hok E) as (a & Ha & Hs).
      assert (Hok1 : bytes_ok d1) by (rewrite Hs in Hok; apply bytes_ok_app in Hok; tauto).
      destruct (Hcv _ _ _ Hok1 E2) as (a2 & Ha2 & Hs2).
      assert (Hok2 : bytes_ok d2) by (rewrite Hs2 in Hok1; apply bytes_ok_app in Hok1; tauto).
      destruct (IHfuel d2 (vsnoc acc (VCons k x)) items (is_chain_vsnoc _ _ Hc) Hok2 H) as (v & Hv & Hev).
      exists (VCons (VCons k x) v). split.
      + rewrite Hv, vcat_vsnoc. reflexivity.
      + cbn [enc_entries]. rewrite Ha, Ha2, Hev. cbn [obind]. rewrite Hs, Hs2. reflexivity.
  Qed.
End MapCanon.

Definition canon_type (t : ty) : Prop :=
  forall bs v r, bytes_ok bs -> decode t None bs = DOk (v, r) ->
                 exists used, encode t v = Some used /\ bs = used ++ r.
Definition canon_chain (t : ty) : Prop :=
  forall d bs v r, bytes_ok bs -> decode t (Some d) bs = DOk (v, r) ->
                   exists p used, v = VEnum d p /\ encode t v = Some used /\ bs = used ++ r.

Lemma with_len_data_ok d used r : with_len d = Some used -> bytes_ok (used ++ r) -> bytes_ok d.
Proof.
  unfold with_len. destruct (encode_varint _) as [h|]; [|discriminate]. cbn [obind]. intro Hu. inversion Hu; subst.
  intro Hok. apply bytes_ok_app in Hok. destruct Hok as [Hok _]. apply bytes_ok_app in Hok. tauto.
Qed.

Lemma canonical_both t : canonicalP t ->
  (wfP false t -> canon_type t) /\ (wfP true t -> canon_chain t).
Proof.
  ind_ty t; intro C; cbn [canonicalP] in C;
    (split; [intros W bs v r Hok H | intros W d0 bs v r Hok H]); cbn [wfP] in W;
    try discriminate; try (destruct W as [W _]; discriminate); cbn [decode] in H.
  - (* TU *) destruct (decode_uint w bs) as [[n r']|] eqn:E; cbn [dbind] in H; [|discriminate]. inversion H; subst.
    destruct (decode_uint_canon _ _ _ _ Hok E) as [-> Hn]. exists (be_bytes w n). cbn [encode].
    destruct (N.ltb_spec n (256 ^ N.of_nat w)); [|lia]. split; reflexivity.
  - (* TBool *) destruct (decode_uint 1 bs) as [[n r']|] eqn:E; cbn [dbind] in H; [|discriminate].
    destruct (decode_uint_canon _ _ _ _ Hok E) as [-> Hn]. change (256 ^ N.of_nat 1) with 256 in Hn.
    rewrite be_bytes_1 in * by assumption.
    destruct (N.eqb_spec n 0); [inversion H; subst; exists [0]; split; reflexivity|].
    destruct (N.eqb_spec n 1); [|discriminate]. inversion H; subst. exists [1]. split; reflexivity.
  - (* TBytes *) destruct (split_collection bs) as [[d r']|] eqn:E; cbn [dbind] in H; [|discriminate]. inversion H; subst.
    destruct (split_canon _ _ _ Hok E) as (used & Hu & ->). exists used. split; [exact Hu|reflexivity].
  - (* TArr *) destruct (take_n n bs) as [[h r']|] eqn:E; [|discriminate]. inversion H; subst.
    apply take_n_spec in E. destruct E as [-> L]. exists h. cbn [encode]. rewrite L, Nat.eqb_refl. split; reflexivity.
  - (* TVec *) destruct W as (_ & W1 & W2).
    destruct (split_collection bs) as [[d r']|] eqn:E; cbn [dbind] in H; [|discriminate].
    destruct (vec_loop (decode t None) (length d) d VNil) as [items|] eqn:L; cbn [dbind] in H; [|discriminate].
    inversion H; subst. destruct (split_canon _ _ _ Hok E) as (used & Hu & ->).
    assert (Hd : bytes_ok d) by (eapply with_len_data_ok; eassumption).
    destruct (vec_loop_canon (encode t) (decode t None)) with (fuel := length d) (data := d) (acc := VNil) (items := v)
      as (v' & Hv & Hev); try assumption.
    + intros bs0 x r0 Hb Hdec. apply (proj1 (IHt C) W2 bs0 x r0 Hb Hdec).
    + apply is_chain_nil.
    + cbn [vcat] in Hv. subst v'. exists used. cbn [encode]. rewrite Hev. cbn [obind]. split; [exact Hu|reflexivity].
  - (* TOpt *) destruct W as (_ & W).
    destruct (decode_uint 1 bs) as [[m0 r']|] eqn:E; cbn [dbind] in H; [|discriminate].
    destruct (decode_uint_canon _ _ _ _ Hok E) as [-> Hm]. change (256 ^ N.of_nat 1) with 256 in Hm.
    rewrite be_bytes_1 in * by assumption.
    destruct (N.eqb_spec m0 0).
    + inversion H; subst. exists [0]. split; reflexivity.
    + destruct (N.eqb_spec m0 1); [|discriminate]. subst m0.
      destruct (decode t None r') as [[x r'']|] eqn:E2; cbn [dbind] in H; [|discriminate]. inversion H; subst.
      assert (Hr : bytes_ok r') by (apply bytes_ok_app in Hok; tauto).
      destruct (proj1 (IHt C) W _ _ _ Hr E2) as (used & Hu & ->).
      exists (1 :: used). cbn [encode]. rewrite Hu. cbn [obind]. split; reflexivity.
  - (* TUnit *) inversion H; subst. exists []. split; reflexivity.
  - (* TPair *) destruct C as [C1 C2]. destruct W as (_ & W1 & W2).
    destruct (decode t1 None bs) as [[x r1]|] eqn:E1; cbn [dbind] in H; [|discriminate].
    destruct (decode t2 None r1) as [[y r2]|] eqn:E2; cbn [dbind] in H; [|discriminate]. inversion H; subst.
    destruct (proj1 (IHt1 C1) W1 _ _ _ Hok E1) as (u1 & Hu1 & ->).
    assert (Hr : bytes_ok r1) by (apply bytes_ok_app in Hok; tauto).
    destruct (proj1 (IHt2 C2) W2 _ _ _ Hr E2) as (u2 & Hu2 & ->).
    exists (u1 ++ u2). cbn [encode]. rewrite Hu1, Hu2. cbn [obind]. rewrite app_assoc. split; reflexivity.
  - (* TEnum *) destruct W as (_ & W).
    destruct (decode_uint w bs) as [[d r']|] eqn:E; cbn [dbind] in H; [|discriminate].
    destruct (decode_uint_canon _ _ _ _ Hok E) as [-> Hd].
    assert (Hr : bytes_ok r') by (apply bytes_ok_app in Hok; tauto).
    destruct (proj2 (IHt C) W d _ _ _ Hr H) as (p & used & -> & Hu & ->).
    exists (be_bytes w d ++ used). cbn [encode].
    destruct (N.ltb_spec d (256 ^ N.of_nat w)); [|lia]. rewrite Hu. cbn [obind].
    rewrite app_assoc. split; reflexivity.
  - (* TCase *) destruct C as [C1 C2]. destruct W as (_ & W1 & W3).
    destruct (N.eqb_spec d0 d).
    + subst d0. destruct (decode t1 None bs) as [[p r1]|] eqn:E1; cbn [dbind] in H; [|discriminate]. inversion H; subst.
      destruct (proj1 (IHt1 C1) W1 _ _ _ Hok E1) as (used & Hu & ->).
      exists p, used. cbn [encode]. rewrite N.eqb_refl. split; [reflexivity|]. split; [exact Hu|reflexivity].
    + destruct (proj2 (IHt2 C2) W3 d0 _ _ _ Hok H) as (p & used & -> & Hu & ->).
      exists p, used. cbn [encode]. destruct (N.eqb_spec d0 d); [contradiction|].
      split; [reflexivity|]. split; [exact Hu|reflexivity].
  - (* TLeafIndex *) destruct (decode_uint 4 bs) as [[n r']|] eqn:E; cbn [dbind] in H; [|discriminate].
    destruct (n <=? max_leaf_index); [|discriminate]. inversion H; subst.
    destruct (decode_uint_canon _ _ _ _ Hok E) as [-> Hn]. exists (be_bytes 4 n). cbn [encode].
    change (256 ^ N.of_nat 4) with (256 ^ 4) in Hn.
    destruct (N.ltb_spec n (256 ^ 4)); [|lia]. split; reflexivity.
  - (* TMap, ordered *) destruct C as (_ & C1 & C2). destruct W as (_ & W1 & W2 & W3).
    destruct (split_collection bs) as [[d r']|] eqn:E; cbn [dbind] in H; [|discriminate].
    destruct (map_loop (decode t1 None) (decode t2 None) (length d) d VNil) as [items|] eqn:L; cbn [dbind] in H; [|discriminate].
    inversion H; subst. destruct (split_canon _ _ _ Hok E) as (used & Hu & ->).
    assert (Hd : bytes_ok d) by (eapply with_len_data_ok; eassumption).
    destruct (map_loop_canon (encode t1) (encode t2) (decode t1 None) (decode t2 None))
      with (fuel := length d) (data := d) (acc := VNil) (items := v) as (v' & Hv & Hev); try assumption.
    + intros bs0 x r0 Hb Hdec. apply (proj1 (IHt1 C1) W2 bs0 x r0 Hb Hdec).
    + intros bs0 x r0 Hb Hdec. apply (proj1 (IHt2 C2) W3 bs0 x r0 Hb Hdec).
    + apply is_chain_nil.
    + cbn [vcat] in Hv. subst v'. exists used. cbn [encode]. rewrite Hev. cbn [obind]. split; [exact Hu|reflexivity].
  - (* TDefault *) destruct W as (_ & W). destruct (N.ltb_spec d0 m); [discriminate|].
    destruct (decode t None bs) as [[p r1]|] eqn:E1; cbn [dbind] in H; [|discriminate]. inversion H; subst.
    destruct (proj1 (IHt C) W _ _ _ Hok E1) as (used & Hu & ->).
    exists p, used. cbn [encode]. destruct (N.leb_spec m d0); [|lia]. split; [reflexivity|]. split; [exact Hu|reflexivity].
  - (* TDep *) destruct C as [C1 C2]. destruct W as (_ & W1 & W2).
    destruct (decode t None bs) as [[x r1]|] eqn:E1; cbn [dbind] in H; [|discriminate].
    destruct (decode (f x) None r1) as [[y r2]|] eqn:E2; cbn [dbind] in H; [|discriminate]. inversion H; subst.
    destruct (proj1 (IHt C1) W1 _ _ _ Hok E1) as (u1 & Hu1 & ->).
    assert (Hr : bytes_ok r1) by (apply bytes_ok_app in Hok; tauto).
    destruct (proj1 (IHf x (C2 x)) (W2 x) _ _ _ Hr E2) as (u2 & Hu2 & ->).
    exists (u1 ++ u2). cbn [encode]. rewrite Hu1, Hu2. cbn [obind]. rewrite app_assoc. split; reflexivity.
Qed.

(* a decoded value of a canonical type re-encodes to exactly the bytes that were consumed *)
Theorem decode_canonical t bs v r :
  wf t -> canonicalP t -> bytes_ok bs -> decode t None bs = DOk (v, r) ->
  exists used, encode t v = Some used /\ bs = used ++ r.
Proof. intros W C. apply (proj1 (canonical_both t C) W). Qed.

(* two different values never have encodings one of which is a prefix of the other *)
Theorem unique_decoding t v1 v2 b1 b2 r1 r2 :
  wf t -> vwf t v1 = true -> vwf t v2 = true ->
  encode t v1 = Some b1 -> encode t v2 = Some b2 -> b1 ++ r1 = b2 ++ r2 -> v1 = v2 /\ r1 = r2.
Proof.
  intros W H1 H2 E1 E2 Heq.
  pose proof (roundtrip t v1 b1 r1 W H1 E1) as D1. pose proof (roundtrip t v2 b2 r2 W H2 E2) as D2.
  rewrite Heq in D1. rewrite D1 in D2. inversion D2. split; reflexivity.
Qed.

(* boolean checks used on the generated table imply the Prop versions *)
Lemma wfb_wfP t : forall c, wfb c t = true -> wfP c t.
Proof.
  ind_ty t; intros c H; cbn [wfb] in H; cbn [wfP]; try discriminate;
    repeat match goal with
    | H : _ && _ = true |- _ => apply andb_true_iff in H; destruct H
    | H : negb ?c = true |- _ => apply negb_true_iff in H
    end; repeat split; auto.
Qed.

Lemma canonicalb_canonicalP t : canonicalb t = true -> canonicalP t.
Proof.
  ind_ty t; intro H; cbn [canonicalb] in H; cbn [canonicalP]; try discriminate;
    repeat match goal with
    | H : _ && _ = true |- _ => apply andb_true_iff in H; destruct H
    end; repeat split; auto.
Qed.
