(* The selection logic translated from tree_kem/kem.rs (Gen/KemGen.v) is the one the decap /
   encap models and their theorems are about (Model/Decap.v, Model/Kem.v). *)
From Coq Require Import NArith List Bool Arith Lia.
From MlsV Require Import Res TreeMathGen TreeMathProofs Tree Kem Priv Decap KemGen.
Import ListNotations.
Local Open Scope N_scope.

Lemma odd_mod2 x : (x mod 2 =? 1) = N.odd x.
Proof.
  destruct (even_odd_cases x) as [[Ev E]|[Ev E]].
  - rewrite <- N.negb_even, Ev. rewrite E at 1. rewrite N.mul_comm, N.mod_mul by lia. reflexivity.
  - rewrite <- N.negb_even, Ev. rewrite E at 1. rewrite N.add_comm, N.mul_comm, N.mod_add by lia. reflexivity.
Qed.

Theorem gen_keep_is_model excl idx : gen_keep excl idx = keep excl idx.
Proof. unfold gen_keep, keep. rewrite odd_mod2. reflexivity. Qed.

Theorem gen_seal_keep_is_model excl idx : gen_seal_keep (map (fun l => 2 * l) excl) idx = not_excluded excl idx.
Proof. reflexivity. Qed.

(* the receiver's tests, by position on its path *)
Definition blank_at (t : tree) (me : N) (i : nat) : bool := match get t (lvl_node (N.of_nat i) me) with None => true | Some _ => false end.
Definition nokey_at (pr : priv) (i : nat) : bool := match nth_error pr i with Some (Some _) => false | _ => true end.

Lemma gen_walk_down_is_down t me : blank_at t me O = false -> forall k f, (k < f)%nat ->
  gen_walk_down (blank_at t me) f k = Ok (down t me k).
Proof.
  intros B0. induction k as [|k IH]; intros f Lf; destruct f as [|f]; try lia; cbn [gen_walk_down down].
  - rewrite B0. reflexivity.
  - unfold blank_at at 1. destruct (get t (lvl_node (N.of_nat (S k)) me)) eqn:G; [reflexivity|]. apply IH. lia.
Qed.

Theorem gen_resolved_pos_is_model t me pr k : get t (2 * me) <> None ->
  gen_resolved_pos (blank_at t me) (nokey_at pr) k = Ok (resolved_pos t me pr k).
Proof.
  intro Nb. unfold gen_resolved_pos.
  assert (B0 : blank_at t me O = false).
  { unfold blank_at, lvl_node. cbn [N.of_nat]. rewrite N.pow_0_r, N.div_1_r, node_0. destruct (get t (2 * me)); [reflexivity|congruence]. }
  rewrite (gen_walk_down_is_down t me B0 k (S k)) by lia.
  cbn [bind ret]. unfold resolved_pos, nokey_at. destruct (nth_error pr (down t me k)) as [[x|]|]; reflexivity.
Qed.
