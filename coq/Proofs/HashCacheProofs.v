(* The incremental tree-hash cache equals the from-scratch tree hash.

   tree_hash (Model/HashCache.v, the queue algorithm of tree_kem/tree_hash.rs) run over a cache whose
   entries outside the direct paths of the listed leaves are right yields a cache that is right everywhere
   and does not panic or run out of fuel: the FIFO queue visits the ancestors level by level, so a parent
   is (re)computed after both of its children.  update_hashes then keeps the cache right through any edit
   of the tree that is confined to the listed leaves and their ancestors, whether the tree grows, shrinks
   or keeps its size. *)
From Coq Require Import NArith Arith List Bool Lia.
From MlsV Require Import Res TreeMathGen BitsN TreeMathProofs Tree TreeProofs Kem Priv HashCache.
Import ListNotations.
Local Open Scope N_scope.

Lemma node_inj k j k' j' : node k j = node k' j' -> k = k' /\ j = j'.
Proof.
  intro E. pose proof (node_inj_level _ _ _ _ E) as Ek. subst k'. split; [reflexivity|].
  unfold node in E. pose proof (pow2_pos k). nia.
Qed.

Lemma hset_at_spec v : forall c i, (i < length c)%nat ->
  exists c', hset_at c i v = Ok c' /\ length c' = length c /\ nth_error c' i = Some v /\
             forall m, m <> i -> nth_error c' m = nth_error c m.
Proof.
  induction c as [|h r IH]; intros i L; cbn [length] in L; [lia|].
  destruct i as [|i]; cbn [hset_at].
  - exists (v :: r). split; [reflexivity|]. split; [reflexivity|]. split; [reflexivity|].
    intros m Nm. destruct m; [contradiction|reflexivity].
  - destruct (IH i ltac:(lia)) as (r' & E & Ln & Gi & Go). rewrite E. cbn [bind].
    exists (h :: r'). split; [reflexivity|]. split; [cbn [length]; lia|]. split; [exact Gi|].
    intros m Nm. destruct m; [reflexivity|]. cbn [nth_error]. apply Go. lia.
Qed.

Lemma hset_spec c n v : n < N.of_nat (length c) ->
  exists c', hset c n v = Ok c' /\ length c' = length c /\ hidx c' n = Ok v /\
             forall m, m <> n -> hidx c' m = hidx c m.
Proof.
  intro L. destruct (hset_at_spec v c (N.to_nat n) ltac:(lia)) as (c' & E & Ln & Gi & Go).
  exists c'. split; [exact E|]. split; [exact Ln|]. split; [unfold hidx; rewrite Gi; reflexivity|].
  intros m Nm. unfold hidx. rewrite Go by lia. reflexivity.
Qed.

Lemma nth_error_firstn_lt {A} : forall n (l : list A) i, (i < n)%nat -> nth_error (firstn n l) i = nth_error l i.
Proof.
  induction n as [|n IH]; intros l i L; [lia|]. destruct l as [|x l]; [reflexivity|].
  destruct i as [|i]; [reflexivity|]. cbn [firstn nth_error]. apply IH. lia.
Qed.

Lemma filter_length_le' {A} (f : A -> bool) l : (length (filter f l) <= length l)%nat.
Proof. induction l as [|x l IH]; [apply le_n|]. cbn [filter]. destruct (f x); cbn [length]; lia. Qed.

Lemma div_div_pow2 l k : l / 2 ^ N.of_nat k / 2 = l / 2 ^ N.of_nat (S k).
Proof.
  rewrite N.div_div by (try apply N.pow_nonzero; lia). f_equal.
  rewrite Nat2N.inj_succ, N.pow_succ_r by lia. lia.
Qed.

Lemma hresize_length c n : length (hresize c n) = N.to_nat n.
Proof. unfold hresize. rewrite app_length, firstn_length, repeat_length. lia. Qed.

Lemma hresize_idx c n i : i < n -> i < N.of_nat (length c) -> hidx (hresize c n) i = hidx c i.
Proof.
  intros Hi Hc. unfold hidx, hresize. rewrite nth_error_app1 by (rewrite firstn_length; lia).
  rewrite nth_error_firstn_lt by lia. reflexivity.
Qed.

Section Core.
  Variable pay : N -> N.
  Variables (t : tree) (flt : list N) (D : nat).
  Hypothesis HD : (D <= 30)%nat.
  Let nl := 2 ^ N.of_nat D.

  Definition inr (k : nat) (j : N) : Prop := (k <= D)%nat /\ j < 2 ^ N.of_nat (D - k).
  Definition good (c : hcache) (k : nat) (j : N) : Prop :=
    hidx c (node (N.of_nat k) j) = Ok (thash pay t flt k j).
  Definition dirty (ls : list N) (k : nat) (j : N) : Prop := exists l, In l ls /\ l / 2 ^ N.of_nat k = j.
  Definition Valid (c : hcache) : Prop :=
    N.of_nat (length c) = 2 * nl - 1 /\ forall k j, inr k j -> good c k j.

  Lemma dirty_dec ls k j : dirty ls k j \/ ~ dirty ls k j.
  Proof.
    induction ls as [|l ls IH].
    - right. intros (l & [] & _).
    - destruct (N.eq_dec (l / 2 ^ N.of_nat k) j) as [E|Ne]; [left; exists l; split; [left; reflexivity|exact E]|].
      destruct IH as [(l' & I & E)|Nd]; [left; exists l'; split; [right; exact I|exact E]|].
      right. intros (l' & [->|I] & E); [contradiction|apply Nd; exists l'; split; assumption].
  Qed.

  Lemma inr_bound k j : inr k j -> node (N.of_nat k) j < 2 * nl - 1.
  Proof.
    intros [Hk Hj]. pose proof (node_bound (N.of_nat D) (N.of_nat k) j ltac:(lia)) as B.
    replace (N.of_nat D - N.of_nat k) with (N.of_nat (D - k)) in B by lia. specialize (B Hj).
    pose proof (pow2_pos (N.of_nat k)). unfold nl. rewrite N.pow_add_r, N.pow_1_r in B. lia.
  Qed.

  Lemma inr_lvl k l : (k <= D)%nat -> l < nl -> inr k (l / 2 ^ N.of_nat k).
  Proof.
    intros Hk Hl. split; [exact Hk|]. apply N.div_lt_upper_bound; [apply N.pow_nonzero; lia|].
    rewrite <- N.pow_add_r. replace (N.of_nat k + N.of_nat (D - k)) with (N.of_nat D) by lia. exact Hl.
  Qed.

  Lemma inr_children k j : inr (S k) j -> inr k (2 * j) /\ inr k (2 * j + 1).
  Proof.
    intros [Hk Hj]. assert (E : 2 ^ N.of_nat (D - k) = 2 * 2 ^ N.of_nat (D - S k)).
    { replace (D - k)%nat with (S (D - S k)) by lia. rewrite Nat2N.inj_succ, N.pow_succ_r by lia. reflexivity. }
    split; (split; [lia|rewrite E; lia]).
  Qed.

  (* the queue between two levels: the rest of level k, then the parents already queued *)
  Definition Q (k : nat) (pre suf : list N) : list N :=
    map (lvl_node (N.of_nat k)) suf ++ (if (k <? D)%nat then map (lvl_node (N.of_nat (S k))) pre else []).

  Record J (ls : list N) (k : nat) (pre : list N) (c : hcache) : Prop := {
    Jlen : N.of_nat (length c) = 2 * nl - 1;
    Jlow : forall k' j, (k' < k)%nat -> inr k' j -> good c k' j;
    Jclean : forall k' j, inr k' j -> ~ dirty ls k' j -> good c k' j;
    Jpre : forall l, In l pre -> good c k (l / 2 ^ N.of_nat k) }.

  Lemma level_done ls k c : (k <= D)%nat -> J ls k ls c -> forall j, inr k j -> good c k j.
  Proof.
    intros Hk Jc j I. destruct (dirty_dec ls k j) as [(l & Il & E)|Nd].
    - rewrite <- E. apply (Jpre _ _ _ _ Jc). exact Il.
    - apply (Jclean _ _ _ _ Jc); assumption.
  Qed.

  Lemma parent_of_lvl k l : (k < D)%nat -> l < nl ->
    parent_sibling (lvl_node (N.of_nat k) l) nl =
    Ok (Some (mkParentSibling (lvl_node (N.of_nat (S k)) l) (node (N.of_nat k) (sib (l / 2 ^ N.of_nat k))))).
  Proof.
    intros Hk Hl. destruct (inr_lvl k l ltac:(lia) Hl) as [_ B]. unfold lvl_node, nl.
    rewrite (parent_sibling_ok (N.of_nat D) (N.of_nat k) (l / 2 ^ N.of_nat k)) by
      (try lia; replace (N.of_nat D - N.of_nat k) with (N.of_nat (D - k)) by lia; exact B).
    replace (N.of_nat k + 1) with (N.of_nat (S k)) by lia. rewrite div_div_pow2. reflexivity.
  Qed.

  Lemma parent_of_top l : l < nl -> parent_sibling (lvl_node (N.of_nat D) l) nl = Ok None.
  Proof.
    intro Hl. unfold lvl_node. rewrite N.div_small by exact Hl. apply parent_sibling_root. lia.
  Qed.

  Theorem queue_ok ls (Hls : forall l, In l ls -> l < nl) :
    forall M k pre suf c fuel, pre ++ suf = ls -> (k <= D)%nat -> (k = O -> suf = []) ->
    M = ((D - k) * S (length ls) + length suf)%nat -> (M <= fuel)%nat -> J ls k pre c ->
    exists c', queue_pass pay fuel t flt nl (Q k pre suf) c = Ok c' /\ Valid c'.
  Proof.
    induction M as [M IH] using lt_wf_ind. intros k pre suf c fuel Eps Hk H0 EM Hf Jc.
    destruct suf as [|l s].
    - rewrite app_nil_r in Eps. subst pre. unfold Q. cbn [map app].
      destruct (Nat.ltb_spec k D) as [Lt|Ge].
      + (* next level *)
        assert (J1 : J ls (S k) [] c).
        { constructor; [exact (Jlen _ _ _ _ Jc)| |exact (Jclean _ _ _ _ Jc)|intros l []].
          intros k' j Hk' I. destruct (Nat.eq_dec k' k) as [->|Ne]; [apply (level_done ls k c Hk Jc j I)|apply (Jlow _ _ _ _ Jc); [lia|exact I]]. }
        destruct (IH ((D - S k) * S (length ls) + length ls)%nat ltac:(subst M; cbn [length]; nia) (S k) [] ls c fuel eq_refl ltac:(lia) ltac:(discriminate) eq_refl ltac:(subst M; cbn [length] in *; nia) J1) as (c' & E & V).
        exists c'. split; [|exact V]. unfold Q in E. cbn [map] in E. destruct (S k <? D)%nat; rewrite app_nil_r in E; exact E.
      + assert (k = D) by lia. subst k. exists c. split; [destruct fuel; reflexivity|].
        split; [exact (Jlen _ _ _ _ Jc)|]. intros k' j I. destruct (Nat.eq_dec k' D) as [->|Ne]; [apply (level_done ls D c Hk Jc j I)|].
        apply (Jlow _ _ _ _ Jc); [destruct I; lia|exact I].
    - destruct k as [|k0]; [specialize (H0 eq_refl); discriminate|].
      destruct fuel as [|f]; [subst M; cbn [length] in Hf; nia|].
      assert (Il : In l ls) by (rewrite <- Eps; apply in_or_app; right; left; reflexivity).
      pose proof (Hls l Il) as Hl. set (j := l / 2 ^ N.of_nat (S k0)).
      assert (Ij : inr (S k0) j) by (apply inr_lvl; assumption).
      destruct (inr_children k0 j Ij) as [Ia Ib].
      unfold Q. cbn [map app queue_pass]. change (lvl_node (N.of_nat (S k0)) l) with (node (N.of_nat (S k0)) j).
      replace (N.of_nat (S k0)) with (N.of_nat k0 + 1) by lia.
      rewrite left_ok, right_ok by lia. cbn [bind].
      replace (N.of_nat k0 + 1) with (N.of_nat (S k0)) by lia.
      rewrite (Jlow _ _ _ _ Jc k0 (2 * j) ltac:(lia) Ia), (Jlow _ _ _ _ Jc k0 (2 * j + 1) ltac:(lia) Ib). cbn [bind].
      destruct (hset_spec c (node (N.of_nat (S k0)) j) (hash_for_parent (parent_of pay t (node (N.of_nat (S k0)) j)) flt (thash pay t flt k0 (2 * j)) (thash pay t flt k0 (2 * j + 1))))
        as (c' & Es & Ln & Gi & Go); [rewrite (Jlen _ _ _ _ Jc); apply inr_bound; exact Ij|].
      rewrite Es. cbn [bind].
      assert (J' : J ls (S k0) (pre ++ [l]) c').
      { constructor.
        - rewrite Ln. exact (Jlen _ _ _ _ Jc).
        - intros k' j' Hk' I. unfold good. rewrite Go; [apply (Jlow _ _ _ _ Jc); assumption|].
          intro E. apply node_inj in E. lia.
        - intros k' j' I Nd. unfold good. rewrite Go; [apply (Jclean _ _ _ _ Jc); assumption|].
          intro E. apply node_inj in E. destruct E as [Ek Ej]. apply Nd. exists l. split; [exact Il|].
          assert (k' = S k0) by lia. subst k' j'. reflexivity.
        - intros l' I'. unfold good. destruct (N.eq_dec (l' / 2 ^ N.of_nat (S k0)) j) as [E|Ne].
          + rewrite E, Gi. reflexivity.
          + rewrite Go by (intro E; apply node_inj in E; destruct E; contradiction).
            apply in_app_or in I'. destruct I' as [I'|[<-|[]]]; [apply (Jpre _ _ _ _ Jc); exact I'|contradiction]. }
      assert (Eq' : exists q'', push_parent (map (lvl_node (N.of_nat (S k0))) s ++ (if (S k0 <? D)%nat then map (lvl_node (N.of_nat (S (S k0)))) pre else [])) (node (N.of_nat (S k0)) j) nl = Ok q''
                    /\ q'' = Q (S k0) (pre ++ [l]) s).
      { unfold push_parent, Q. change (node (N.of_nat (S k0)) j) with (lvl_node (N.of_nat (S k0)) l).
        destruct (Nat.ltb_spec (S k0) D) as [Lt|Ge].
        - rewrite parent_of_lvl by assumption. cbn [bind ret ParentSibling_parent]. eexists. split; [reflexivity|].
          rewrite map_app, <- app_assoc. reflexivity.
        - assert (S k0 = D) by lia. rewrite H, parent_of_top by exact Hl. cbn [bind ret]. eexists. split; reflexivity. }
      destruct Eq' as (q'' & Eq & ->). rewrite Eq. cbn [bind].
      apply (IH ((D - S k0) * S (length ls) + length s)%nat ltac:(subst M; cbn [length]; lia) (S k0) (pre ++ [l]) s c' f);
        [rewrite <- app_assoc; exact Eps|exact Hk|discriminate|reflexivity|subst M; cbn [length] in Hf; lia|exact J'].
  Qed.

  (* the leaf pass *)
  Definition keep (ls : list N) : list N := filter (fun l => l <? nl) ls.

  Lemma keep_lt ls l : In l (keep ls) -> l < nl.
  Proof. intro I. apply filter_In in I. destruct I as [_ E]. apply N.ltb_lt. exact E. Qed.

  Lemma leaf_pass_ok all : forall rest done c, done ++ rest = all ->
    N.of_nat (length c) = 2 * nl - 1 ->
    (forall k j, inr k j -> ~ dirty (keep all) k j -> good c k j) ->
    (forall l, In l (keep done) -> good c 0 l) ->
    exists c', leaf_pass pay t flt nl rest c (if (0 <? D)%nat then map (lvl_node 1) (keep done) else []) =
               Ok (c', if (0 <? D)%nat then map (lvl_node 1) (keep all) else []) /\
               J (keep all) 0 (keep all) c'.
  Proof.
    induction rest as [|l rest IH]; intros done c Ed Ln Cl Dn.
    - rewrite app_nil_r in Ed. subst done. exists c. split; [reflexivity|].
      constructor; [exact Ln|intros; lia|exact Cl|].
      intros l I. cbn [N.of_nat]. rewrite N.pow_0_r, N.div_1_r. apply Dn. exact I.
    - cbn [leaf_pass]. destruct (N.ltb_spec l nl) as [Lt|Ge].
      + assert (Il : inr 0 l) by (split; [lia|rewrite Nat.sub_0_r; exact Lt]).
        destruct (hset_spec c (2 * l) (hash_for_leaf l (if negb (mem l flt) then leaf_of pay t l else None)))
          as (c' & Es & Ln' & Gi & Go); [rewrite Ln; pose proof (inr_bound 0 l Il) as B; cbn [N.of_nat] in B; rewrite node_0 in B; exact B|].
        rewrite Es. cbn [bind].
        assert (Ep : push_parent (if (0 <? D)%nat then map (lvl_node 1) (keep done) else []) (2 * l) nl =
                     Ok (if (0 <? D)%nat then map (lvl_node 1) (keep (done ++ [l])) else [])).
        { unfold push_parent. replace (2 * l) with (lvl_node (N.of_nat 0) l) by (unfold lvl_node; cbn [N.of_nat]; rewrite N.pow_0_r, N.div_1_r, node_0; reflexivity).
          destruct (Nat.ltb_spec 0 D) as [Lt0|Ge0].
          - rewrite parent_of_lvl by assumption. cbn [bind ret ParentSibling_parent].
            unfold keep. rewrite filter_app, map_app. cbn [filter]. destruct (N.ltb_spec l nl); [|lia]. reflexivity.
          - assert (D0 : D = O) by lia. pose proof (parent_of_top l Lt) as PT. rewrite D0 in PT at 1. rewrite PT. reflexivity. }
        rewrite Ep. cbn [bind].
        apply (IH (done ++ [l]) c'); [rewrite <- app_assoc; exact Ed|rewrite Ln'; exact Ln| |].
        * intros k j I Nd. unfold good. rewrite Go; [apply Cl; assumption|].
          rewrite <- node_0. change 0 with (N.of_nat 0). intro E. apply node_inj in E. destruct E as [Ek Ej].
          apply Nd. exists l. split; [apply filter_In; split; [rewrite <- Ed; apply in_or_app; right; left; reflexivity|apply N.ltb_lt; exact Lt]|].
          assert (k = O) by lia. subst k j. cbn [N.of_nat]. rewrite N.pow_0_r, N.div_1_r. reflexivity.
        * intros l' I'. unfold good. cbn [N.of_nat]. rewrite node_0. destruct (N.eq_dec l' l) as [->|Ne].
          -- rewrite Gi. reflexivity.
          -- rewrite Go by lia. rewrite <- node_0. apply Dn. unfold keep in I'. rewrite filter_app in I'. apply in_app_or in I'.
             destruct I' as [I'|I']; [exact I'|]. cbn [filter] in I'. destruct (l <? nl); [destruct I' as [<-|[]]; contradiction|destruct I'].
      + replace (keep done) with (keep (done ++ [l])) by (unfold keep; rewrite filter_app; cbn [filter]; destruct (N.ltb_spec l nl); [lia|apply app_nil_r]).
        apply (IH (done ++ [l]) c); [rewrite <- app_assoc; exact Ed|exact Ln|exact Cl|].
        intros l' I'. apply Dn. unfold keep in I'. rewrite filter_app in I'. cbn [filter] in I'. destruct (N.ltb_spec l nl); [lia|]. rewrite app_nil_r in I'. exact I'.
  Qed.

  (* tree_hash over a cache whose entries off the listed leaves' direct paths are right *)
  Theorem tree_hash_correct c ls :
    (forall k j, inr k j -> ~ dirty (keep ls) k j -> good (hresize c (2 * nl - 1)) k j) ->
    exists c', tree_hash pay c t (Some ls) flt nl = Ok c' /\ Valid c'.
  Proof.
    intro Cl. unfold tree_hash.
    assert (Bn : nl <= 2 ^ 30) by (unfold nl; apply pow2_le_mono; lia).
    unfold u64_mul, u64_sub. destruct (N.ltb_spec (nl * 2) two64) as [_|X]; [|unfold two64 in X; lia]. cbn [bind].
    pose proof (pow2_pos (N.of_nat D)) as Pp. fold nl in Pp.
    destruct (N.leb_spec 1 (nl * 2)) as [_|X]; [|lia]. cbn [bind].
    replace (nl * 2 - 1) with (2 * nl - 1) by lia.
    destruct (leaf_pass_ok ls ls [] (hresize c (2 * nl - 1)) eq_refl ltac:(rewrite hresize_length; lia) Cl ltac:(intros l [])) as (c1 & E1 & J1).
    cbn [keep filter map] in E1. replace (if (0 <? D)%nat then [] else []) with (@nil N) in E1 by (destruct (0 <? D)%nat; reflexivity).
    rewrite E1. cbn [bind fst snd].
    assert (Lk : (length (keep ls) <= length ls)%nat) by apply filter_length_le'.
    destruct (queue_ok (keep ls) (keep_lt ls) (D * S (length (keep ls)))%nat 0 (keep ls) [] c1 (33 * S (length ls))%nat (app_nil_r _) ltac:(lia) ltac:(reflexivity) ltac:(cbn [length]; lia) ltac:(nia) J1) as (c' & E & V).
    exists c'. split; [|exact V]. unfold Q in E. cbn [map app] in E. exact E.
  Qed.
End Core.

(* ---- the whole cache right for a tree: the state invariant ---- *)
Definition CacheOK (pay : N -> N) (t : tree) (c : hcache) : Prop :=
  exists D, (D <= 30)%nat /\ total_leaf_count t = 2 ^ N.of_nat D /\ Valid pay t [] D c.

Lemma leaf_range_in n l : In l (leaf_range n) <-> l < n.
Proof.
  unfold leaf_range. rewrite in_map_iff. split.
  - intros (i & <- & I). apply in_seq in I. lia.
  - intro L. exists (N.to_nat l). split; [lia|apply in_seq; lia].
Qed.

Lemma every_node_has_a_leaf D k j : inr D k j -> exists l, l < 2 ^ N.of_nat D /\ l / 2 ^ N.of_nat k = j.
Proof.
  intros [Hk Hj]. exists (j * 2 ^ N.of_nat k). split.
  - replace (N.of_nat D) with (N.of_nat (D - k) + N.of_nat k) by lia. rewrite N.pow_add_r.
    pose proof (pow2_pos (N.of_nat k)). nia.
  - apply N.div_mul. apply N.pow_nonzero. lia.
Qed.

(* initialize_hashes: from an empty cache, everything is computed *)
Theorem initialize_hashes_correct pay t : small t ->
  exists c, initialize_hashes pay [] t = Ok c /\ CacheOK pay t c.
Proof.
  intro S. destruct (total_leaf_count_spec t S) as (d & Et & Hd & _).
  set (D := N.to_nat d). assert (Ed : d = N.of_nat D) by (unfold D; lia). rewrite Ed in Et.
  cbn [initialize_hashes]. rewrite Et.
  assert (HD : (D <= 30)%nat) by lia.
  destruct (tree_hash_correct pay t [] D HD [] (leaf_range (2 ^ N.of_nat D))) as (c & E & V).
  - intros k j I Nd. exfalso. apply Nd. destruct (every_node_has_a_leaf D k j I) as (l & Ll & El).
    exists l. split; [|exact El]. apply filter_In. split; [apply leaf_range_in; exact Ll|apply N.ltb_lt; exact Ll].
  - exists c. split; [exact E|]. exists D. split; [exact HD|]. split; [exact Et|exact V].
Qed.

Lemma uncached_from_in c x : forall fuel l, (N.to_nat l < fuel)%nat ->
  (In x (uncached_from fuel c l) <-> x < l /\ N.of_nat (length c) <= 2 * x).
Proof.
  induction fuel as [|f IH]; intros l Lf; [lia|]. cbn [uncached_from].
  destruct (N.eqb_spec l 0) as [->|Nz]; [split; [intros []|lia]|].
  destruct (N.leb_spec (N.of_nat (length c)) (2 * (l - 1))) as [Le|Gt].
  - cbn [In]. rewrite IH by lia. split.
    + intros [<-|[A B]]; lia.
    + intros [A B]. destruct (N.eq_dec x (l - 1)) as [->|Ne]; [left; reflexivity|right; lia].
  - split; [intros []|lia].
Qed.

Lemma uncached_in c n x : In x (uncached c n) <-> x < n /\ N.of_nat (length c) <= 2 * x.
Proof. apply uncached_from_in. lia. Qed.

Lemma dirty_up ls k j l : In l ls -> l / 2 ^ N.of_nat k = 2 * j \/ l / 2 ^ N.of_nat k = 2 * j + 1 -> dirty ls (S k) j.
Proof.
  intros I E. exists l. split; [exact I|]. rewrite <- div_div_pow2.
  destruct E as [-> | ->]; [rewrite N.mul_comm, N.div_mul by lia; reflexivity|].
  replace (2 * j + 1) with (1 + j * 2) by lia. rewrite N.div_add by lia. reflexivity.
Qed.

(* update_hashes keeps the cache right through any edit confined to the listed leaves and their ancestors *)
Theorem update_hashes_keeps_the_cache pay pay' t t' c updated :
  small t' -> CacheOK pay t c ->
  (forall l, l < total_leaf_count t -> l < total_leaf_count t' -> ~ In l updated -> leaf_of pay' t' l = leaf_of pay t l) ->
  (forall k j, (j + 1) * 2 ^ N.of_nat (S k) <= total_leaf_count t' ->
     ~ dirty (filter (fun l => l <? total_leaf_count t') updated) (S k) j ->
     parent_of pay' t' (node (N.of_nat (S k)) j) = parent_of pay t (node (N.of_nat (S k)) j)) ->
  exists c', update_hashes pay' c t' updated = Ok c' /\ CacheOK pay' t' c'.
Proof.
  intros S' (D & HD & Et & Ln & V) HL HP.
  destruct (total_leaf_count_spec t' S') as (d' & Et' & Hd' & _).
  set (D' := N.to_nat d'). assert (Ed : d' = N.of_nat D') by (unfold D'; lia). rewrite Ed in Et'.
  assert (HD' : (D' <= 30)%nat) by lia.
  unfold update_hashes. rewrite Et'. rewrite Et, Et' in *.
  set (nl := 2 ^ N.of_nat D) in *. set (nl' := 2 ^ N.of_nat D') in *.
  set (E := updated ++ uncached c nl').
  assert (Kin : forall l, l < nl' -> In l E -> In l (keep D' E)).
  { intros l Ll I. apply filter_In. split; [exact I|apply N.ltb_lt; exact Ll]. }
  (* a clean node lies in the old tree *)
  assert (Old : forall k j, inr D' k j -> ~ dirty (keep D' E) k j -> inr D k j).
  { intros k j [Hk Hj] Nd.
    destruct (le_lt_dec k D) as [Lk|Gk]; [destruct (N.lt_ge_cases j (2 ^ N.of_nat (D - k))) as [Lj|Gj]; [split; assumption|]|]; exfalso; apply Nd.
    - (* the rightmost leaf below (k, j) is a new leaf *)
      pose proof (pow2_pos (N.of_nat k)) as Pk.
      assert (En : nl = 2 ^ N.of_nat (D - k) * 2 ^ N.of_nat k) by (unfold nl; rewrite <- N.pow_add_r; f_equal; lia).
      assert (En' : nl' = 2 ^ N.of_nat (D' - k) * 2 ^ N.of_nat k) by (unfold nl'; rewrite <- N.pow_add_r; f_equal; lia).
      exists (j * 2 ^ N.of_nat k + (2 ^ N.of_nat k - 1)). split.
      + apply Kin; [nia|]. apply in_or_app. right. apply uncached_in. split; [nia|]. rewrite Ln. nia.
      + rewrite N.add_comm, N.div_add by lia. rewrite N.div_small by lia. reflexivity.
    - pose proof (pow2_pos (N.of_nat k)) as Pk.
      assert (En' : nl' = 2 ^ N.of_nat (D' - k) * 2 ^ N.of_nat k) by (unfold nl'; rewrite <- N.pow_add_r; f_equal; lia).
      assert (Lt : 2 * nl <= 2 ^ N.of_nat k).
      { unfold nl. replace (2 * 2 ^ N.of_nat D) with (2 ^ N.of_nat (S D)) by (rewrite Nat2N.inj_succ, N.pow_succ_r by lia; reflexivity). apply pow2_le_mono. lia. }
      exists (j * 2 ^ N.of_nat k + (2 ^ N.of_nat k - 1)). split.
      + apply Kin; [nia|]. apply in_or_app. right. apply uncached_in. split; [nia|]. rewrite Ln. nia.
      + rewrite N.add_comm, N.div_add by lia. rewrite N.div_small by lia. reflexivity. }
  (* and its hash has not changed *)
  assert (Same : forall k j, inr D' k j -> ~ dirty (keep D' E) k j -> thash pay' t' [] k j = thash pay t [] k j).
  { induction k as [|k IHk]; intros j I Nd; cbn [thash].
    - cbn [mem existsb negb]. f_equal. destruct (Old 0%nat j I Nd) as [_ Lo]. destruct I as [_ Ln']. rewrite Nat.sub_0_r in *.
      apply HL; [exact Lo|exact Ln'|]. intro Iu. apply Nd. exists j. split; [|cbn [N.of_nat]; rewrite N.pow_0_r, N.div_1_r; reflexivity].
      apply Kin; [exact Ln'|apply in_or_app; left; exact Iu].
    - destruct (inr_children D' HD' k j I) as [Ia Ib]. f_equal.
      + apply HP.
        { destruct I as [Hk Hj]. assert (En' : nl' = 2 ^ N.of_nat (D' - S k) * 2 ^ N.of_nat (S k)) by (unfold nl'; rewrite <- N.pow_add_r; f_equal; lia).
          rewrite En'. pose proof (pow2_pos (N.of_nat (S k))). nia. }
        intros (l & Il & El). apply Nd. exists l. split; [|exact El].
        apply filter_In in Il. destruct Il as [Il Ll]. apply filter_In. split; [apply in_or_app; left; exact Il|exact Ll].
      + apply IHk; [exact Ia|]. intros (l & Il & El). apply Nd. apply (dirty_up _ k j l Il). left. exact El.
      + apply IHk; [exact Ib|]. intros (l & Il & El). apply Nd. apply (dirty_up _ k j l Il). right. exact El. }
  destruct (tree_hash_correct pay' t' [] D' HD' c E) as (c' & Ec & V').
  - intros k j I Nd. unfold good. pose proof (Old k j I Nd) as Io.
    rewrite hresize_idx; [rewrite (Same k j I Nd); apply V; exact Io|exact (inr_bound D' HD' k j I)|rewrite Ln; exact (inr_bound D HD k j Io)].
  - exists c'. split; [exact Ec|]. exists D'. split; [exact HD'|]. split; [exact Et'|exact V'].
Qed.

(* what tree_hash() returns, the entry of the root, is the from-scratch hash of the whole tree *)
Theorem cached_root_hash_is_the_tree_hash pay t c D : (D <= 30)%nat -> total_leaf_count t = 2 ^ N.of_nat D ->
  Valid pay t [] D c -> bind (root (total_leaf_count t)) (fun r => hidx c r) = Ok (thash pay t [] D 0).
Proof.
  intros HD Et [_ V]. rewrite Et, root_ok by lia. cbn [bind]. apply V. split; [lia|]. rewrite Nat.sub_diag. cbn. lia.
Qed.
