(* C03 - Any modification or forgery of protocol traffic is rejected.

   What can be a theorem here is COVERAGE: every field of a message is an input of the
   signature / MAC / AEAD that guards it, so that (with unforgeable primitives) an accepted
   message is one its sender produced.  Model/Framing.v builds the signed and the MACed byte
   strings of a PublicMessage (AuthenticatedContentTBS / TBM, SignContent) and the AADs of a
   PrivateMessage from the GENERATED type table, and Proofs/FramingProofs.v proves, for every
   value:
    - equal signed bytes => equal protocol version, wire format, FramedContent (group id,
      epoch, sender, authenticated data, content) and, for member senders, equal GroupContext
      (so a message cannot be moved to another epoch, group or tree state);
    - equal MACed bytes => additionally equal signature and confirmation tag;
    - the SignContent wrapper is injective in the content;
    - a PrivateMessage is determined by its content AAD, encrypted sender data and ciphertext;
    - with an unforgeable signature and MAC (hypotheses of the theorem, not axioms) an accepted
      public message carries a content its sender signed for the receiver's own group context.
   The tie to the code: the membership tag of every public message of generated histories is
   recomputed in Coq from the wire bytes (model TBM + Gallina HMAC-SHA-256) and equals the tag
   in the message; the signature verifies (real provider) over the bytes the model says are
   signed.  The search oracle is exhaustive on the implementation: every single-bit flip and
   every truncation of every message kind, field splices, cross-epoch / cross-group replays
   and insider-signed invalid commits are refused, never panic (./check C03).
   Statements only. *)
From Coq Require Import NArith List Bool String.
From MlsV Require Import Codec CodecProofs CodecTypes Sha2 Hkdf Framing FramingProofs Admission AdmissionGen AdmissionGenProofs.
Import ListNotations.
Local Open Scope N_scope.

Theorem C03_signature_covers_content_and_context : forall v1 v2 w1 w2 fc1 fc2 c1 c2 b,
  vwf T_AuthenticatedContentTBS (tbs_val v1 w1 fc1 c1) = true ->
  vwf T_AuthenticatedContentTBS (tbs_val v2 w2 fc2 c2) = true ->
  encode T_AuthenticatedContentTBS (tbs_val v1 w1 fc1 c1) = Some b ->
  encode T_AuthenticatedContentTBS (tbs_val v2 w2 fc2 c2) = Some b ->
  v1 = v2 /\ w1 = w2 /\ fc1 = fc2 /\ (member_like fc1 = true -> c1 = c2).
Proof. exact tbs_injective. Qed.

Theorem C03_membership_tag_covers_signature_and_confirmation : forall v1 v2 w1 w2 fc1 fc2 c1 c2 a1 a2 b,
  vwf T_AuthenticatedContentTBM (tbm_val v1 w1 fc1 c1 a1) = true ->
  vwf T_AuthenticatedContentTBM (tbm_val v2 w2 fc2 c2 a2) = true ->
  encode T_AuthenticatedContentTBM (tbm_val v1 w1 fc1 c1 a1) = Some b ->
  encode T_AuthenticatedContentTBM (tbm_val v2 w2 fc2 c2 a2) = Some b ->
  v1 = v2 /\ w1 = w2 /\ fc1 = fc2 /\ a1 = a2 /\ (member_like fc1 = true -> c1 = c2).
Proof. exact tbm_injective. Qed.

Theorem C03_sign_content_injective : forall l c1 c2 b,
  sign_input l c1 = Some b -> sign_input l c2 = Some b -> c1 = c2.
Proof. exact sign_input_injective. Qed.

Theorem C03_private_message_fully_authenticated : forall m1 m2 b1 b2 aad,
  encode T_PrivateMessage m1 = Some b1 -> encode T_PrivateMessage m2 = Some b2 ->
  encode T_PrivateContentAAD (prm_aad m1) = Some aad -> encode T_PrivateContentAAD (prm_aad m2) = Some aad ->
  prm_esd m1 = prm_esd m2 -> prm_ct m1 = prm_ct m2 -> m1 = m2.
Proof. exact private_message_covered. Qed.

Theorem C03_accepted_public_message_is_authentic :
  forall (key : Type) (verify : key -> list N -> list N -> bool) (signed : key -> list N -> Prop),
  (forall pk m s, verify pk m s = true -> signed pk m) ->
  forall (H : hash_alg) (maced : list N -> list N -> Prop),
  (forall k m t, t = hmac H k m -> maced k m) ->
  forall pk mkey ver ctx pm,
  accept_public key verify H pk mkey ver ctx pm = true ->
  exists tbs tbm,
    encode T_AuthenticatedContentTBS (tbs_val ver 1 (pm_content pm) ctx) = Some tbs
    /\ (exists si, sign_input "FramedContentTBS" tbs = Some si /\ signed pk si)
    /\ encode T_AuthenticatedContentTBM (tbm_val ver 1 (pm_content pm) ctx (pm_auth pm)) = Some tbm
    /\ maced mkey tbm.
Proof. exact accepted_public_is_authentic. Qed.

Theorem C03_accepted_content_is_the_senders :
  forall (key : Type) (verify : key -> list N -> list N -> bool) (signed : key -> list N -> Prop),
  (forall pk m s, verify pk m s = true -> signed pk m) ->
  forall (H : hash_alg) (maced : list N -> list N -> Prop),
  (forall k m t, t = hmac H k m -> maced k m) ->
  forall pk mkey ver ctx pm ver' w' fc' ctx' tbs' si',
  accept_public key verify H pk mkey ver ctx pm = true ->
  (forall si, signed pk si -> si = si') ->
  encode T_AuthenticatedContentTBS (tbs_val ver' w' fc' ctx') = Some tbs' ->
  sign_input "FramedContentTBS" tbs' = Some si' ->
  vwf T_AuthenticatedContentTBS (tbs_val ver 1 (pm_content pm) ctx) = true ->
  vwf T_AuthenticatedContentTBS (tbs_val ver' w' fc' ctx') = true ->
  ver = ver' /\ w' = 1 /\ pm_content pm = fc' /\ (member_like fc' = true -> ctx = ctx').
Proof. exact accepted_content_is_senders. Qed.

Print Assumptions C03_signature_covers_content_and_context.
Print Assumptions C03_membership_tag_covers_signature_and_confirmation.
Print Assumptions C03_sign_content_injective.
Print Assumptions C03_private_message_fully_authenticated.
Print Assumptions C03_accepted_public_message_is_authentic.
Print Assumptions C03_accepted_content_is_the_senders.

(* the admission rule (version, group id, epoch per content type, epoch window, no unencrypted
   application data) IS what the translator reads in MessageProcessor::check_metadata, shared by
   members and observers (regenerated on every run) *)
Theorem C03_translated_check_metadata_is_the_model : forall v gid epoch ct cipher,
  gen_check_metadata v gid epoch ct cipher = check_metadata v gid epoch ct cipher.
Proof. exact gen_check_metadata_is_model. Qed.
Print Assumptions C03_translated_check_metadata_is_the_model.
