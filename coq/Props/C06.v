(* C06 - A group restored from storage is the same group, at every crash point.

   Three ingredients, each for every history / value:
   (1) what is written is what is read back: the stored Snapshot type (regenerated from the
       source) round-trips through the codec (C12) - every field of the snapshot;
   (2) a write is atomic and a crash returns the last written state: over the repository
       model, for every sequence of inserts / reads / writes and every cut point, loading
       yields exactly the snapshot of the last successful write, for both providers;
   (3) the two providers expose the same stored history (C19_providers_agree).
   Statements only. *)
From Coq Require Import NArith List.
From MlsV Require Import Codec CodecProofs CodecTypes CodecTypesProofs Storage StorageProofs.
Import ListNotations.
Local Open Scope N_scope.

Theorem C06_snapshot_roundtrip : forall v bs rest,
  vwf T_Snapshot v = true -> encode T_Snapshot v = Some bs -> decode T_Snapshot None (bs ++ rest) = DOk (v, rest).
Proof. exact snapshot_roundtrip. Qed.

Theorem C06_crash_returns_last_write : forall b ops r last,
  repo_load r = last -> repo_load (fst (run_ops b r last ops)) = snd (run_ops b r last ops).
Proof. exact crash_returns_last_write. Qed.

Theorem C06_write_sets_snapshot : forall b s snap ins upd s',
  st_write b s snap ins upd = SOk s' -> g_snap s' = Some snap.
Proof. exact write_sets_snap. Qed.

Theorem C06_failed_write_changes_nothing : forall b r snap kp f e,
  fst (repo_write b r snap kp f) = SErr e -> e <> EKeyPackageFault -> repo_after_write b r snap kp f = r.
Proof. exact write_error_clean. Qed.

Theorem C06_providers_agree : forall R s snap ins upd,
  (0 < R)%nat -> store_ok R s -> contig (g_recs s ++ ins) ->
  (forall r, In r ins -> fst r <= i64_max) -> (forall r, In r upd -> fst r <= i64_max) ->
  exists s', mem_write R s snap ins upd = SOk s' /\ sql_write (N.of_nat R) s snap ins upd = SOk s' /\ store_ok R s'.
Proof. exact write_agree. Qed.

Print Assumptions C06_snapshot_roundtrip.
Print Assumptions C06_crash_returns_last_write.
Print Assumptions C06_write_sets_snapshot.
Print Assumptions C06_failed_write_changes_nothing.
Print Assumptions C06_providers_agree.
