(* C02 - Only current members can follow the group; secrets go only to entitled keys.

   Tree side (Model/Tree.v, Model/Kem.v): `wf3` - every leaf listed as unmerged at a parent is
   a non-blank leaf below that parent - holds in the one-member tree and is preserved by every
   commit (removes, updates, adds, trim, path update), for every tree and every operation list.
   Under it, for EVERY tree, committer and set of added leaves, each HPKE recipient of a fresh
   path secret (encap / encrypt_copath_node_resolution) is a non-blank node of the new tree
   inside the resolution of a copath node of the committer, is never a leaf added by the same
   commit, and a leaf blanked by the commit (a removed member) receives nothing.
   Admission side (Model/Admission.v, from check_metadata + the epoch lookup): a party whose
   newest epoch is e - a removed member stops at the epoch before its removal - accepts no
   commit, proposal or application message of any later epoch, nor anything of another group.
   The tie to the code is the correspondence run of ./check C02 (recorded HPKE recipients of
   every commit against `encap_recipients` evaluated in Coq; removed and never-added parties fed
   all later traffic).  Statements only. *)
From Coq Require Import NArith List.
From MlsV Require Import Res TreeMathGen Tree TreeProofs TreeWF Kem KemProofs Admission AdmissionProofs KemGen KemGenProofs AdmissionGen AdmissionGenProofs Priv PrivProofs CommitStep.
Import ListNotations.
Local Open Scope N_scope.

Theorem C02_unmerged_invariant_initially : forall id, wf3 [Some (Leaf id)].
Proof. exact wf3_single. Qed.

Theorem C02_unmerged_invariant_preserved : forall t removes updates adds path t' added,
  wf3 t -> tlen t + 2 * N.of_nat (length adds) < 2 ^ 25 ->
  apply_commit t removes updates adds path = TOk (t', added) -> wf3 t'.
Proof. exact wf3_apply_commit. Qed.

Theorem C02_resolution_has_no_blank_node : forall t c r,
  wf3 t -> resolution_of t c = Ok r -> forall x, In x r -> get t x <> None.
Proof. exact resolution_nonblank. Qed.

Theorem C02_path_secret_recipients : forall t sender excl rs,
  wf3 t -> encap_recipients t sender excl = Ok rs ->
  forall p xs x, In (p, xs) rs -> In x xs ->
    get t x <> None /\ (forall l, In l excl -> x <> 2 * l)
    /\ exists copath c r, copath_nodes t sender = Ok copath /\ In c copath /\ resolution_of t c = Ok r /\ In x r.
Proof. exact seal_recipients_ok. Qed.

Theorem C02_removed_leaf_receives_nothing : forall t sender excl rs l,
  wf3 t -> get t (2 * l) = None -> encap_recipients t sender excl = Ok rs ->
  forall p xs, In (p, xs) rs -> ~ In (2 * l) xs.
Proof. exact removed_leaf_gets_nothing. Qed.

Theorem C02_removed_leaf_is_blank : forall t l t1 t2,
  blank_leaf t l = TOk t1 -> blank_direct_path t1 l = TOk t2 -> get t2 (2 * l) = None.
Proof. exact removed_leaf_blank. Qed.

Theorem C02_later_epochs_rejected : forall v gid epoch ct cipher,
  Forall (fun s => s < av_epoch v) (av_stored v) -> av_epoch v < epoch ->
  admission v gid epoch ct cipher <> AOk.
Proof. exact later_epoch_rejected. Qed.

Theorem C02_other_groups_rejected : forall v gid epoch ct cipher,
  gid <> av_gid v -> admission v gid epoch ct cipher <> AOk.
Proof. exact other_group_rejected. Qed.

(* non-vacuity: B (leaf 1) removed from A B C D with parents set; A commits with a path.
   The only recipients: C's subtree root (node 5) ... leaf 1 gets nothing *)
Example C02_ex :
  let t := [Some (Leaf 1); None; None; None; Some (Leaf 3); Some (Par []); Some (Leaf 4)] in
  wf3_check t = true /\ encap_recipients t 0 [] = Ok [(3, [5])].
Proof. vm_compute. split; reflexivity. Qed.

(* over the commit as a whole (proposals, then the path): a member removed by the commit holds private keys
   only for its own leaf and for nodes of its direct path (PrivOK); none of those nodes is among the nodes
   the new path secrets are sealed to - its path was blanked and is never re-created by the same commit,
   its leaf is blank or, if the slot was given to somebody else by the same commit, excluded *)
Theorem C02_removed_member_holds_no_key_of_a_recipient_node : forall t removes updates adds t1 added l sndr id rs,
  shape_ok t -> tlen t + 2 * N.of_nat (length adds) < 2 ^ 25 ->
  batch_edit t removes updates adds = TOk (t1, added) -> In l removes ->
  let t1' := set t1 (2 * sndr) (Some (Leaf id)) in
  wf3 t1' -> encap_recipients t1' sndr added = Ok rs ->
  forall p xs x, In (p, xs) rs -> In x xs ->
    (forall k, (1 <= k)%nat -> x <> lvl_node (N.of_nat k) l) /\ (get t1' (2 * l) = None \/ In l added -> x <> 2 * l).
Proof. exact removed_member_holds_no_key_of_a_recipient_node. Qed.

Print Assumptions C02_unmerged_invariant_initially.
Print Assumptions C02_unmerged_invariant_preserved.
Print Assumptions C02_resolution_has_no_blank_node.
Print Assumptions C02_path_secret_recipients.
Print Assumptions C02_removed_leaf_receives_nothing.
Print Assumptions C02_removed_leaf_is_blank.
Print Assumptions C02_later_epochs_rejected.
Print Assumptions C02_other_groups_rejected.

(* the sender-side filter of the model IS what the translator reads in
   tree_kem/kem.rs encrypt_copath_node_resolution (regenerated on every run) *)
Theorem C02_translated_sender_filter_is_the_model :
  forall excl idx, gen_seal_keep (map (fun l => 2 * l) excl) idx = not_excluded excl idx.
Proof. exact gen_seal_keep_is_model. Qed.
Print Assumptions C02_translated_sender_filter_is_the_model.

(* the admission rule (version, group id, epoch per content type, epoch window, no unencrypted
   application data) IS what the translator reads in MessageProcessor::check_metadata, shared by
   members and observers (regenerated on every run) *)
Theorem C02_translated_check_metadata_is_the_model : forall v gid epoch ct cipher,
  gen_check_metadata v gid epoch ct cipher = check_metadata v gid epoch ct cipher.
Proof. exact gen_check_metadata_is_model. Qed.
Print Assumptions C02_translated_check_metadata_is_the_model.
Print Assumptions C02_removed_member_holds_no_key_of_a_recipient_node.
