(* C09 - Members hold exactly the private keys they are entitled to, matching the tree.

   Model/Priv.v transcribes the private-key bookkeeping of Group::provisional_private_tree,
   TreeKem::encap / decap, TreeKemPrivate::update_secrets / update_leaf over key TOKENS: a
   private key is identified with the public key it belongs to (that the derived pair matches
   is what decap / update_secrets verify with PubKeyMismatch; that a stored key really opens
   what is sealed to the node key is checked on the implementation by an HPKE seal/open probe
   for every stored key of every member after every commit).
   PrivOK ks me pr: every key stored at position k of pr is the key ks holds for the ancestor
   of leaf me at level k - so in particular that node is not blank.
   Proved for EVERY tree, member, committer, filter list and key assignment: PrivOK is
   preserved by the proposal step (keys of blanked nodes dropped, own update replaces the leaf
   key and clears the path), by decap for any receiver (positions from the common ancestor up,
   filtered nodes cleared, nothing below touched), established by encap for the committer and
   by update_secrets for a joiner; every non-filtered node of the committer's path and its
   leaf carry the fresh keys.
   That a FILTERED node of the committer's path is blank (so that every non-blank path node
   has a fresh key) is the invariant WF5 'a non-blank parent has members on both sides',
   proved for every commit on the tree model (Props/C08.v: C08_every_parent_has_members_on_both_sides,
   C08_filtered_path_node_is_blank); the key assignment ks of this file abstracts that tree
   (ks x = None iff the node is blank), which the check validates on the implementation.
   Statements only. *)
From Coq Require Import NArith List.
From MlsV Require Import Res TreeMathGen TreeMathProofs Tree TreeProofs Priv PrivProofs.
Import ListNotations.
Local Open Scope N_scope.

Theorem C09_proposals_keep_privok : forall ks tprov me pr own newleaf pr',
  PrivOK ks me pr -> small tprov -> 2 * me < tlen tprov -> get tprov (2 * me) <> None ->
  newleaf me = own ->
  provisional_priv tprov me pr own = Ok pr' ->
  PrivOK (keys_after_proposals ks tprov newleaf) me pr'.
Proof. exact privok_provisional. Qed.

Theorem C09_receiver_keeps_privok : forall ks me snd pr pathlen L flt fk leafkey,
  PrivOK ks me pr ->
  1 <= L -> me / 2 ^ L = snd / 2 ^ L -> (forall k, k < L -> me / 2 ^ k <> snd / 2 ^ k) ->
  PrivOK (keys_after_path ks snd leafkey flt fk) me
         (decap_priv pr pathlen (N.to_nat (L - 1)) (upd_nodes flt 1 fk)).
Proof. exact privok_decap. Qed.

Theorem C09_committer_privok : forall ks snd pr pathlen flt fk leafkey,
  length flt = pathlen ->
  PrivOK (keys_after_path ks snd leafkey flt fk) snd (encap_priv pr pathlen flt fk leafkey).
Proof. exact privok_encap. Qed.

Theorem C09_joiner_privok : forall ks me leafkey jflt lca pr,
  ks (2 * me) = Some leafkey -> join_priv ks me leafkey jflt lca = Some pr -> PrivOK ks me pr.
Proof. exact privok_join. Qed.

Theorem C09_no_key_for_blank_node : forall ks me pr k,
  PrivOK ks me pr -> ks (lvl_node (N.of_nat k) me) = None ->
  nth_error pr k = Some None \/ nth_error pr k = None.
Proof. exact privok_no_key_for_blank. Qed.

Theorem C09_path_nodes_fresh_partial : forall ks snd leafkey flt fk,
  keys_after_path ks snd leafkey flt fk (2 * snd) = Some leafkey
  /\ forall k, 1 <= k -> nth_error flt (N.to_nat (k - 1)) = Some false ->
       keys_after_path ks snd leafkey flt fk (lvl_node k snd) = Some (fk k).
Proof. exact path_nodes_fresh. Qed.

(* non-vacuity: four members, parents set; leaf 0 commits with a path.  Leaf 3 (common
   ancestor = root, level 2) keeps its leaf key and its level-1 key and gets the new root key *)
Example C09_ex :
  decap_priv [Some 30; Some 31; Some 32] 2 (N.to_nat (2 - 1)) (upd_nodes [false; false] 1 (fun k => 100 + k))
  = [Some 30; Some 31; Some 102; None].
Proof. vm_compute. reflexivity. Qed.

Print Assumptions C09_proposals_keep_privok.
Print Assumptions C09_receiver_keeps_privok.
Print Assumptions C09_committer_privok.
Print Assumptions C09_joiner_privok.
Print Assumptions C09_no_key_for_blank_node.
Print Assumptions C09_path_nodes_fresh_partial.
