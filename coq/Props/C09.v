(* C09 - Members hold exactly the private keys they are entitled to, matching the tree.

   Model/Priv.v transcribes the private-key bookkeeping of Group::provisional_private_tree,
   TreeKem::encap / decap, TreeKemPrivate::update_secrets / update_leaf over key TOKENS: a
   private key is identified with the public key it belongs to (that the derived pair matches
   is what decap / update_secrets verify with PubKeyMismatch; that a stored key really opens
   what is sealed to the node key is checked on the implementation by an HPKE seal/open probe
   for every stored key of every member after every commit).
   PrivOK ks me pr: every key stored at position k of pr is the key ks holds for the ancestor
   of leaf me at level k - so in particular that node is not blank.
   Proved for EVERY tree, member, committer, filter list and key assignment: PrivOK is
   preserved by the proposal step (keys of blanked nodes dropped, own update replaces the leaf
   key and clears the path), by decap for any receiver (positions from the common ancestor up,
   filtered nodes cleared, nothing below touched), established by encap for the committer and
   by update_secrets for a joiner; every non-filtered node of the committer's path and its
   leaf carry the fresh keys.
   That a FILTERED node of the committer's path is blank (so that every non-blank path node
   has a fresh key) is the invariant WF5 'a non-blank parent has members on both sides',
   proved for every commit on the tree model (Props/C08.v: C08_every_parent_has_members_on_both_sides,
   C08_filtered_path_node_is_blank); the key assignment ks of this file abstracts that tree
   (ks x = None iff the node is blank), which the check validates on the implementation.
   COMPLETENESS (Proofs/PrivComplete.v, over the tree model with its unmerged lists): for every
   non-blank ancestor a member either holds the private key or is listed there as an unmerged
   leaf.  Proved preserved by the proposals of a commit (for every member that stays), by the
   path for every receiver and for the committer, and established for every joiner; so, with
   PrivOK, decap always finds a ciphertext sealed to a key the member holds (C01).
   The loops that WRITE the private keys - TreeKemPrivate::update_secrets (a joiner's keys from
   the common ancestor upwards), the blanking loop of Group::provisional_private_tree,
   update_leaf and the write loops of TreeKem::decap / encap - are translated from
   tree_kem/private.rs, tree_kem/kem.rs and group/mod.rs on every run
   (Gen/PrivGen.v: iterator chain, skip count, continue condition, written index, resize length,
   compared node) and proved to compute join_priv / provisional_priv / decap_priv / encap_priv of the model.
   Statements only. *)
From Coq Require Import NArith List.
From MlsV Require Import Res TreeMathGen TreeMathProofs Tree TreeProofs TreeWF Kem Priv PrivProofs Decap DecapProofs TreeWF5 PrivComplete PrivGen PrivGenProofs CommitStep.
Import ListNotations.
Local Open Scope N_scope.

Theorem C09_proposals_keep_privok : forall ks tprov me pr own newleaf pr',
  PrivOK ks me pr -> small tprov -> 2 * me < tlen tprov -> get tprov (2 * me) <> None ->
  newleaf me = own ->
  provisional_priv tprov me pr own = Ok pr' ->
  PrivOK (keys_after_proposals ks tprov newleaf) me pr'.
Proof. exact privok_provisional. Qed.

Theorem C09_receiver_keeps_privok : forall ks me snd pr pathlen L flt fk leafkey,
  PrivOK ks me pr ->
  1 <= L -> me / 2 ^ L = snd / 2 ^ L -> (forall k, k < L -> me / 2 ^ k <> snd / 2 ^ k) ->
  PrivOK (keys_after_path ks snd leafkey flt fk) me
         (decap_priv pr pathlen (N.to_nat (L - 1)) (upd_nodes flt 1 fk)).
Proof. exact privok_decap. Qed.

Theorem C09_committer_privok : forall ks snd pr pathlen flt fk leafkey,
  length flt = pathlen ->
  PrivOK (keys_after_path ks snd leafkey flt fk) snd (encap_priv pr pathlen flt fk leafkey).
Proof. exact privok_encap. Qed.

Theorem C09_joiner_privok : forall ks me leafkey jflt lca pr,
  ks (2 * me) = Some leafkey -> join_priv ks me leafkey jflt lca = Some pr -> PrivOK ks me pr.
Proof. exact privok_join. Qed.

Theorem C09_no_key_for_blank_node : forall ks me pr k,
  PrivOK ks me pr -> ks (lvl_node (N.of_nat k) me) = None ->
  nth_error pr k = Some None \/ nth_error pr k = None.
Proof. exact privok_no_key_for_blank. Qed.

Theorem C09_path_nodes_fresh_partial : forall ks snd leafkey flt fk,
  keys_after_path ks snd leafkey flt fk (2 * snd) = Some leafkey
  /\ forall k, 1 <= k -> nth_error flt (N.to_nat (k - 1)) = Some false ->
       keys_after_path ks snd leafkey flt fk (lvl_node k snd) = Some (fk k).
Proof. exact path_nodes_fresh. Qed.

Theorem C09_complete_after_proposals : forall t t1 me pr pr1,
  Complete t me pr -> ParMono t t1 -> small t1 -> 2 * me < tlen t1 ->
  provisional_priv t1 me pr None = Ok pr1 -> Complete t1 me pr1.
Proof. exact complete_provisional. Qed.

Theorem C09_proposals_never_create_parents_or_shrink_unmerged_lists :
  forall t removes updates adds t' added, batch_edit t removes updates adds = TOk (t', added) -> ParMono t t'.
Proof. exact ParMono_batch_edit. Qed.

Theorem C09_complete_for_receivers : forall t1 snd id t2 me pr path_me flt fk L,
  shape_ok t1 -> wf5 t1 -> small t1 ->
  apply_update_path t1 snd id = TOk t2 ->
  filtered (set t1 (2 * snd) (Some (Leaf id))) snd = Ok flt ->
  Complete t1 me pr ->
  1 <= L -> me / 2 ^ L = snd / 2 ^ L -> (forall k, k < L -> me / 2 ^ k <> snd / 2 ^ k) ->
  path_nodes (set t1 (2 * snd) (Some (Leaf id))) me = Ok path_me -> 2 * me < tlen t1 ->
  Complete t2 me (decap_priv pr (length path_me) (N.to_nat (L - 1)) (upd_nodes flt 1 fk)).
Proof. exact complete_decap. Qed.

Theorem C09_complete_for_the_committer : forall t1 snd id t2 pr flt fk leafkey,
  shape_ok t1 -> wf5 t1 -> small t1 ->
  apply_update_path t1 snd id = TOk t2 ->
  filtered (set t1 (2 * snd) (Some (Leaf id))) snd = Ok flt ->
  Complete t2 snd (encap_priv pr (length flt) flt fk leafkey).
Proof. exact complete_encap. Qed.

Theorem C09_complete_for_joiners : forall t removes updates adds t1 added me snd id t2 L jflt ks leafkey pr,
  tlen t + 2 * N.of_nat (length adds) < 2 ^ 25 -> small t1 ->
  batch_edit t removes updates adds = TOk (t1, added) -> In me added ->
  apply_update_path t1 snd id = TOk t2 ->
  shape_ok t2 -> wf5 t2 -> small t2 -> get t2 (2 * me) <> None ->
  1 <= L -> (forall k, k < L -> me / 2 ^ k <> snd / 2 ^ k) ->
  filtered t2 me = Ok jflt ->
  join_priv ks me leafkey jflt (N.to_nat (L - 1)) = Some pr ->
  Complete t2 me pr.
Proof. exact complete_join. Qed.

Theorem C09_complete_after_an_own_update : forall t removes updates adds t1 added me pr,
  tlen t + 2 * N.of_nat (length adds) < 2 ^ 25 ->
  batch_edit t removes updates adds = TOk (t1, added) -> In me (map fst updates) -> Complete t1 me pr.
Proof. exact complete_own_update. Qed.

Theorem C09_nonblank_ancestor_is_never_filtered : forall t me jflt,
  shape_ok t -> wf5 t -> small t -> get t (2 * me) <> None -> filtered t me = Ok jflt ->
  forall i um, get t (lvl_node (N.of_nat (S i)) me) = Some (Par um) -> nth_error jflt i = Some false.
Proof. exact nonblank_ancestor_unfiltered. Qed.

(* non-vacuity: four members, parents set; leaf 0 commits with a path.  Leaf 3 (common
   ancestor = root, level 2) keeps its leaf key and its level-1 key and gets the new root key *)
Example C09_ex :
  decap_priv [Some 30; Some 31; Some 32] 2 (N.to_nat (2 - 1)) (upd_nodes [false; false] 1 (fun k => 100 + k))
  = [Some 30; Some 31; Some 102; None].
Proof. vm_compute. reflexivity. Qed.

Theorem C09_translated_update_secrets_is_the_model : forall t me ks leafkey jflt lca path,
  small t -> 2 * me <= tlen t -> path_nodes t me = Ok path -> length jflt = length path ->
  gen_update_secrets ks [Some leafkey] path jflt lca = join_priv ks me leafkey jflt lca.
Proof. exact gen_update_secrets_on_the_direct_path. Qed.

Theorem C09_translated_provisional_private_tree_is_the_model : forall tprov me pr own path,
  path_nodes tprov me = Ok path ->
  provisional_priv tprov me pr own =
  Ok (let p1 := gen_provisional_blank (is_blank tprov) pr path in
      match own with Some key => gen_update_leaf p1 key | None => p1 end).
Proof. exact gen_provisional_is_model. Qed.

Theorem C09_translated_decap_writes_are_the_model : forall pr pathlen nodes lca,
  gen_decap_writes pr pathlen nodes lca = decap_priv pr pathlen lca nodes.
Proof. exact gen_decap_writes_is_model. Qed.

Theorem C09_translated_encap_writes_are_the_model : forall pr path flt fk leafkey,
  length flt = length path ->
  gen_encap_writes pr path flt fk leafkey = encap_priv pr (length path) flt fk leafkey.
Proof. exact gen_encap_writes_is_model. Qed.

(* ---- the whole group, every reachable state ----
   GInv g: the tree satisfies WF3, WF5 and the shape invariant, and EVERY member of g sits at an occupied
   leaf, holds the key of that leaf, every key it holds is the key of the node it is stored for (PrivOK) and
   it holds a key for every non-blank ancestor where it is not an unmerged leaf (Complete).  gstep: one commit
   with an update path - proposals (removes, updates, adds), then the path - where every member of the new
   epoch is a receiver (possibly with an own update in the commit), the committer or a member added by
   the commit, and its private state is what provisional_private_tree + decap / encap / update_secrets
   compute (the functions proved equal to the translated loops above). *)
Theorem C09_one_commit_preserves_the_group_invariant : forall g g', GInv g -> gstep g g' -> GInv g'.
Proof. exact ginv_step. Qed.

Theorem C09_every_reachable_group_state_satisfies_the_invariant : forall g0 g, GInv g0 -> reachable g0 g -> GInv g.
Proof. exact ginv_reachable. Qed.

Theorem C09_the_group_a_member_creates_satisfies_the_invariant : forall id lk,
  GInv {| g_tree := [Some (Leaf id)]; g_keys := (fun i => if i =? 0 then Some lk else None); g_members := [(0, [Some lk])] |}.
Proof. exact ginv_initial. Qed.

(* commits without an update path (add-only, PSK-only, ...): members keep what provisional_private_tree
   leaves them, a member added by the commit holds its leaf key and is an unmerged leaf at every non-blank
   ancestor; histories that mix both kinds of commit.  An external commit is a commit with a path whose
   committer is the leaf it adds (the committer's case of gstep asks nothing of its earlier state). *)
Theorem C09_a_commit_without_path_preserves_the_group_invariant : forall g g', GInv g -> gstep_nopath g g' -> GInv g'.
Proof. exact ginv_step_nopath. Qed.

Theorem C09_every_state_reachable_by_commits_of_both_kinds_satisfies_the_invariant :
  forall g0 g, GInv g0 -> reachable2 g0 g -> GInv g.
Proof. exact ginv_reachable2. Qed.

Print Assumptions C09_proposals_keep_privok.
Print Assumptions C09_receiver_keeps_privok.
Print Assumptions C09_committer_privok.
Print Assumptions C09_joiner_privok.
Print Assumptions C09_no_key_for_blank_node.
Print Assumptions C09_path_nodes_fresh_partial.
Print Assumptions C09_complete_after_proposals.
Print Assumptions C09_proposals_never_create_parents_or_shrink_unmerged_lists.
Print Assumptions C09_complete_for_receivers.
Print Assumptions C09_complete_for_the_committer.
Print Assumptions C09_complete_for_joiners.
Print Assumptions C09_nonblank_ancestor_is_never_filtered.
Print Assumptions C09_complete_after_an_own_update.
Print Assumptions C09_translated_update_secrets_is_the_model.
Print Assumptions C09_translated_provisional_private_tree_is_the_model.
Print Assumptions C09_translated_decap_writes_are_the_model.
Print Assumptions C09_translated_encap_writes_are_the_model.
Print Assumptions C09_one_commit_preserves_the_group_invariant.
Print Assumptions C09_every_reachable_group_state_satisfies_the_invariant.
Print Assumptions C09_the_group_a_member_creates_satisfies_the_invariant.
Print Assumptions C09_a_commit_without_path_preserves_the_group_invariant.
Print Assumptions C09_every_state_reachable_by_commits_of_both_kinds_satisfies_the_invariant.
