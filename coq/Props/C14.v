(* C14 - The shipped crypto providers are interchangeable.

   What a theorem can say here: the providers are three foreign-code libraries (OpenSSL, AWS-LC,
   RustCrypto crates); their agreement is decided by running them side by side (./check C14),
   against ONE reference that is fixed below:
    - the reference hash / MAC / KDF (Gallina SHA-2, HMAC, HKDF: Model/Sha2.v, Model/Hkdf.v) has,
      for EVERY input, the output sizes of the cipher suite and the prefix property of
      HKDF-Expand (so "expand to n bytes" does not depend on how a provider rounds to blocks);
      every provider is compared byte for byte with this reference;
    - the reference chain validation (Model/X509.v) is sound (an accepted chain yields the leaf's
      key and a path of certificates valid at the validation time, each named and signed by the
      next, each issuer a CA, ending in a trust anchor), complete for chains in issuer order,
      rejects every expired / not-yet-valid leaf, treats both ends of the validity period as
      included (RFC 5280 4.1.2.5), ignores what follows the anchor, rejects a broken link and
      an empty trust store, and without a validation time only drops the time checks; every
      provider's verdict is compared with this reference on generated PKIs.
   Statements only. *)
From Coq Require Import NArith List Bool.
From MlsV Require Import Sha2 Hkdf HkdfProofs ShaProofs X509 X509Proofs.
Import ListNotations.

Theorem C14_reference_kdf_shape :
  forall H, mls_hash H ->
  (forall salt ikm, length (hkdf_extract H salt ikm) = h_len H) /\
  (forall key msg, length (hmac H key msg) = h_len H) /\
  (forall prk info len, length (hkdf_expand H prk info len) = len) /\
  (forall prk info l1 l2, (l1 <= l2)%nat -> firstn l1 (hkdf_expand H prk info l2) = hkdf_expand H prk info l1).
Proof. exact reference_kdf_shape. Qed.
Print Assumptions C14_reference_kdf_shape.

Theorem C14_reference_hash_is_bytes_of_the_right_length :
  forall P msg, Forall (fun b => (b < 256)%N) (sha P msg) /\
  ((sp_out P <= length (sp_h0 P) * N.to_nat (sp_w P / 8))%nat -> length (sha P msg) = sp_out P).
Proof. exact sha_shape. Qed.
Print Assumptions C14_reference_hash_is_bytes_of_the_right_length.

Theorem C14_chain_validation_sound :
  forall roots t chain k, validate roots t chain = Some k ->
  exists leaf rest, chain = leaf :: rest /\ key leaf = k /\ trusted roots t leaf.
Proof. exact validate_sound. Qed.
Print Assumptions C14_chain_validation_sound.

Theorem C14_chain_validation_complete_for_ordered_chains :
  forall roots t leaf rest, ordered_path roots t (leaf :: rest) -> validate roots t (leaf :: rest) = Some (key leaf).
Proof. exact validate_complete. Qed.
Print Assumptions C14_chain_validation_complete_for_ordered_chains.

Theorem C14_expired_or_not_yet_valid_leaf_rejected :
  forall roots x leaf rest, ((x < nb leaf)%N \/ (na leaf < x)%N) -> validate roots (Some x) (leaf :: rest) = None.
Proof. exact expired_or_not_yet_valid_leaf_rejected. Qed.
Print Assumptions C14_expired_or_not_yet_valid_leaf_rejected.

Theorem C14_validity_period_includes_both_ends :
  forall (leaf : cert) x, (nb leaf <= x <= na leaf)%N -> time_ok (Some x) leaf = true.
Proof. exact validity_period_is_inclusive. Qed.
Print Assumptions C14_validity_period_includes_both_ends.

Theorem C14_trust_needs_name_signature_and_ca :
  forall roots t c, trusted roots t c ->
  In c roots \/ exists p, issuer c = subject p /\ signed_with c = key p /\ ca p = true /\ trusted roots t p.
Proof. exact trusted_needs_signature_and_ca. Qed.
Print Assumptions C14_trust_needs_name_signature_and_ca.

Theorem C14_broken_link_rejected :
  forall roots t c p rest, anchored roots t c = false -> issued_by c p = false -> valid_from roots t (c :: p :: rest) = false.
Proof. exact broken_link_rejected. Qed.
Print Assumptions C14_broken_link_rejected.

Theorem C14_certificates_after_the_anchor_are_ignored :
  forall roots t pre c extra1 extra2, anchored roots t c = true ->
  valid_from roots t (pre ++ c :: extra1) = valid_from roots t (pre ++ c :: extra2).
Proof. exact certificates_after_the_anchor_are_ignored. Qed.
Print Assumptions C14_certificates_after_the_anchor_are_ignored.

Theorem C14_unknown_root_and_empty_chain_rejected :
  forall roots t chain, validate [] t chain = None /\ validate roots t [] = None.
Proof. exact unknown_root_and_empty_chain. Qed.
Print Assumptions C14_unknown_root_and_empty_chain_rejected.

Theorem C14_no_time_only_drops_time_checks :
  forall roots chain x k, validate roots (Some x) chain = Some k -> validate roots None chain = Some k.
Proof. exact no_time_means_no_expiry_check. Qed.
Print Assumptions C14_no_time_only_drops_time_checks.
