(* C07 - A joiner ends up with exactly the members' state; a key package is used once.

   Theorems: the key package store of a joiner (generate / join / first write of the new
   group): the package used is deleted by the first write and only then, a last-resort package
   stays, every other package is untouched, a Welcome for a package that is not in the store
   produces no group, hence a package is single-use; the path secret a committer hands to a
   joiner sits at the position of their common ancestor (same ancestor there, different ones
   below), from which update_secrets fills exactly the joiner's keys
   (C09_joiner_privok, restated here).  That the joiner's GROUP STATE equals the members' is
   decided on the implementation by ./check C07 (every joiner of generated histories: Welcome
   with the tree in the extension or out of band, external commit, several joiners at once,
   interior slots, with PSKs; state compared field by field with the members', immediate
   message exchange and commit; mismatched Welcome / tree / GroupInfo / key package refused).
   KNOWN FINDING F10: a party that was removed, kept its storage and is added again joins
   but cannot process the next commit (InvalidEpoch: the stored epochs of its earlier
   membership are not contiguous with the new ones).
   Statements only. *)
From Coq Require Import NArith List Bool.
From MlsV Require Import TreeMathProofs Priv PrivProofs Join JoinProofs WelcomeGen WelcomeGenProofs.
Import ListNotations.
Local Open Scope N_scope.

Theorem C07_used_package_is_deleted_by_the_first_write : forall s r s1,
  k_join s r false = Some s1 -> ~ In r (kps (k_write s1)) /\ forall x, x <> r -> (In x (kps (k_write s1)) <-> In x (kps s)).
Proof. exact used_package_is_deleted. Qed.

Theorem C07_last_resort_package_is_kept : forall s r s1, k_join s r true = Some s1 -> kps (k_write s1) = kps s.
Proof. exact last_resort_package_is_kept. Qed.

Theorem C07_unknown_package_cannot_join : forall s r lr, ~ In r (kps s) -> k_join s r lr = None.
Proof. exact unknown_package_cannot_join. Qed.

Theorem C07_package_is_single_use : forall s r s1, NoDup (kps s) ->
  k_join s r false = Some s1 -> k_join (k_write s1) r false = None.
Proof. exact package_is_single_use. Qed.

Theorem C07_nothing_deleted_before_the_write : forall s r lr s1, k_join s r lr = Some s1 -> kps s1 = kps s.
Proof. exact nothing_deleted_before_write. Qed.

Theorem C07_joiner_secret_at_common_ancestor : forall committer joiner L,
  1 <= L -> committer / 2 ^ L = joiner / 2 ^ L -> (forall k, k < L -> committer / 2 ^ k <> joiner / 2 ^ k) ->
  lvl_node L committer = lvl_node L joiner /\ forall k, k < L -> lvl_node k committer <> lvl_node k joiner.
Proof. exact joiner_secret_at_common_ancestor. Qed.

Theorem C07_joiner_keys_match_the_tree : forall ks me leafkey jflt lca pr,
  ks (2 * me) = Some leafkey -> join_priv ks me leafkey jflt lca = Some pr -> PrivOK ks me pr.
Proof. exact privok_join. Qed.

(* the joiner-side bookkeeping TRANSLATED from the source on every run: which path secret the committer
   hands over (Group::encrypt_group_secrets, passed on unconditionally by commit_internal), which key package
   opens the Welcome (find_key_package_generation) and when it is deleted (from_welcome_message ->
   GroupStateRepository::new -> write_to_storage) *)
Theorem C07_translated_welcome_bookkeeping_is_the_model : forall s r lr l,
  gen_joiner_secret_position l = joiner_secret_position l /\ gen_k_join s [r] lr = k_join s r lr /\
  kps (gen_k_write s) = kps (k_write s) /\ kps (gen_k_write (gen_k_write s)) = kps (gen_k_write s).
Proof. exact translated_welcome. Qed.

Theorem C07_welcome_for_several_packages_uses_the_first_one_in_the_store : forall s refs last_resort r,
  find (fun x => has x (kps s)) refs = Some r -> gen_k_join s refs last_resort = k_join s r last_resort.
Proof. exact gen_k_join_first. Qed.

Theorem C07_welcome_for_no_package_of_the_store_gives_no_group : forall s refs last_resort,
  (forall r, In r refs -> has r (kps s) = false) -> gen_k_join s refs last_resort = None.
Proof. exact gen_k_join_none. Qed.

Print Assumptions C07_used_package_is_deleted_by_the_first_write.
Print Assumptions C07_last_resort_package_is_kept.
Print Assumptions C07_unknown_package_cannot_join.
Print Assumptions C07_package_is_single_use.
Print Assumptions C07_nothing_deleted_before_the_write.
Print Assumptions C07_joiner_secret_at_common_ancestor.
Print Assumptions C07_joiner_keys_match_the_tree.
Print Assumptions C07_translated_welcome_bookkeeping_is_the_model.
Print Assumptions C07_welcome_for_several_packages_uses_the_first_one_in_the_store.
Print Assumptions C07_welcome_for_no_package_of_the_store_gives_no_group.
