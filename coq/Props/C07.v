(* C07 - A joiner ends up with exactly the members' state; a key package is used once.

   Theorems: the key package store of a joiner (generate / join / first write of the new
   group): the package used is deleted by the first write and only then, a last-resort package
   stays, every other package is untouched, a Welcome for a package that is not in the store
   produces no group, hence a package is single-use; the path secret a committer hands to a
   joiner sits at the position of their common ancestor (same ancestor there, different ones
   below), from which update_secrets fills exactly the joiner's keys
   (C09_joiner_privok, restated here).  That the joiner's GROUP STATE equals the members' is
   decided on the implementation by ./check C07 (every joiner of generated histories: Welcome
   with the tree in the extension or out of band, external commit, several joiners at once,
   interior slots, with PSKs; state compared field by field with the members', immediate
   message exchange and commit; mismatched Welcome / tree / GroupInfo / key package refused).
   KNOWN FINDING F10: a party that was removed, kept its storage and is added again joins
   but cannot process the next commit (InvalidEpoch: the stored epochs of its earlier
   membership are not contiguous with the new ones).
   Statements only. *)
From Coq Require Import NArith List Bool.
From MlsV Require Import TreeMathProofs Priv PrivProofs Join JoinProofs.
Import ListNotations.
Local Open Scope N_scope.

Theorem C07_used_package_is_deleted_by_the_first_write : forall s r s1,
  k_join s r false = Some s1 -> ~ In r (kps (k_write s1)) /\ forall x, x <> r -> (In x (kps (k_write s1)) <-> In x (kps s)).
Proof. exact used_package_is_deleted. Qed.

Theorem C07_last_resort_package_is_kept : forall s r s1, k_join s r true = Some s1 -> kps (k_write s1) = kps s.
Proof. exact last_resort_package_is_kept. Qed.

Theorem C07_unknown_package_cannot_join : forall s r lr, ~ In r (kps s) -> k_join s r lr = None.
Proof. exact unknown_package_cannot_join. Qed.

Theorem C07_package_is_single_use : forall s r s1, NoDup (kps s) ->
  k_join s r false = Some s1 -> k_join (k_write s1) r false = None.
Proof. exact package_is_single_use. Qed.

Theorem C07_nothing_deleted_before_the_write : forall s r lr s1, k_join s r lr = Some s1 -> kps s1 = kps s.
Proof. exact nothing_deleted_before_write. Qed.

Theorem C07_joiner_secret_at_common_ancestor : forall committer joiner L,
  1 <= L -> committer / 2 ^ L = joiner / 2 ^ L -> (forall k, k < L -> committer / 2 ^ k <> joiner / 2 ^ k) ->
  lvl_node L committer = lvl_node L joiner /\ forall k, k < L -> lvl_node k committer <> lvl_node k joiner.
Proof. exact joiner_secret_at_common_ancestor. Qed.

Theorem C07_joiner_keys_match_the_tree : forall ks me leafkey jflt lca pr,
  ks (2 * me) = Some leafkey -> join_priv ks me leafkey jflt lca = Some pr -> PrivOK ks me pr.
Proof. exact privok_join. Qed.

Print Assumptions C07_used_package_is_deleted_by_the_first_write.
Print Assumptions C07_last_resort_package_is_kept.
Print Assumptions C07_unknown_package_cannot_join.
Print Assumptions C07_package_is_single_use.
Print Assumptions C07_nothing_deleted_before_the_write.
Print Assumptions C07_joiner_secret_at_common_ancestor.
Print Assumptions C07_joiner_keys_match_the_tree.
