(* C19 - Late messages: exact retention window and never a wrong sender.

   Model/Storage.v: the in-memory and SQLite providers and the repository in front of them.
   For every retention R >= 1, every sequence of writes the repository issues (contiguous
   epoch ids), every id: the two providers hold the same records; after a write exactly the
   last R ids are stored; a past epoch is readable exactly when it was entered since the last
   write or retained at the last write; a late message is attributed only to the member still
   sitting at the sender's leaf with the same key.  Statements only. *)
From Coq Require Import NArith List.
From MlsV Require Import Storage StorageProofs Effects ProcessEffects EffectsInst LateSenderGen LateSenderGenProofs.
Import ListNotations.
Local Open Scope N_scope.

Theorem C19_providers_agree : forall R s snap ins upd,
  (0 < R)%nat -> store_ok R s -> contig (g_recs s ++ ins) ->
  (forall r, In r ins -> fst r <= i64_max) -> (forall r, In r upd -> fst r <= i64_max) ->
  exists s', mem_write R s snap ins upd = SOk s' /\ sql_write (N.of_nat R) s snap ins upd = SOk s' /\ store_ok R s'.
Proof. exact write_agree. Qed.

Theorem C19_lookup_agree : forall s, contig (g_recs s) -> forall id, mem_epoch s id = sql_epoch s id.
Proof. exact epoch_agree. Qed.

Theorem C19_max_agree : forall s, contig (g_recs s) -> mem_max s = sql_max s.
Proof. exact max_agree. Qed.

(* after a write the store holds exactly the last R of all epoch ids seen so far *)
Theorem C19_window_exact : forall R s snap ins upd s' a,
  (0 < R)%nat -> contig_from a (g_recs s ++ ins) -> g_recs s ++ ins <> [] ->
  mem_write R s snap ins upd = SOk s' ->
  let m := a + N.of_nat (length (g_recs s ++ ins)) - 1 in
  forall id, mem_epoch s' id <> None <-> (a <= id /\ m < id + N.of_nat R /\ id <= m).
Proof. exact window_exact. Qed.

Theorem C19_repo_contiguous : forall R, (0 < R)%nat -> forall r e r' f f',
  repo_inv R r -> repo_insert (Mem R) r e f = (SOk r', f') -> repo_inv R r'.
Proof. exact repo_insert_inv. Qed.

(* a past epoch is readable exactly when entered since the last write or still stored *)
Theorem C19_available_epochs : forall R, (0 < R)%nat -> forall r id,
  repo_inv R r ->
  (exists d r', fst (repo_get (Mem R) r id []) = SOk (Some d, r'))
  <-> (exists d, In (id, d) (pend_ins r)) \/ mem_epoch (store r) id <> None.
Proof. exact repo_get_available. Qed.

Theorem C19_late_sender_rule : forall old cur i k,
  nth i old None = Some k -> (late_sender_ok old cur i = true <-> nth i cur None = Some k).
Proof. exact late_sender_rule. Qed.

(* non-vacuity: retention 2, epochs 0..3 written in two steps *)
Example C19_ex :
  exists s1 s2, mem_write 2 gempty 7 [(0, 10); (1, 11)] [] = SOk s1 /\ mem_write 2 s1 8 [(2, 12); (3, 13)] [(1, 21)] = SOk s2
  /\ map (mem_epoch s2) [0; 1; 2; 3; 4] = [None; None; Some 12; Some 13; None]
  /\ sql_write 2 s1 8 [(2, 12); (3, 13)] [(1, 21)] = SOk s2.
Proof. eexists. eexists. vm_compute. repeat split. Qed.

(* the late-sender rule TRANSLATED from insert_past_epoch (what is archived: one key per leaf slot) and
   validate_sender_signature_key_from_prior_epoch (how it is compared) on every run *)
Theorem C19_translated_late_sender_rule : forall old_leaves cur_leaves i k,
  nth i old_leaves None = Some k ->
  (gen_late_sender_ok (gen_archived_keys old_leaves) cur_leaves i = true <-> nth i cur_leaves None = Some k).
Proof. exact translated_late_sender_rule. Qed.

Theorem C19_translated_late_sender_check_is_the_model : forall old cur i,
  gen_late_sender_ok old cur i = late_sender_ok old cur i.
Proof. exact gen_late_sender_ok_is_model. Qed.

Print Assumptions C19_providers_agree.
Print Assumptions C19_lookup_agree.
Print Assumptions C19_max_agree.
Print Assumptions C19_window_exact.
Print Assumptions C19_repo_contiguous.
Print Assumptions C19_available_epochs.
Print Assumptions C19_late_sender_rule.

(* the effect shape of GroupStateRepository::get_epoch_mut, extracted from state_repo.rs on every run,
   is the one Model/Storage.v transcribes (line numbers erased) *)
From Coq Require Import String.
Local Open Scope string_scope.
Theorem C19_repository_lookup_has_the_modelled_shape : shape ev_repo_get =
  [EAlt [[EAlt [[];
                [EAlt [[EMut "self.pending_commit.updates.get_mut().map()" 0];
                       [EFail 0; EAlt [[EAlt [[EMut "self.pending_commit.updates.push()" 0]; []]]; []]]]]]];
         [EAlt [[EMut "self.pending_commit.updates.get_mut().map()" 0];
                [EFail 0; EAlt [[EAlt [[EMut "self.pending_commit.updates.push()" 0]; []]]; []]]]]]].
Proof. exact repo_get_shape. Qed.
Print Assumptions C19_repository_lookup_has_the_modelled_shape.
Print Assumptions C19_translated_late_sender_rule.
Print Assumptions C19_translated_late_sender_check_is_the_model.
