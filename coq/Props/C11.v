(* C11 - Pending commits do not change the group until applied; one successor per epoch.

   Model/Pending.v: the commit life cycle of a member (build, build detached, clear, apply
   pending, apply detached, receive own / foreign commit) over the list of commits it has
   applied; transcribed from commit_internal, apply_pending_commit, apply_detached_commit,
   clear_pending_commit and Group::process_incoming_message (echo of the own commit by message
   hash, epoch admission, pending commit dropped with the old epoch).  Idealisation, recorded in
   the trusted base: a commit created on another history of the same length fails
   authentication (its membership / confirmation tags come from another key schedule).
   Proved for every state and operation (and, for the invariant, every operation sequence):
   statements below.  The tie is the correspondence run of ./check C11: random races of three
   members, every result / epoch / pending flag compared with this model evaluated in Coq.
   Statements only. *)
From Coq Require Import NArith List.
From MlsV Require Import Pending PendingProofs Effects ProcessEffects EffectsInst MustHit MustHitProofs.
Import ListNotations.
Local Open Scope N_scope.

Theorem C11_building_keeps_the_epoch : forall s c d r, hist (snd (step s (OBuild c d r))) = hist s.
Proof. exact build_keeps_history. Qed.

Theorem C11_never_two_pending : forall s c d r p, pend s = Some p -> step s (OBuild c d r) = (RExistingPending, s).
Proof. exact single_pending. Qed.

Theorem C11_clear_restores_the_ability_to_commit : forall s c r, frozen s = false ->
  fst (step (snd (step s OClear)) (OBuild c false r)) = ROk /\ hist (snd (step s OClear)) = hist s.
Proof. exact clear_restores. Qed.

Theorem C11_one_step_per_commit : forall s o,
  hist (snd (step s o)) = hist s \/ exists c, hist (snd (step s o)) = hist s ++ [c].
Proof. exact step_extends. Qed.

Theorem C11_epoch_increases_by_at_most_one : forall s o,
  epoch_of (snd (step s o)) = epoch_of s \/ epoch_of (snd (step s o)) = epoch_of s + 1.
Proof. exact epoch_step. Qed.

Theorem C11_error_changes_nothing : forall s o, fst (step s o) <> ROk -> snd (step s o) = s.
Proof. exact error_keeps_state. Qed.

Theorem C11_pending_is_for_current_history : forall ops s, PendInv s -> PendInv (run s ops).
Proof. exact pendinv_reachable. Qed.

Theorem C11_apply_equals_receive : forall s1 s2 c b,
  PendInv s1 -> pend s1 = Some (c, b) -> hist s2 = hist s1 -> pend s2 = None -> frozen s2 = false ->
  hist (snd (step s1 OApplyPending)) = hist (snd (step s2 (OReceive c b false)))
  /\ fst (step s1 OApplyPending) = ROk /\ fst (step s2 (OReceive c b false)) = ROk
  /\ hist (snd (step s1 (OReceive c b false))) = hist (snd (step s1 OApplyPending)).
Proof. exact apply_equals_receive. Qed.

Theorem C11_foreign_commit_discards_pending : forall s c pc pb r,
  pend s = Some (pc, pb) -> pc <> c -> fst (step s (OReceive c (hist s) r)) = ROk ->
  pend (snd (step s (OReceive c (hist s) r))) = None.
Proof. exact foreign_commit_discards_pending. Qed.

Theorem C11_commit_only_for_current_epoch : forall s c b r,
  fst (step s (OReceive c b r)) = ROk -> N.of_nat (length b) = epoch_of s \/ exists pb, pend s = Some (c, pb).
Proof. exact commit_only_for_current_epoch. Qed.

Theorem C11_stale_detached_rejected : forall s c b r,
  N.of_nat (length b) < epoch_of s -> step s (OApplyDetached c b r) = (RInvalidEpoch, s).
Proof. exact stale_detached_rejected. Qed.

Theorem C11_detached_no_fork : forall s c b r rest,
  hist s = b ++ rest -> fst (step s (OApplyDetached c b r)) = ROk -> b = hist s.
Proof. exact detached_no_fork. Qed.

Theorem C11_frozen_after_reinit : forall s c d r b, frozen s = true -> pend s = None ->
  fst (step s (OBuild c d r)) = RUsedAfterReInit /\ fst (step s (OReceive c b r)) <> ROk.
Proof. exact frozen_refuses. Qed.

(* non-vacuity: A builds c1 (pending), B's c2 wins: A's pending is gone, A is in epoch 1 on [c2],
   and the detached twin of c1 is refused *)
Example C11_ex :
  let s1 := snd (step init_state (OBuild 1 false false)) in
  let s2 := snd (step s1 (OReceive 2 [] false)) in
  pend s1 = Some (1, []) /\ hist s2 = [2] /\ pend s2 = None /\ fst (step s2 (OApplyDetached 1 [] false)) = RInvalidEpoch.
Proof. vm_compute. repeat split; reflexivity. Qed.

Print Assumptions C11_building_keeps_the_epoch.
Print Assumptions C11_never_two_pending.
Print Assumptions C11_clear_restores_the_ability_to_commit.
Print Assumptions C11_one_step_per_commit.
Print Assumptions C11_epoch_increases_by_at_most_one.
Print Assumptions C11_error_changes_nothing.
Print Assumptions C11_pending_is_for_current_history.
Print Assumptions C11_apply_equals_receive.
Print Assumptions C11_foreign_commit_discards_pending.
Print Assumptions C11_commit_only_for_current_epoch.
Print Assumptions C11_stale_detached_rejected.
Print Assumptions C11_detached_no_fork.
Print Assumptions C11_frozen_after_reinit.

(* from the source-extracted effect lists (regenerated on every run): on every successful run of
   process_incoming_message / apply_pending_commit that installs the key schedule of a new epoch,
   the pending commit is cleared - whatever the received commit contains (path or no path) *)
Theorem C11_installing_an_epoch_clears_the_pending_commit :
  must_hit installs_epoch clears_pending ev_incoming /\ must_hit installs_epoch clears_pending ev_apply_pending.
Proof. exact (conj incoming_clears_pending apply_pending_clears_pending). Qed.
Print Assumptions C11_installing_an_epoch_clears_the_pending_commit.

Theorem C11_must_hit_checker_is_sound :
  forall trig tg evs, must_hit_chk trig tg evs = true -> must_hit trig tg evs.
Proof. exact must_hit_chk_sound. Qed.
Print Assumptions C11_must_hit_checker_is_sound.
