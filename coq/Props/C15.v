(* C15 - A failing storage call never loses or corrupts the group.

   Over the repository model with an explicit fault schedule (one boolean per storage call, so
   "every storage call of every operation, one at a time" is a universally quantified list):
   a failing call returns an error and leaves the repository as it was; the one exception is
   the key package delete, which comes after the state has been stored and the pending epochs
   forgotten - the retry then writes nothing twice and ends in the state of the fault-free
   run.  Group-level operations (apply pending commit, process commit, join ...) reach storage
   only through these repository operations; that THEY leave the group unchanged on such an
   error is what the correspondence (snapshot before = snapshot after, retry = fault-free run,
   for every call index) checks on the implementation.  Statements only. *)
From Coq Require Import NArith List.
From MlsV Require Import Storage StorageProofs Effects ProcessEffects EffectsInst.
Import ListNotations.
Local Open Scope N_scope.

Theorem C15_write_fault_clean : forall b r snap kp f,
  fst (repo_write b r snap kp (true :: f)) = SErr EStorageFault /\ repo_after_write b r snap kp (true :: f) = r.
Proof. exact write_fault_clean. Qed.

Theorem C15_write_error_clean : forall b r snap kp f e,
  fst (repo_write b r snap kp f) = SErr e -> e <> EKeyPackageFault -> repo_after_write b r snap kp f = r.
Proof. exact write_error_clean. Qed.

Theorem C15_key_package_fault_then_retry : forall b r snap s1,
  st_write b (store r) snap (pend_ins r) (pend_upd r) = SOk s1 ->
  let r1 := repo_after_write b r snap true [false; true] in
  fst (repo_write b r snap true [false; true]) = SErr EKeyPackageFault
  /\ pend_ins r1 = [] /\ pend_upd r1 = [] /\ store r1 = s1
  /\ fst (repo_write b r snap true []) = SOk r1.
Proof. exact kp_fault_then_retry. Qed.

Theorem C15_insert_fault_clean : forall b r e f,
  pend_ins r = [] -> repo_insert b r e (true :: f) = (SErr EStorageFault, f).
Proof. exact insert_fault_clean. Qed.

Theorem C15_insert_uses_no_storage_when_pending : forall b r e f x t,
  pend_ins r = x :: t -> snd (repo_insert b r e f) = f.
Proof. exact insert_no_storage_call_when_pending. Qed.

Theorem C15_get_fault_clean : forall b r id f,
  pend_ins r = [] -> find (fun x : N * N => fst x =? id) (pend_upd r) = None ->
  repo_get b r id (true :: f) = (SErr EStorageFault, f).
Proof. exact get_fault_clean. Qed.

Print Assumptions C15_write_fault_clean.
Print Assumptions C15_write_error_clean.
Print Assumptions C15_key_package_fault_then_retry.
Print Assumptions C15_insert_fault_clean.
Print Assumptions C15_insert_uses_no_storage_when_pending.
Print Assumptions C15_get_fault_clean.

(* the effect shape of GroupStateRepository::write_to_storage, extracted from state_repo.rs on every run,
   is the one Model/Storage.v transcribes (line numbers erased) *)
From Coq Require Import String.
Local Open Scope string_scope.
Theorem C15_repository_write_has_the_modelled_shape : shape ev_repo_write =
  [EAlt [[EFail 0]; []]; EFail 0; EAlt [[EFail 0]; []]; EFail 0; EFail 0; EFail 0;
   EMut "self.pending_commit.inserts.clear()" 0;
   EMut "self.pending_commit.updates.clear()" 0;
   EAlt [[EMut "self.key_package_repo.delete()" 0; EFail 0]; []]].
Proof. exact repo_write_shape. Qed.
Print Assumptions C15_repository_write_has_the_modelled_shape.
