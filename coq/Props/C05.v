(* C05 - Message keys are single-use: no nonce reuse, no replay, reordering tolerated.

   Model/Ratchet.v is SecretKeyRatchet (generation counter, stored history, the 1024 window
   with u32 arithmetic) and the per-(leaf, content kind) ratchets of an epoch.  The key
   material of (leaf, kind, generation) is the RFC 9420 value (C13, ratchet_key_ok), which
   distinct triples map to distinct keys under the collision-freeness idealisation of the
   KDF - so "no generation triple is handed out twice" is "no (key, nonce) pair is used
   twice", whatever the reuse guard.  All statements are for every sequence of requests /
   sends, of any length.  Statements only. *)
From Coq Require Import NArith List.
From MlsV Require Import Res Ratchet RatchetProofs RatchetGen RatchetGenProofs.
Import ListNotations.
Local Open Scope N_scope.

(* a receiver never accepts the same generation twice: a replayed ciphertext is refused *)
Theorem C05_receive_once : forall gs os s',
  run_recv rinit gs = Ok (os, s') -> NoDup (oks os).
Proof. exact receive_once. Qed.

(* a refused request (replay, too far ahead) leaves the ratchet exactly as it was *)
Theorem C05_reject_keeps_state : forall s g e s' D,
  inv D s -> get_message_key s g = Ok (RErr e, s') -> s' = s.
Proof. exact reject_keeps_state. Qed.

(* in-window requests for generations not yet delivered are accepted, in any order *)
Theorem C05_reorder_accepted : forall D s g,
  inv D s -> ~ In g D -> g <= gen s + 1024 -> g + 1 < 2 ^ 32 -> gen s + 1024 < 2 ^ 32 ->
  exists s', get_message_key s g = Ok (ROk g, s').
Proof. exact reorder_step. Qed.

(* the window is exactly 1024 *)
Theorem C05_window_exact : forall s g, gen s + 1025 < 2 ^ 32 -> gen s <= g ->
  (g <= gen s + 1024 -> exists s', get_message_key s g = Ok (ROk g, s'))
  /\ (gen s + 1024 < g -> get_message_key s g = Ok (RErr InvalidFutureGeneration, s)).
Proof. exact window_exact. Qed.

(* senders: over any interleaving of sends by any members, application and handshake, no
   (leaf, kind, generation) - hence no key - is handed out twice *)
Theorem C05_senders_never_share_a_key : forall sends os m',
  run_sends [] sends = Ok (os, m') -> NoDup os.
Proof. exact senders_never_share_a_key. Qed.

Theorem C05_sender_generations_distinct : forall n os s',
  run_send rinit n = Ok (os, s') -> NoDup (oks os).
Proof. exact sender_generations_distinct. Qed.

Theorem C05_invariant_initially : inv [] rinit.
Proof. exact inv_init. Qed.

(* non-vacuity *)
Example C05_ex : run_requests [] [((1, false), 3); ((1, false), 1); ((1, false), 1); ((1, false), 1028); ((1, false), 1029); ((1, true), 0)]
  = [0; 0; 1; 0; 0; 0] /\ run_requests [] [((0, false), 1025)] = [2] /\ run_requests [] [((0, false), 1024)] = [0].
Proof. vm_compute. repeat split. Qed.

Print Assumptions C05_receive_once.
Print Assumptions C05_reject_keeps_state.
Print Assumptions C05_reorder_accepted.
Print Assumptions C05_window_exact.
Print Assumptions C05_senders_never_share_a_key.
Print Assumptions C05_sender_generations_distinct.
Print Assumptions C05_invariant_initially.

(* the state machine of these theorems IS what the translator reads in secret_tree.rs
   (get_message_key, out_of_order build; regenerated on every run) *)
Theorem C05_translated_ratchet_is_the_model : forall s g,
  gen_get_message_key s g = get_message_key s g.
Proof. exact gen_get_message_key_is_model. Qed.
Print Assumptions C05_translated_ratchet_is_the_model.

Theorem C05_translated_window_is_the_model : gen_window = MAX_RATCHET_BACK_HISTORY.
Proof. exact gen_window_is_model. Qed.
Print Assumptions C05_translated_window_is_the_model.
