(* C04 - A rejected message leaves the group exactly as it was.

   Model/Effects.v: a procedure is abstracted to the ORDER of its possible failure points
   (`?`, `return Err`, `Err(..)`) and of its mutations of the member's state, with the branch
   and loop structure; `runs` gives every way such a procedure can unfold and `transactional`
   says that no run fails after the state has been touched.  `chk` is a checker for this,
   proved sound for EVERY event list (no bound on size or nesting).
   Gen/ProcessEffects.v is EXTRACTED FROM THE RUST SOURCE on every run by the translator
   (rs2v effects): Group::process_incoming_message with everything it calls
   (check_metadata, verify_plaintext_authentication, process_proposal, process_commit,
   apply_update_path, update_key_schedule, apply_pending_commit, insert_past_epoch ...),
   commit_internal, apply_pending_commit.  The theorems below are the checker's verdict on
   those lists: whatever makes processing of a public message (or of the content of a
   decrypted one), the building of a commit or the application of a pending commit fail, the
   member's state is untouched.
   Assumed atomic (EFMut): state_repo.insert / get_epoch_mut (C15, C19).
   NOT transactional, KNOWN FINDING F2d: decryption of a PrivateMessage takes the message key
   out of the secret tree before the AEAD open and the content checks (ev_decrypt; reported by
   ./check C04 as a known finding, and confirmed on the implementation).
   The dynamic side of ./check C04 compares the complete encoded state before and after every
   rejected message of exhaustive corruption sweeps and of late-failing insider messages.
   Statements only. *)
From Coq Require Import NArith List Bool String.
From MlsV Require Import Effects EffectsProofs ProcessEffects EffectsInst.
Import ListNotations.

Theorem C04_checker_is_sound : forall evs dd, chk evs false = Good dd -> transactional evs.
Proof. exact chk_sound. Qed.

Theorem C04_processing_a_message_is_transactional : transactional ev_incoming.
Proof. exact incoming_transactional. Qed.

Theorem C04_building_a_commit_is_transactional : transactional ev_commit_build.
Proof. exact commit_build_transactional. Qed.

Theorem C04_applying_the_pending_commit_is_transactional : transactional ev_apply_pending.
Proof. exact apply_pending_transactional. Qed.

(* the checker is not vacuous *)
Example C04_checker_refuses_mutation_before_failure : ~ transactional [EMut "signer" 1; EFail 2].
Proof. exact not_transactional. Qed.

Print Assumptions C04_checker_is_sound.
Print Assumptions C04_processing_a_message_is_transactional.
Print Assumptions C04_building_a_commit_is_transactional.
Print Assumptions C04_applying_the_pending_commit_is_transactional.
