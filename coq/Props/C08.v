(* C08 - Every reachable ratchet tree is valid and matches the context tree hash.

   Model/Tree.v: the tree array and the operations of a commit (removes, updates, adds with
   update_unmerged, trim, path update with filtered nodes) in the shape of tree_kem/mod.rs and
   node.rs, over the translated tree math.  Proved for EVERY tree and EVERY operation
   sequence: leaves sit on even and parents on odd indices, the tree never ends in a blank
   node, a new leaf always takes the leftmost blank leaf slot (or extends the tree by one
   leaf).  The tree hash is recomputed from the exported bytes by an implementation written
   from RFC 9420 7.8 (Model/TreeHashRFC.v, Gallina SHA-2) and compared with the group
   context on every epoch of every generated history; the model's trees are compared with the
   exported trees node by node (blank / leaf / parent with its unmerged list).
   Also proved for EVERY commit (proposals, then the optional path): the unmerged-leaf invariant
   WF3 (every unmerged leaf listed at a parent is a non-blank leaf below it; theorems in C02)
   and WF5: every non-blank parent has a member in each of its two subtrees - so a node of a
   committer's path whose copath resolution is empty is blank.
   Parent-hash chains: validity (the hash-chain equation of RFC 9420 7.9.2) is proved to be an invariant of
   every commit, with the committer's hashes computed top-down (section "parent hashes" below); the chains of
   every sampled exported tree are additionally VERIFIED by an implementation of 7.9.2 written from the RFC
   text in Gallina (Model/TreeHashRFC.v: parent_hash_case), independent of parent_hash.rs, and by the
   library's own joiner / observer validation of every exported tree.
   The incrementally maintained hash cache: proved equal to the from-scratch tree hash at EVERY node after
   every commit (section "hash cache" below, over the translated tree_hash.rs), and every member's whole
   cache is compared with the from-scratch hashes of its own node vector on the generated histories.
   Statements only. *)
From Coq Require Import String NArith List.
From MlsV Require Import Res TreeMathGen TreeMathProofs Tree TreeProofs TreeWF Decap DecapProofs TreeWF5 NodeVecGen NodeVecGenProofs Kem Priv ParentHash HashCache HashCacheGen HashCacheProofs HashCacheGenProofs HashCacheTree CommitStep TreeState ParentHashCode ParentHashGen ParentHashCodeProofs ParentHashGenProofs ParentHashCommit TreeStateCode.
Import ListNotations.
Local Open Scope N_scope.

Theorem C08_no_trailing_blank_after_trim : forall t, no_trailing_blank (trim t).
Proof. exact trim_no_trailing_blank. Qed.

Theorem C08_trim_only_drops_trailing_blanks : forall t, exists k, t = trim t ++ repeat None k.
Proof. exact trim_prefix. Qed.

Theorem C08_proposals_keep_shape : forall t removes updates adds t' added,
  shape_ok t -> batch_edit t removes updates adds = TOk (t', added) -> shape_ok t' /\ no_trailing_blank t'.
Proof. exact shape_batch_edit. Qed.

Theorem C08_path_update_keeps_shape : forall t sender id t',
  shape_ok t -> small t -> 2 * sender <= tlen t -> apply_update_path t sender id = TOk t' -> shape_ok t'.
Proof. exact shape_apply_update_path. Qed.

Theorem C08_new_leaf_leftmost_blank : forall t start, 2 * start <= tlen t + 1 ->
  let r := next_empty_leaf t start in
  start <= r
  /\ (forall l, start <= l < r -> get t (2 * l) <> None)
  /\ ((2 * r < tlen t /\ get t (2 * r) = None) \/ (r = (tlen t + 1) / 2 /\ forall l, start <= l -> 2 * l < tlen t -> get t (2 * l) <> None)).
Proof. exact next_empty_leaf_leftmost. Qed.

Theorem C08_add_uses_next_empty_leaf : forall t id start t' idx,
  add_leaf t id start = TOk (t', idx) -> idx = next_empty_leaf t start.
Proof. exact add_leaf_index. Qed.

Theorem C08_every_parent_has_members_on_both_sides :
  forall t removes updates adds path t' added,
  wf3 t -> wf5 t -> shape_ok t -> tlen t + 2 * N.of_nat (length adds) < 2 ^ 25 ->
  apply_commit t removes updates adds path = TOk (t', added) -> wf5 t'.
Proof. exact wf5_apply_commit. Qed.
(* the node-vector operations behind every tree edit, TRANSLATED from tree_kem/node.rs on every run
   (Gen/NodeVecGen.v), are those of the tree model; batch_edit applies its phases in the model's order *)
Theorem C08_translated_node_vector_operations_are_the_model : forall t start index leaf,
  gen_next_empty_leaf t start = next_empty_leaf t start /\
  gen_insert_leaf t index leaf = insert_leaf t index leaf /\
  gen_trim t = trim t /\
  gen_total_leaf_count t = total_leaf_count t /\
  gen_batch_phases = batch_phases.
Proof. exact translated_node_vector. Qed.

(* ---- parent hashes (RFC 9420 7.9) as an invariant of the tree operations ----
   A decorated tree = the tree model plus (public key, parent hash) for every non-blank node; PHF is ANY
   function (the parent hash of: the parent's key, the parent's parent hash, the content of the sibling
   subtree with the parent's unmerged leaves taken out).  PHValid: every non-blank parent P has, below one of
   its children and reachable through blank nodes only, a node D whose stored parent hash is PHF of P's key,
   P's parent hash and the content of P's OTHER child without P's unmerged leaves - the hash-chain equation
   of RFC 9420 7.9.2.  It holds in a new group and is preserved by the proposals of a commit (removes,
   updates, adds with their unmerged-leaf bookkeeping, trim) and by the update path, PROVIDED the committer
   computes the parent hashes on its path by the top-down recurrence of 7.9 (hypothesis Dpath of the path
   theorem: that recurrence is what parent_hash.rs implements; it is compared with the library on every
   exported tree by the from-scratch verification in Model/TreeHashRFC.v;
   C08_parent_hashes_computed_by_the_committer_are_valid discharges it for the top-down computation [decorate]).  PARTIAL: the second condition of
   7.9.2 (the rest of the child's resolution consists of P's unmerged leaves) is not part of PHValid. *)
Theorem C08_parent_hashes_valid_in_a_new_group : forall PHF id d, PHValid PHF [Some (Leaf id)] d.
Proof. exact ph_initial. Qed.

Theorem C08_parent_hashes_stay_valid_through_the_proposals : forall PHF t removes updates adds t' added d d',
  wf3 t -> tlen t + 2 * N.of_nat (length adds) < 2 ^ 25 ->
  batch_edit t removes updates adds = TOk (t', added) ->
  (forall n, (forall l, In l (map fst updates) -> n <> 2 * l) -> get t n <> None -> d' n = d n) ->
  PHValid PHF t d -> PHValid PHF t' d'.
Proof. exact ph_batch_edit. Qed.

Theorem C08_parent_hashes_stay_valid_through_a_commit : forall PHF t removes updates adds t1 added sndr id t2 flt d dm d2,
  wf3 t -> wf5 t -> shape_ok t -> tlen t + 2 * N.of_nat (length adds) < 2 ^ 25 ->
  batch_edit t removes updates adds = TOk (t1, added) ->
  apply_update_path t1 sndr id = TOk t2 ->
  filtered (set t1 (2 * sndr) (Some (Leaf id))) sndr = Ok flt ->
  (forall n, (forall l, In l (map fst updates) -> n <> 2 * l) -> get t n <> None -> dm n = d n) ->
  (forall n, n <> 2 * sndr -> ~ ancestor n sndr -> get t1 n <> None -> d2 n = dm n) ->
  (forall i, nth_error flt i = Some false ->
     snd (d2 (dnode sndr (next_below flt i))) =
     PHF (fst (d2 (lvl_node (N.of_nat (S i)) sndr))) (snd (d2 (lvl_node (N.of_nat (S i)) sndr)))
         (content t2 d2 [] i (sib (sndr / 2 ^ N.of_nat i)))) ->
  PHValid PHF t d -> PHValid PHF t2 d2.
Proof. exact ph_commit. Qed.

Print Assumptions C08_every_parent_has_members_on_both_sides.

(* ---- the incrementally maintained hash cache (tree_hash.rs update_hashes / tree_hash) ----
   Hashes are symbolic terms recording what is fed to the hash function (Model/HashCache.v); CacheOK pay t c says
   that the cache c has one entry per node of the full tree of t and that every entry is the from-scratch hash
   (thash, RFC 9420 7.8) of its subtree.  The translated code (Gen/HashCacheGen.v) is the model. *)
Theorem C08_translated_hash_cache_code_is_the_model : forall pay c t ls flt nl upd,
  gen_tree_hash pay c t ls flt nl = tree_hash pay c t ls flt nl /\
  gen_update_hashes pay c t upd = update_hashes pay c t upd /\
  gen_initialize_hashes pay c t = initialize_hashes pay c t.
Proof. exact gen_hash_cache_is_model. Qed.
Print Assumptions C08_translated_hash_cache_code_is_the_model.

Theorem C08_batch_edit_lists_removed_updated_and_added_leaves_for_the_hash_update : forall removes updated added,
  gen_batch_edit_hash_leaves removes updated added = removes ++ updated ++ added.
Proof. exact gen_batch_edit_hash_leaves_is_model. Qed.
Print Assumptions C08_batch_edit_lists_removed_updated_and_added_leaves_for_the_hash_update.

(* every other caller of update_hashes lists the one leaf whose direct path it has just rewritten *)
Theorem C08_callers_of_update_hashes_are_the_known_ones : gen_hash_sites =
  [("update_parent_hashes"%string, ["[index]"%string; "[index]"%string]);
   ("encap"%string, ["[self_index]"%string]);
   ("process_commit"%string, ["[sender]"%string]);
   ("commit_internal"%string, ["[provisional_private_tree.self_index]"%string]);
   ("add_leaves"%string, ["added"%string])].
Proof. exact gen_hash_sites_are_the_known_ones. Qed.
Print Assumptions C08_callers_of_update_hashes_are_the_known_ones.

Theorem C08_hash_cache_computed_from_scratch_is_right : forall pay t, small t ->
  exists c, initialize_hashes pay [] t = Ok c /\ CacheOK pay t c.
Proof. exact initialize_hashes_correct. Qed.
Print Assumptions C08_hash_cache_computed_from_scratch_is_right.

Theorem C08_hash_cache_stays_right_through_any_edit_confined_to_the_listed_leaves : forall pay pay' t t' c ls,
  small t' -> CacheOK pay t c ->
  (forall n, ~ touched ls n -> get t' n = get t n /\ (get t n <> None -> pay' n = pay n)) ->
  exists c', update_hashes pay' c t' ls = Ok c' /\ CacheOK pay' t' c'.
Proof. exact cache_right_after_a_confined_edit. Qed.
Print Assumptions C08_hash_cache_stays_right_through_any_edit_confined_to_the_listed_leaves.

Theorem C08_hash_cache_stays_right_through_the_proposals : forall pay pay' t removes updates adds t' added c,
  wf3 t -> tlen t + 2 * N.of_nat (length adds) < 2 ^ 25 ->
  batch_edit t removes updates adds = TOk (t', added) ->
  (forall n, ~ touched (removes ++ map fst updates ++ added) n -> get t n <> None -> pay' n = pay n) ->
  CacheOK pay t c ->
  exists c', update_hashes pay' c t' (removes ++ map fst updates ++ added) = Ok c' /\ CacheOK pay' t' c'.
Proof. exact cache_right_after_the_proposals. Qed.
Print Assumptions C08_hash_cache_stays_right_through_the_proposals.

Theorem C08_hash_cache_stays_right_through_the_update_path : forall pay pay' t sndr id t2 c,
  small t -> small t2 -> apply_update_path t sndr id = TOk t2 ->
  (forall n, ~ touched [sndr] n -> get t n <> None -> pay' n = pay n) ->
  CacheOK pay t c ->
  exists c', update_hashes pay' c t2 [sndr] = Ok c' /\ CacheOK pay' t2 c'.
Proof. exact cache_right_after_the_update_path. Qed.
Print Assumptions C08_hash_cache_stays_right_through_the_update_path.

Theorem C08_cached_root_entry_is_the_tree_hash : forall pay t c D, (D <= 30)%nat -> total_leaf_count t = 2 ^ N.of_nat D ->
  Valid pay t [] D c -> bind (root (total_leaf_count t)) (fun r => hidx c r) = Ok (thash pay t [] D 0).
Proof. exact cached_root_hash_is_the_tree_hash. Qed.
Print Assumptions C08_cached_root_entry_is_the_tree_hash.

(* the committer's parent hashes computed top-down (decorate, the recurrence of RFC 9420 7.9) are valid: the
   hypothesis of C08_parent_hashes_stay_valid_through_a_commit about the new decoration is discharged *)
Theorem C08_parent_hashes_computed_by_the_committer_are_valid : forall PHF t removes updates adds t1 added sndr id t2 flt d dm fk leafkey,
  wf3 t -> wf5 t -> shape_ok t -> tlen t + 2 * N.of_nat (length adds) < 2 ^ 25 ->
  batch_edit t removes updates adds = TOk (t1, added) ->
  apply_update_path t1 sndr id = TOk t2 ->
  filtered (set t1 (2 * sndr) (Some (Leaf id))) sndr = Ok flt ->
  (forall n, (forall l, In l (map fst updates) -> n <> 2 * l) -> get t n <> None -> dm n = d n) ->
  PHValid PHF t d -> PHValid PHF t2 (decorate PHF t2 dm sndr flt fk leafkey).
Proof. exact ph_commit_computed. Qed.
Print Assumptions C08_parent_hashes_computed_by_the_committer_are_valid.

(* ---- the code that computes the parent hashes of an update path (parent_hash.rs parent_hash_for_leaf /
   update_parent_hashes, TRANSLATED on every run) computes exactly the decoration [decorate] for which validity is
   proved above: the direct path is walked from the root down, a node whose copath child has an empty resolution
   is skipped, every other node stores the hash so far and the next hash is ParentHash::new (PH) of its key, that
   hash and the CACHED tree hash of its copath child - which is the hash term of the sibling's content, so PH
   over the cache is the PHF of the validity theorems.  Hypotheses: the flags are the emptiness of the copath
   resolutions in the new tree, unfiltered path nodes are parents carrying the new keys, the cache is right at
   the copath nodes (C08_hash_cache_... above). *)
Theorem C08_translated_parent_hash_walk_is_the_model : forall PH enc t c d index,
  gen_parent_hash_for_leaf PH t c d index = parent_hash_for_leaf PH t c d index /\
  gen_update_parent_hashes PH enc t c d index = update_parent_hashes PH enc t c d index.
Proof. exact gen_parent_hash_code_is_model. Qed.
Print Assumptions C08_translated_parent_hash_walk_is_the_model.

Theorem C08_the_parent_hash_walk_of_the_code_computes_the_valid_parent_hashes :
  forall PH enc t2 c (d dm0 : deco) sndr flt fk leafkey,
  (forall i b, nth_error flt i = Some b -> resolution_empty t2 (node (N.of_nat i) (sib (sndr / 2 ^ N.of_nat i))) = Ok b) ->
  (forall i, nth_error flt i = Some false -> exists um, get t2 (lvl_node (N.of_nat (S i)) sndr) = Some (Par um)) ->
  (forall i, nth_error flt i = Some false -> fst (dm0 (lvl_node (N.of_nat (S i)) sndr)) = fk (N.of_nat i)) ->
  (forall i, nth_error flt i = Some false ->
     hidx c (node (N.of_nat i) (sib (sndr / 2 ^ N.of_nat i))) =
     Ok (thash (fun n => enc (d n)) t2 [] i (sib (sndr / 2 ^ N.of_nat i)))) ->
  (length flt <= 30)%nat -> sndr < 2 ^ N.of_nat (length flt) -> total_leaf_count t2 = 2 ^ N.of_nat (length flt) ->
  (forall x, x <> 2 * sndr -> (forall i, nth_error flt i = Some false -> x <> lvl_node (N.of_nat (S i)) sndr) -> dm0 x = d x) ->
  fst (dm0 (2 * sndr)) = leafkey ->
  exists d' h, parent_hash_for_leaf PH t2 c dm0 sndr = Ok (d', h) /\
    forall x, set_ph d' (2 * sndr) h x = decorate (fun k p ct => PH k p (c2h enc ct)) t2 d sndr flt fk leafkey x.
Proof. exact parent_hash_for_leaf_is_decorate. Qed.
Print Assumptions C08_the_parent_hash_walk_of_the_code_computes_the_valid_parent_hashes.

(* the first hypothesis of the theorem above holds for the tree an update path has just been applied to: the
   filter flags computed before the path nodes were written are the emptiness of the copath resolutions after *)
Theorem C08_filter_flags_are_the_copath_resolutions_after_the_update_path : forall t1 sndr id t2 flt,
  small t1 -> apply_update_path t1 sndr id = TOk t2 ->
  filtered (set t1 (2 * sndr) (Some (Leaf id))) sndr = Ok flt ->
  forall i b, nth_error flt i = Some b ->
  resolution_empty t2 (node (N.of_nat i) (sib (sndr / 2 ^ N.of_nat i))) = Ok b.
Proof. exact flags_after_update_path. Qed.
Print Assumptions C08_filter_flags_are_the_copath_resolutions_after_the_update_path.

Theorem C08_parent_hash_validity_depends_on_the_decoration_pointwise : forall PHF t d d',
  (forall x, d' x = d x) -> PHValid PHF t d -> PHValid PHF t d'.
Proof. exact PHValid_pointwise. Qed.
Print Assumptions C08_parent_hash_validity_depends_on_the_decoration_pointwise.

(* ---- the whole public tree state of a member: node vector, keys and parent hashes, hash cache ----
   In EVERY state reachable from a new group by commits with and without a path, in the order of the code
   (batch_edit, update_hashes, apply_update_path, parent hashes of the path, update_hashes): the tree is well
   formed (WF3, WF5, shape), every non-blank parent is parent-hash valid and the cache holds the from-scratch
   hash at every node.  PHF: any parent-hash function; enc: any dependence of a node's encoding on its key and
   parent hash. *)
Theorem C08_every_reachable_tree_state_is_well_formed_parent_hash_valid_and_cached_right : forall PHF enc s,
  treachable PHF enc s -> TInv PHF enc s.
Proof. exact tinv_reachable. Qed.
Print Assumptions C08_every_reachable_tree_state_is_well_formed_parent_hash_valid_and_cached_right.

Theorem C08_update_hashes_never_fails_in_a_commit : forall PHF enc s removes updates adds t1 added dm,
  TInv PHF enc s -> tlen (ts_tree s) + 2 * N.of_nat (length adds) < 2 ^ 25 ->
  batch_edit (ts_tree s) removes updates adds = TOk (t1, added) ->
  (forall n, ~ touched (removes ++ map fst updates ++ added) n -> get (ts_tree s) n <> None -> dm n = ts_deco s n) ->
  exists c1, update_hashes (pay_of enc dm) (ts_cache s) t1 (removes ++ map fst updates ++ added) = Ok c1.
Proof. exact update_hashes_never_fails_in_a_commit. Qed.
Print Assumptions C08_update_hashes_never_fails_in_a_commit.

Example C08_a_state_after_a_commit_with_a_path_is_reachable :
  exists c, treachable ex_PHF ex_enc {| ts_tree := ex_t2; ts_deco := ex_d2; ts_cache := c |}.
Proof. exact treachable_example. Qed.

Theorem C08_update_path_keeps_the_number_of_leaf_slots : forall t1 sndr id t2,
  small t1 -> apply_update_path t1 sndr id = TOk t2 ->
  small t2 /\ total_leaf_count t2 = total_leaf_count (set t1 (2 * sndr) (Some (Leaf id))).
Proof. exact update_path_keeps_the_leaf_count. Qed.
Print Assumptions C08_update_path_keeps_the_number_of_leaf_slots.

(* ---- everything composed: one commit with a path as the CODE performs it (batch_edit, update_hashes,
   apply_update_path, update_parent_hashes = hashes, the walk, the leaf's own parent hash, hashes again), all of
   it translated.  From a state that is well formed, parent-hash valid and cached right, none of the calls
   fails and the new state is well formed, parent-hash valid and cached right - with the parent-hash function
   := ParentHash::new over the cached sibling hash.  dm0 is the decoration after apply_update_path has installed
   the new keys (fk on the unfiltered path nodes, leafkey at the leaf). *)
Theorem C08_one_commit_as_the_code_performs_it_keeps_the_tree_state_invariant :
  forall PH enc s removes updates adds t1 added dm c1 sndr id t2 flt dm0 fk leafkey,
  TInv (fun k p ct => PH k p (c2h enc ct)) enc s -> tlen (ts_tree s) + 2 * N.of_nat (length adds) < 2 ^ 25 ->
  batch_edit (ts_tree s) removes updates adds = TOk (t1, added) ->
  (forall n, ~ touched (removes ++ map fst updates ++ added) n -> get (ts_tree s) n <> None -> dm n = ts_deco s n) ->
  (forall n, (forall l, In l (map fst updates) -> n <> 2 * l) -> get (ts_tree s) n <> None -> dm n = ts_deco s n) ->
  update_hashes (pay_of enc dm) (ts_cache s) t1 (removes ++ map fst updates ++ added) = Ok c1 ->
  apply_update_path t1 sndr id = TOk t2 ->
  filtered (set t1 (2 * sndr) (Some (Leaf id))) sndr = Ok flt ->
  (forall x, x <> 2 * sndr -> (forall i, nth_error flt i = Some false -> x <> lvl_node (N.of_nat (S i)) sndr) -> dm0 x = dm x) ->
  (forall i, nth_error flt i = Some false -> fst (dm0 (lvl_node (N.of_nat (S i)) sndr)) = fk (N.of_nat i)) ->
  fst (dm0 (2 * sndr)) = leafkey ->
  exists d2 c2, update_parent_hashes PH enc t2 c1 dm0 sndr = Ok (d2, c2) /\
                TInv (fun k p ct => PH k p (c2h enc ct)) enc {| ts_tree := t2; ts_deco := d2; ts_cache := c2 |}.
Proof. exact commit_with_the_code_parent_hashes. Qed.
Print Assumptions C08_one_commit_as_the_code_performs_it_keeps_the_tree_state_invariant.

Theorem C08_every_state_reachable_by_commits_as_the_code_performs_them_satisfies_the_invariant :
  forall PH enc s, creachable PH enc s -> TInv (fun k p ct => PH k p (c2h enc ct)) enc s.
Proof. exact tinv_creachable. Qed.
Print Assumptions C08_every_state_reachable_by_commits_as_the_code_performs_them_satisfies_the_invariant.

Example C08_the_code_walk_on_a_two_member_tree :
  match initialize_hashes (pay_of ex_enc ex_dm) [] [Some (Leaf 1); None; Some (Leaf 7)] with
  | Ok c1 => match update_parent_hashes ex_PH ex_enc ex_t2 c1 ex_dm0 0 with
             | Ok (d2, c2) => snd (d2 0) = ex_PH 200 0 (HLeaf 1 (Some (7, ex_enc (77, 0)))) /\ snd (d2 1) = 0 /\
                              hidx c2 1 = Ok (thash (pay_of ex_enc d2) ex_t2 [] 1 0)
             | _ => False
             end
  | _ => False
  end.
Proof. exact code_walk_example. Qed.

(* non-vacuity: a cache built from scratch for a three-member tree with an unmerged leaf, then kept right by
   update_hashes through a remove that shrinks nothing and an add that regrows *)
Example C08_cache_ex :
  let pay := fun n => 100 + n in
  let t := [Some (Leaf 10); Some (Par [1]); Some (Leaf 11); None; Some (Leaf 12)] in
  match initialize_hashes pay [] t with
  | Ok c => match batch_edit t [1] [] [4] with
            | TOk (t', added) => match update_hashes pay c t' ([1] ++ [] ++ added) with
                                 | Ok c' => hidx c' 3 = Ok (thash pay t' [] 2 0)
                                 | _ => False end
            | _ => False end
  | _ => False end.
Proof. vm_compute. reflexivity. Qed.


Theorem C08_initial_tree_wf5 : forall id, wf5 [Some (Leaf id)].
Proof. exact wf5_single. Qed.
Print Assumptions C08_initial_tree_wf5.

Theorem C08_filtered_path_node_is_blank :
  forall t s k,
  shape_ok t -> wf5 t -> (k <= 29)%nat -> (sz k + 1 <= 2 * length t + 4)%nat ->
  get t (2 * s) <> None ->
  resolution_empty t (node (N.of_nat k) (sib (s / 2 ^ N.of_nat k))) = Ok true ->
  get t (node (N.of_nat k + 1) (s / 2 ^ (N.of_nat k + 1))) = None.
Proof. exact filtered_node_is_blank. Qed.
Print Assumptions C08_filtered_path_node_is_blank.

(* non-vacuity: remove the middle member of three, then add one: it takes the freed slot *)
Example C08_ex :
  batch_edit [Some (Leaf 1); Some (Par []); Some (Leaf 2); None; Some (Leaf 3)] [1] [] [4]
  = TOk ([Some (Leaf 1); None; Some (Leaf 4); None; Some (Leaf 3)], [1]).
Proof. vm_compute. reflexivity. Qed.

Print Assumptions C08_no_trailing_blank_after_trim.
Print Assumptions C08_trim_only_drops_trailing_blanks.
Print Assumptions C08_proposals_keep_shape.
Print Assumptions C08_path_update_keeps_shape.
Print Assumptions C08_new_leaf_leftmost_blank.
Print Assumptions C08_add_uses_next_empty_leaf.
Print Assumptions C08_translated_node_vector_operations_are_the_model.
Print Assumptions C08_parent_hashes_valid_in_a_new_group.
Print Assumptions C08_parent_hashes_stay_valid_through_the_proposals.
Print Assumptions C08_parent_hashes_stay_valid_through_a_commit.
