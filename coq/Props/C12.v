(* C12 - The wire codec round-trips, reports exact lengths and never panics on any bytes.

   [encode], [size], [decode] are the generic codec of Model/Codec.v (the semantics of
   mls-rs-codec and of the derive macro, tied to the code by the correspondence check);
   [all_types] is the table of Gen/CodecTypes.v, REGENERATED from every derive'd wire and
   state type of /repo on every run.  All statements hold for every descriptor, every value
   and every byte string - no bound on sizes.

   This file contains statements only; each is closed by [exact lemma]. *)
From Coq Require Import NArith List Bool String.
From MlsV Require Import Codec CodecPrim CodecProofs CodecTypes CodecCases CodecTypesProofs VarIntGen VarIntGenProofs.
Import ListNotations.
Local Open Scope N_scope.

(* ---- variable-length integers and length prefixes ---- *)
Theorem C12_varint_roundtrip : forall n h rest,
  encode_varint n = Some h -> decode_varint (h ++ rest) = DOk (n, rest).
Proof. exact varint_roundtrip. Qed.

(* only the shortest form is accepted: what was read is exactly the encoding of the value *)
Theorem C12_varint_minimal : forall bs n rest,
  bytes_ok bs -> decode_varint bs = DOk (n, rest) ->
  exists h, encode_varint n = Some h /\ bs = h ++ rest.
Proof. exact varint_canon. Qed.

(* a length prefix never reaches beyond the input *)
Theorem C12_length_prefix_in_bounds : forall bs data rest,
  split_collection bs = DOk (data, rest) -> (List.length data + List.length rest < List.length bs)%nat.
Proof. exact split_in_bounds. Qed.

(* ---- every descriptor ---- *)
Theorem C12_roundtrip : forall t v bs rest,
  wf t -> vwf t v = true -> encode t v = Some bs -> decode t None (bs ++ rest) = DOk (v, rest).
Proof. exact roundtrip. Qed.

Theorem C12_size_exact : forall t v bs, encode t v = Some bs -> size t v = N.of_nat (List.length bs).
Proof. exact size_exact. Qed.

Theorem C12_decode_canonical : forall t bs v r,
  wf t -> canonicalP t -> bytes_ok bs -> decode t None bs = DOk (v, r) ->
  exists used, encode t v = Some used /\ bs = used ++ r.
Proof. exact decode_canonical. Qed.

Theorem C12_decode_consumes_prefix : forall t disc bs v r,
  decode t disc bs = DOk (v, r) -> (List.length r <= List.length bs)%nat.
Proof. exact decode_consumes. Qed.

(* decoding is a total function that never runs out of fuel (never loops) *)
Theorem C12_decode_never_out_of_fuel : forall t disc bs, decode t disc bs <> DErr EOutOfFuel.
Proof. exact decode_never_out_of_fuel. Qed.

Theorem C12_unique_decoding : forall t v1 v2 b1 b2 r1 r2,
  wf t -> vwf t v1 = true -> vwf t v2 = true ->
  encode t v1 = Some b1 -> encode t v2 = Some b2 -> b1 ++ r1 = b2 ++ r2 -> v1 = v2 /\ r1 = r2.
Proof. exact unique_decoding. Qed.

(* ---- the types of the code base ---- *)
Theorem C12_all_types_wf : Forall (fun p => wf (snd p)) all_types.
Proof. exact all_types_wf. Qed.

(* every type of the code base is canonical unless it holds a hash map *)
Theorem C12_canonical_types :
  Forall (fun p => has_hashmap 0 (snd p) = true \/ canonicalP (snd p)) all_types.
Proof. exact canonical_types. Qed.

Theorem C12_mls_message_canonical : canonicalP T_MlsMessage.
Proof. exact mls_message_canonical. Qed.

Theorem C12_public_message_canonical : canonicalP T_PublicMessage.
Proof. exact public_message_canonical. Qed.

(* The types that hold a hash map (decoded in any key order, encoded sorted or in iteration
   order) - internal state types only, no protocol message.  KNOWN FINDING F7b: for these
   the re-encoding of a decoded value may order the entries differently. *)
Example C12_hashmap_types :
  hashmap_type_names = ["ProposalCache"; "TreeIndex"; "TreeKemPublic"; "GroupState"; "NewEpoch";
                        "CommitEffect"; "CommitMessageDescription"; "EpochSecrets"; "RawGroupState";
                        "ExternalSnapshot"; "PendingCommit"; "PriorEpoch"; "Snapshot"]%string.
Proof. vm_compute. reflexivity. Qed.

(* non-vacuity: concrete instances, evaluated *)
Example C12_ex_sender : encode T_Sender (VEnum 1 (VU 5)) = Some [1; 0; 0; 0; 5]
  /\ decode T_Sender None [1; 0; 0; 0; 5; 9] = DOk (VEnum 1 (VU 5), [9]).
Proof. vm_compute. split; reflexivity. Qed.
Example C12_ex_varint : decode_varint [64; 1] = DErr EVarIntMinimumLengthEncoding
  /\ decode_varint [64; 64; 7] = DOk (64, [7]) /\ decode_varint [192] = DErr EInvalidVarIntPrefix.
Proof. vm_compute. repeat split. Qed.
Example C12_ex_bool : decode TBool None [2] = DErr EInvalidContent.
Proof. vm_compute. reflexivity. Qed.
Example C12_ex_oversized_prefix : decode TBytes None [5; 1; 2] = DErr EUnexpectedEOF.
Proof. vm_compute. reflexivity. Qed.

Print Assumptions C12_varint_roundtrip.
Print Assumptions C12_varint_minimal.
Print Assumptions C12_length_prefix_in_bounds.
Print Assumptions C12_roundtrip.
Print Assumptions C12_size_exact.
Print Assumptions C12_decode_canonical.
Print Assumptions C12_decode_consumes_prefix.
Print Assumptions C12_decode_never_out_of_fuel.
Print Assumptions C12_unique_decoding.
Print Assumptions C12_all_types_wf.
Print Assumptions C12_canonical_types.
Print Assumptions C12_public_message_canonical.
Print Assumptions C12_mls_message_canonical.

(* The hand-written variable-length integer codec as translated from mls-rs-codec/src/varint.rs
   (bit-length thresholds with the LengthEncoding discriminants, VarInt::MAX and the TryFrom bound,
   marker bits OR-ed into the big-endian bytes and the slice taken per arm, prefix shift, admitted
   prefixes, byte count, first-byte mask, shift-and-or fold, minimal-length comparison) IS the
   arithmetic model every theorem above is about: for every value and every byte string. *)
Theorem C12_translated_varint_size_is_the_model : forall n,
  n <= varint_max -> gen_count_bytes n = Some (varint_len n).
Proof. exact gen_count_bytes_is_model. Qed.
Print Assumptions C12_translated_varint_size_is_the_model.

(* count_bytes_to_encode_int panics exactly on values that TryFrom refuses, so no VarInt that exists
   can reach the panic; the decoder's value has at most 30 bits and never reaches it either *)
Theorem C12_translated_varint_size_panics_only_beyond_the_maximum : forall n,
  gen_count_bytes n = None <-> varint_max < n.
Proof. exact gen_count_bytes_panics_iff. Qed.
Print Assumptions C12_translated_varint_size_panics_only_beyond_the_maximum.

Theorem C12_translated_varint_encoder_is_the_model : forall n, gen_encode_varint n = encode_varint n.
Proof. exact gen_encode_varint_is_model. Qed.
Print Assumptions C12_translated_varint_encoder_is_the_model.

Theorem C12_translated_varint_decoder_is_the_model : forall bs,
  bytes_ok bs -> gen_decode_varint bs = decode_varint bs.
Proof. exact gen_decode_varint_is_model. Qed.
Print Assumptions C12_translated_varint_decoder_is_the_model.
