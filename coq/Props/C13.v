(* C13 - Key schedule, secret tree, PSK and transcript values equal the RFC 9420 formulas.

   Model/KeyScheduleRFC.v is written from the RFC text; Model/KeyScheduleCode.v in the
   shape of the code (order of derivations, u16-truncated length field, PSK loop, on-demand
   secret tree over the TRANSLATED tree math of math.rs, ratchet with generation counter).
   The theorems say the code-shaped functions compute the RFC values, for EVERY hash / KDF
   (so for every cipher suite), every input, every tree size up to 2^30 leaves and every
   order in which leaves are first touched.  The tie of both to the code is the byte-for-byte
   comparison of the RFC functions (instantiated with Gallina SHA-2/HMAC/HKDF) with the
   library's outputs.  Statements only; each is closed by [exact lemma]. *)
From Coq Require Import NArith List.
From MlsV Require Import Res Codec Hkdf KeyScheduleRFC KeyScheduleCode TreeMathGen TreeMathProofs KeyScheduleProofs PskIdeal ResumeGen ResumeGenProofs CodecTypes KsCases TranscriptGen TranscriptGenProofs KeySchedGen KeySchedGenProofs.
Import ListNotations.
Local Open Scope N_scope.

Theorem C13_label_encoding : forall len label ctx,
  N.of_nat len < 65536 -> label_bytes len label ctx = kdf_label len label ctx.
Proof. exact label_ok. Qed.

Theorem C13_key_schedule : forall H, N.of_nat (h_len H) < 65536 -> forall init commit ctx psk,
  let r := from_key_schedule H init commit ctx psk in
  let e := rfc_epoch H init commit ctx psk in
  d_joiner r = joiner_secret H init commit ctx
  /\ es_resumption (d_epoch r) = derive_secret H e L_resumption
  /\ es_sender_data (d_epoch r) = derive_secret H e L_sender_data
  /\ es_encryption (d_epoch r) = derive_secret H e L_encryption
  /\ ks_exporter (d_ks r) = derive_secret H e L_exporter
  /\ ks_authentication (d_ks r) = derive_secret H e L_authentication
  /\ ks_external (d_ks r) = derive_secret H e L_external
  /\ ks_membership (d_ks r) = derive_secret H e L_membership
  /\ ks_init (d_ks r) = derive_secret H e L_init
  /\ d_confirm r = derive_secret H e L_confirm.
Proof. exact key_schedule_ok. Qed.

Theorem C13_welcome_secret : forall H, N.of_nat (h_len H) < 65536 -> forall joiner psk,
  get_welcome_secret H joiner psk = welcome_secret H joiner psk.
Proof. exact welcome_secret_ok. Qed.

Theorem C13_exporter : forall H, N.of_nat (h_len H) < 65536 -> forall exporter label context len,
  N.of_nat len < 65536 ->
  export_secret H exporter label context len = mls_exporter H exporter label context len.
Proof. exact exporter_ok. Qed.

Theorem C13_psk_secret : forall H, N.of_nat (h_len H) < 65536 -> forall input,
  psk_calculate H input = psk_secret H input.
Proof. exact psk_secret_ok. Qed.

(* secret tree: whatever was consumed before, a leaf secret handed out is the RFC one *)
Theorem C13_secret_tree_new : forall H, N.of_nat (h_len H) < 65536 -> forall d enc, d <= 30 -> forall m,
  tree_new (2 ^ d) enc = Ok m -> good H d enc m.
Proof. exact good_new. Qed.

Theorem C13_secret_tree_leaf : forall H, N.of_nat (h_len H) < 65536 -> forall d enc, d <= 30 ->
  forall m l o m', good H d enc m -> l < 2 ^ d -> take_leaf H m (node 0 l) (2 ^ d) = Ok (o, m') ->
  good H d enc m' /\ (forall s, o = Some (TSecret s) -> s = leaf_secret H (N.to_nat d) l enc).
Proof. exact take_leaf_ok. Qed.

Theorem C13_ratchet_key : forall H, N.of_nat (h_len H) < 65536 ->
  forall nk nn leaf_sec hs g r k r',
  N.of_nat nk < 65536 -> N.of_nat nn < 65536 -> N.of_nat g + 1 < 2 ^ 32 ->
  iter_next H nk nn g (ratchet_new H leaf_sec hs) = Ok r ->
  next_message_key H nk nn r = Ok (k, r') ->
  let s := ratchet_secret_at H g 0 (ratchet_init H leaf_sec hs) in
  k = (N.of_nat g, (ratchet_nonce H s (N.of_nat g) nn, ratchet_key H s (N.of_nat g) nk)).
Proof. exact ratchet_key_ok. Qed.

(* the (id, value) list that enters the PSK chain: PskResolver::resolve as translated from
   psk/resolver.rs resolves the ids of the commit / Welcome one by one IN THEIR ORDER *)
Theorem C13_translated_resolver_keeps_the_order : forall h l vs,
  gen_resolve_all h (model_repo h) l = Some vs -> Forall2 (fun p v => gen_resolve_one h (model_repo h) p = Some v) l vs.
Proof. exact translated_resolver_in_order. Qed.

(* the inputs of the two transcript hashes, TRANSLATED from group/transcript_hash.rs on every run
   (fields of the input structs, what each is initialised from, order of concatenation), are the
   RFC 9420 8.2 inputs the byte-for-byte comparison uses *)
Theorem C13_translated_confirmed_transcript_input : forall H interim_prev wf fc sig,
  confirmed_transcript_hash H interim_prev (wf ++ fc ++ sig) =
  h_fun H (gen_confirmed_hash_input interim_prev (gen_confirmed_input wf fc sig)).
Proof. exact translated_confirmed_hash. Qed.

Theorem C13_translated_interim_transcript_input : forall H confirmed tag,
  interim_transcript_hash H confirmed tag =
  h_fun H (gen_interim_hash_input confirmed (gen_interim_input (vbytes tag))).
Proof. exact translated_interim_hash. Qed.

Theorem C13_compared_transcript_input_is_the_translated_one : forall ac inp tag,
  cth_input ac = Some (inp, tag) ->
  exists wf fc auth sig rest a b c,
    decode T_AuthenticatedContent None ac = DOk (VCons wf (VCons fc auth), rest) /\
    encode T_WireFormat wf = Some a /\ encode T_FramedContent fc = Some b /\ encode T_MessageSignature sig = Some c /\
    inp = gen_confirmed_input a b c.
Proof. exact cth_input_is_translated. Qed.

(* the KDF dataflow TRANSLATED from group/key_schedule.rs and psk/secret.rs on every run (every let of
   from_key_schedule / from_joiner / from_epoch_secret with its label per field, get_pre_epoch_secret,
   get_welcome_secret, export_secret, the body of the loop of PskSecret::calculate: argument order of
   kdf_extract, labels, contexts, lengths) is the code-shaped model that the theorems above prove equal to
   the RFC formulas *)
Theorem C13_translated_key_schedule_is_the_code_model : forall H last_init commit ctx psk joiner input e l c n,
  gen_from_key_schedule H last_init commit ctx psk = from_key_schedule H last_init commit ctx psk /\
  gen_from_joiner H joiner ctx psk = from_joiner H joiner ctx psk /\
  gen_get_welcome_secret H joiner psk = get_welcome_secret H joiner psk /\
  gen_export_secret H e l c n = export_secret H e l c n /\
  gen_psk_calculate H input = psk_calculate H input.
Proof. exact translated_key_schedule. Qed.

Theorem C13_translated_secret_tree_dataflow_is_the_code_model : forall H s leaf_sec hs nk nn r,
  gen_consume_children H s = (kdf_expand_with_label H s L_tree C_left None, kdf_expand_with_label H s L_tree C_right None) /\
  gen_ratchet_new H leaf_sec hs = ratchet_new H leaf_sec hs /\
  gen_next_message_key H nk nn r = next_message_key H nk nn r.
Proof. exact translated_secret_tree. Qed.

Print Assumptions C13_label_encoding.
Print Assumptions C13_key_schedule.
Print Assumptions C13_welcome_secret.
Print Assumptions C13_exporter.
Print Assumptions C13_psk_secret.
Print Assumptions C13_secret_tree_new.
Print Assumptions C13_secret_tree_leaf.
Print Assumptions C13_ratchet_key.
Print Assumptions C13_translated_resolver_keeps_the_order.
Print Assumptions C13_translated_confirmed_transcript_input.
Print Assumptions C13_translated_interim_transcript_input.
Print Assumptions C13_compared_transcript_input_is_the_translated_one.
Print Assumptions C13_translated_key_schedule_is_the_code_model.
Print Assumptions C13_translated_secret_tree_dataflow_is_the_code_model.
