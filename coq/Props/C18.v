(* C18 - A PSK commit binds the new epoch to knowledge of the PSK.

   Model/PskIdeal.v: the RFC 9420 8.4 PSK chain and the epoch secret over ABSTRACT KDF
   functions, and the resolution of PSK ids by a member (psk/resolver.rs, state_repo.rs).
   With collision-free KDFs that never return the all-zero start value (hypotheses of the
   theorems - the usual random-oracle idealisation; they are not axioms), for PSK lists of
   any length below 2^16:
     - the PSK secret determines the whole list: every value, every id (which contains the
       nonce), and the order;
     - hence the epoch secret - and with it every secret of the new epoch - differs as soon as
       one value, id, nonce or the order differs (also: joiner secret and group context);
     - the chain of Model/KeyScheduleRFC.v, which ./check C13 compares byte for byte with the
       library, is this chain instantiated with HKDF.
   Resolution: a member that cannot resolve one id of the list resolves nothing (it cannot
   enter the epoch); a resumption PSK of another group comes from storage only, never from the
   unwritten epochs of the current group.
   ./check C18 runs commits with external and resumption PSKs against members whose stores
   hold the right value, another value or nothing, whose retention does or does not reach the
   referenced epoch, and compares acceptance with the resolution model evaluated in Coq.
   The resolver and the repository lookup behind it are also TRANSLATED from psk/resolver.rs and
   group/state_repo.rs on every run (Gen/ResumeGen.v) and proved equal to the resolution model:
   the resolver for every holder, the repository lookup for every repository that keeps its
   books (repo_wf: consecutive inserts, every written epoch of the own group older than the
   first insert - checked on every storage write ./check C18 observes).
   Statements only. *)
From Coq Require Import NArith List Bool.
From MlsV Require Import KeyScheduleRFC Hkdf PskIdeal PskProofs ResumeGen ResumeGenProofs.
Import ListNotations.
Local Open Scope N_scope.

Theorem C18_psk_secret_determines_the_list :
  forall (ext xpl xpe : list N -> list N -> list N) (zero : list N),
  (forall a b c d, ext a b = ext c d -> a = c /\ b = d) ->
  (forall a b c d, xpl a b = xpl c d -> a = c /\ b = d) ->
  (forall a b c d, xpe a b = xpe c d -> a = c /\ b = d) ->
  (forall a b, ext a b <> zero) ->
  forall l1 l2, N.of_nat (length l1) < 65536 -> N.of_nat (length l2) < 65536 ->
  psk_secret_ideal ext xpl zero l1 = psk_secret_ideal ext xpl zero l2 -> l1 = l2.
Proof. exact psk_secret_determines_the_list. Qed.

Theorem C18_epoch_secret_binds_the_psks :
  forall (ext xpl xpe : list N -> list N -> list N) (zero : list N),
  (forall a b c d, ext a b = ext c d -> a = c /\ b = d) ->
  (forall a b c d, xpl a b = xpl c d -> a = c /\ b = d) ->
  (forall a b c d, xpe a b = xpe c d -> a = c /\ b = d) ->
  (forall a b, ext a b <> zero) ->
  forall joiner1 joiner2 l1 l2 ctx1 ctx2, N.of_nat (length l1) < 65536 -> N.of_nat (length l2) < 65536 ->
  epoch_secret_ideal ext xpl zero xpe joiner1 l1 ctx1 = epoch_secret_ideal ext xpl zero xpe joiner2 l2 ctx2 ->
  l1 = l2 /\ joiner1 = joiner2 /\ ctx1 = ctx2.
Proof. exact epoch_secret_binds_the_psks. Qed.

Theorem C18_rfc_chain_is_the_ideal_chain_over_hkdf : forall H psks i c acc,
  psk_chain H psks i c acc =
  chain (hkdf_extract H) (fun s lc => expand_with_label H s (ascii [100;101;114;105;118;101;100;32;112;115;107]) lc (h_len H))
        (repeat 0 (h_len H)) psks i c acc.
Proof. exact rfc_chain_is_chain. Qed.

Theorem C18_lacking_one_psk_resolves_nothing : forall h l p,
  In p l -> resolve h p = None -> resolve_all h l = None.
Proof. exact resolve_all_none. Qed.

Theorem C18_foreign_resumption_psk_from_storage_only : forall h gid epoch,
  gid <> h_gid h ->
  resolve h (PResumption gid epoch) =
    match find (fun x => (fst (fst x) =? gid) && (snd (fst x) =? epoch)) (h_stored h) with Some x => Some (snd x) | None => None end.
Proof. exact foreign_resumption_from_storage_only. Qed.

Theorem C18_translated_resolver_is_the_model : forall h p l,
  gen_resolve_one h (model_repo h) p = resolve h p /\ gen_resolve_all h (model_repo h) l = resolve_all h l.
Proof. exact translated_resolver. Qed.

Theorem C18_translated_repository_lookup_is_the_model : forall r cur_epoch cur ext gid epoch,
  repo_wf r = true ->
  gen_repo_resumption r gid epoch = model_repo (holder_of r cur_epoch cur ext) gid epoch.
Proof. exact gen_repo_resumption_is_model. Qed.

Theorem C18_translated_resolver_over_translated_repository : forall r cur_epoch cur ext p,
  repo_wf r = true ->
  gen_resolve_one (holder_of r cur_epoch cur ext) (gen_repo_resumption r) p = resolve (holder_of r cur_epoch cur ext) p.
Proof. exact gen_resolver_over_gen_repository. Qed.

Example C18_repository_bookkeeping_is_satisfiable :
  repo_wf {| r_gid := 1; r_inserts := [(5, 50); (6, 60)]; r_updates := [(3, 30)]; r_stored := [(1, 2, 20); (1, 3, 31); (2, 9, 90)] |} = true.
Proof. exact repo_wf_nontrivial. Qed.

Print Assumptions C18_psk_secret_determines_the_list.
Print Assumptions C18_epoch_secret_binds_the_psks.
Print Assumptions C18_rfc_chain_is_the_ideal_chain_over_hkdf.
Print Assumptions C18_lacking_one_psk_resolves_nothing.
Print Assumptions C18_foreign_resumption_psk_from_storage_only.
Print Assumptions C18_translated_resolver_is_the_model.
Print Assumptions C18_translated_repository_lookup_is_the_model.
Print Assumptions C18_translated_resolver_over_translated_repository.
