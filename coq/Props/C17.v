(* C17 - Re-init and branch keep the membership rules and the link to the old group.

   Model/Subgroup.v: check_that_subgroup_is_a_subset over the tree model (members = identities
   of the occupied leaves) and the parameter checks of ResumptionGroupBuilder::join.
   Proved for every pair of trees: a re-initialized group is accepted exactly when it has the
   same members as the old group, a branch exactly when its members are among the old ones,
   independently of blank leaves; the rule as it was before the repair (number of tree nodes)
   refuses a legitimate re-init (witness).  That the group is frozen once a re-init is
   committed is C11_frozen_after_reinit; that the successor is bound to the old group's
   resumption secret is the PSK theorem of C18.  ./check C17 runs successor / branch
   creation and joining for equal, smaller, larger and replaced member sets on trees with
   blank leaves and compares every verdict with this model evaluated in Coq.
   Statements only. *)
From Coq Require Import NArith List Bool.
From MlsV Require Import Tree Subgroup SubgroupProofs.
Import ListNotations.
Local Open Scope N_scope.

Theorem C17_reinit_iff_same_members : forall old_tree new_tree,
  NoDup (members_of old_tree) -> NoDup (members_of new_tree) ->
  (subgroup_ok Reinit old_tree new_tree = true <->
   (forall id, In id (members_of new_tree) <-> In id (members_of old_tree))).
Proof. exact reinit_iff_same_members. Qed.

Theorem C17_branch_iff_subset : forall old_tree new_tree,
  subgroup_ok Branch old_tree new_tree = true <-> incl (members_of new_tree) (members_of old_tree).
Proof. exact branch_iff_subset. Qed.

Theorem C17_blank_leaves_do_not_matter : forall t k b, members_from (t ++ repeat None k) b = members_from t b.
Proof. exact members_from_blank_app. Qed.

Theorem C17_join_parameters : forall typ e g,
  join_params_ok typ e g = true <->
  pr_version g = pr_version e /\ pr_suite g = pr_suite e /\ (typ = Reinit -> pr_gid g = pr_gid e) /\ pr_ext g = pr_ext e /\ pr_epoch g = 1.
Proof. exact join_params_iff. Qed.

Example C17_node_count_rule_refuted :
  let old_tree := [Some (Leaf 1); None; None; None; Some (Leaf 3)] in
  let new_tree := [Some (Leaf 1); None; Some (Leaf 3)] in
  members_of old_tree = members_of new_tree /\ subgroup_ok_old Reinit old_tree new_tree = false /\ subgroup_ok Reinit old_tree new_tree = true.
Proof. exact old_rule_refuted. Qed.

Print Assumptions C17_reinit_iff_same_members.
Print Assumptions C17_branch_iff_subset.
Print Assumptions C17_blank_leaves_do_not_matter.
Print Assumptions C17_join_parameters.
