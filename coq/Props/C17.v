(* C17 - Re-init and branch keep the membership rules and the link to the old group.

   Model/Subgroup.v: check_that_subgroup_is_a_subset over the tree model (members = identities
   of the occupied leaves) and the parameter checks of ResumptionGroupBuilder::join.
   Proved for every pair of trees: a re-initialized group is accepted exactly when it has the
   same members as the old group, a branch exactly when its members are among the old ones,
   independently of blank leaves; the rule as it was before the repair (number of tree nodes)
   refuses a legitimate re-init (witness).  That the group is frozen once a re-init is
   committed is C11_frozen_after_reinit; that the successor is bound to the old group's
   resumption secret is the PSK theorem of C18.  ./check C17 runs successor / branch
   creation and joining for equal, smaller, larger and replaced member sets on trees with
   blank leaves and compares every verdict with this model evaluated in Coq.
   The membership rule, the parameter checks, the id under which the joiner holds the old
   group's resumption secret and the joiner's treatment of the Welcome's PSK list are also
   TRANSLATED from group/resumption.rs and Group::psk_secret on every run (Gen/ResumeGen.v) and
   proved equal to the models; on the model: the joiner feeds ITS OWN id for the old group into
   the PSK chain and takes only the nonce from the Welcome, and refuses a Welcome whose first
   PSK is not a re-init / branch resumption PSK (with C18's binding theorem: a Welcome made
   under any other id, epoch, group or secret gives another PSK secret).
   Statements only. *)
From Coq Require Import NArith List Bool.
From MlsV Require Import Tree Subgroup SubgroupProofs ResumeGen ResumeGenProofs.
Import ListNotations.
Local Open Scope N_scope.

Theorem C17_reinit_iff_same_members : forall old_tree new_tree,
  NoDup (members_of old_tree) -> NoDup (members_of new_tree) ->
  (subgroup_ok Reinit old_tree new_tree = true <->
   (forall id, In id (members_of new_tree) <-> In id (members_of old_tree))).
Proof. exact reinit_iff_same_members. Qed.

Theorem C17_branch_iff_subset : forall old_tree new_tree,
  subgroup_ok Branch old_tree new_tree = true <-> incl (members_of new_tree) (members_of old_tree).
Proof. exact branch_iff_subset. Qed.

Theorem C17_blank_leaves_do_not_matter : forall t k b, members_from (t ++ repeat None k) b = members_from t b.
Proof. exact members_from_blank_app. Qed.

Theorem C17_join_parameters : forall typ e g,
  join_params_ok typ e g = true <->
  pr_version g = pr_version e /\ pr_suite g = pr_suite e /\ (typ = Reinit -> pr_gid g = pr_gid e) /\ pr_ext g = pr_ext e /\ pr_epoch g = 1.
Proof. exact join_params_iff. Qed.

Example C17_node_count_rule_refuted :
  let old_tree := [Some (Leaf 1); None; None; None; Some (Leaf 3)] in
  let new_tree := [Some (Leaf 1); None; Some (Leaf 3)] in
  members_of old_tree = members_of new_tree /\ subgroup_ok_old Reinit old_tree new_tree = false /\ subgroup_ok Reinit old_tree new_tree = true.
Proof. exact old_rule_refuted. Qed.

Theorem C17_translated_membership_rule_is_the_model : forall typ old_tree new_tree,
  gen_subgroup_ok typ (members_of old_tree) (members_of new_tree) = subgroup_ok typ old_tree new_tree.
Proof. exact gen_subgroup_ok_is_model. Qed.

Theorem C17_translated_join_parameters_are_the_model : forall typ e g,
  gen_join_params (gen_verify_gid typ) e g = join_params_ok typ e g.
Proof. exact gen_join_params_is_model. Qed.

Theorem C17_translated_joiner_psk_is_the_model : forall typ gid epoch psks additional,
  gen_expected_id typ gid epoch = expected_id typ gid epoch /\ gen_joiner_psk psks additional = joiner_psk psks additional.
Proof. exact translated_joiner_psk. Qed.

Theorem C17_joiner_injects_its_own_id : forall psks mine id nonce,
  joiner_psk psks (Some mine) = JInject id nonce ->
  id = mine /\
  exists first rest u gid epoch,
    psks = first :: rest /\ nonce = w_nonce first /\ w_id first = JResumption u gid epoch /\ u <> UApplication.
Proof. exact joiner_psk_inject. Qed.

Theorem C17_joiner_refuses_other_first_psk : forall psks mine,
  psks = [] \/
  (exists first rest x, psks = first :: rest /\ w_id first = JExternal x) \/
  (exists first rest gid epoch, psks = first :: rest /\ w_id first = JResumption UApplication gid epoch) ->
  joiner_psk psks (Some mine) = JUnexpected.
Proof. exact joiner_psk_refuses. Qed.

Print Assumptions C17_reinit_iff_same_members.
Print Assumptions C17_branch_iff_subset.
Print Assumptions C17_blank_leaves_do_not_matter.
Print Assumptions C17_join_parameters.
Print Assumptions C17_translated_membership_rule_is_the_model.
Print Assumptions C17_translated_join_parameters_are_the_model.
Print Assumptions C17_translated_joiner_psk_is_the_model.
Print Assumptions C17_joiner_injects_its_own_id.
Print Assumptions C17_joiner_refuses_other_first_psk.
