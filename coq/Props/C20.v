(* C20 - Tree index arithmetic equals the RFC 9420 array-tree definitions for every size.

   The functions below (root, left_unchecked, ..., subtree, LeafIndex_try_from) are the
   ones of Gen/TreeMathGen.v, i.e. the Gallina image of mls-rs/src/tree_kem/{math,node}.rs
   REGENERATED from /repo on every run.  The reference is the complete binary tree with
   n = 2^d leaves in in-order numbering: the j-th node of level k (j < 2^(d-k)) has index
   [node k j = (2j+1)*2^k - 1]; its children are nodes 2j and 2j+1 of level k-1, its
   parent is node j/2 of level k+1, its sibling is node [sib j] of level k, leaf a lies
   below it iff a / 2^k = j, the root is node 0 of level d, and the tree has exactly the
   indices 0 .. 2n-2.  Everything is proved for every d <= 30 (the library caps trees at
   2^24 leaves), every level and every position - no bound on the size explored.

   This file contains statements only; each is closed by [exact lemma]. *)
From Coq Require Import NArith List.
From MlsV Require Import Res TreeMathGen TreeMathProofs.
Import ListNotations.
Local Open Scope N_scope.

Theorem C20_root : forall d, d <= 31 -> root (2 ^ d) = Ok (node d 0).
Proof. exact root_ok. Qed.

Theorem C20_left : forall k j, k <= 30 -> left_unchecked (node (k + 1) j) = Ok (node k (2 * j)).
Proof. exact left_ok. Qed.

Theorem C20_right : forall k j, k <= 29 -> right_unchecked (node (k + 1) j) = Ok (node k (2 * j + 1)).
Proof. exact right_ok. Qed.

Theorem C20_parent_sibling : forall d k j,
  d <= 30 -> k < d -> j < 2 ^ (d - k) ->
  parent_sibling (node k j) (2 ^ d)
  = Ok (Some (mkParentSibling (node (k + 1) (j / 2)) (node k (sib j)))).
Proof. exact parent_sibling_ok. Qed.

Theorem C20_parent_of_root : forall d, d <= 31 -> parent_sibling (node d 0) (2 ^ d) = Ok None.
Proof. exact parent_sibling_root. Qed.

(* indices outside the tree are reported as such, for every x *)
Theorem C20_is_in_tree : forall d x, d <= 30 -> is_in_tree x (2 ^ d - 1) = Ok (x <=? 2 ^ (d + 1) - 2).
Proof. exact is_in_tree_ok. Qed.

Theorem C20_every_index_is_a_node : forall x, exists k j, x = node k j.
Proof. exact node_decomp. Qed.

Theorem C20_tree_nodes : forall d k j, node k j <= 2 ^ (d + 1) - 2 <-> (k <= d /\ j < 2 ^ (d - k)).
Proof. exact in_tree_iff. Qed.

Theorem C20_direct_copath : forall d k j,
  d <= 30 -> k <= d -> j < 2 ^ (d - k) ->
  direct_copath (node k j) (2 ^ d) = Ok (path_spec (N.to_nat (d - k)) k j).
Proof. exact direct_copath_ok. Qed.

Theorem C20_direct_copath_outside : forall d x,
  d <= 30 -> 2 ^ (d + 1) - 2 < x -> direct_copath x (2 ^ d) = Ok [].
Proof. exact direct_copath_outside. Qed.

Theorem C20_lca_level : forall x y, x < 2 ^ 32 -> y < 2 ^ 32 ->
  exists k, leaf_lca_level x y = Ok k /\ lca_level_spec x y k.
Proof. exact lca_ok. Qed.

Theorem C20_subtree : forall k j, k <= 30 -> node k j + 2 ^ k < 2 ^ 32 ->
  subtree (node k j) = Ok (mkSubTree (j * 2 ^ k) ((j + 1) * 2 ^ k)).
Proof. exact subtree_ok. Qed.

Theorem C20_leaf_under_node : forall k j a, j * 2 ^ k <= a < (j + 1) * 2 ^ k <-> a / 2 ^ k = j.
Proof. exact leaf_range_iff. Qed.

Theorem C20_leaf_index_bound : forall v,
  LeafIndex_try_from v = Ok (if v <=? 2 ^ 24 - 1 then Some v else None).
Proof. exact leaf_index_try_from_ok. Qed.

(* non-vacuity: concrete instances, evaluated *)
Example C20_ex_parent : parent_sibling 9 8 = Ok (Some (mkParentSibling 11 13)).
Proof. vm_compute. reflexivity. Qed.
Example C20_ex_path : direct_copath 4 8
  = Ok [mkCopathNode 5 6; mkCopathNode 3 1; mkCopathNode 7 11].
Proof. vm_compute. reflexivity. Qed.
Example C20_ex_node : node 1 2 = 9 /\ node 2 1 = 11 /\ sib 2 = 3 /\ node 1 3 = 13.
Proof. vm_compute. repeat split. Qed.

Print Assumptions C20_root.
Print Assumptions C20_left.
Print Assumptions C20_right.
Print Assumptions C20_parent_sibling.
Print Assumptions C20_parent_of_root.
Print Assumptions C20_is_in_tree.
Print Assumptions C20_every_index_is_a_node.
Print Assumptions C20_tree_nodes.
Print Assumptions C20_direct_copath.
Print Assumptions C20_direct_copath_outside.
Print Assumptions C20_lca_level.
Print Assumptions C20_subtree.
Print Assumptions C20_leaf_under_node.
Print Assumptions C20_leaf_index_bound.
