(* C10 - Committer-side and receiver-side proposal validation agree.

   Model/Filter.v: the rules of apply_proposals_from_member (sender/type table, update or
   removal of the committer, PSK type / nonce / duplicates / presence, group-context-extension
   validity and uniqueness, re-init version and exclusivity, external init, custom proposals,
   new-node validation) and the three conflict passes of batch_edit (removes last-to-first,
   updates, adds), each with the two strategies of the code: IgnoreByRef (committer: drop an
   offending by-reference proposal, fail on an offending by-value one) and IgnoreNone
   (receiver: fail on any offender).  Every stage is shown to be `lawful`: its result is a
   sublist that passes the stage, passing is closed under taking sublists (all but the last
   stage), a passing list is returned unchanged under both strategies.  From these laws, for
   EVERY context and EVERY list of proposals:
     - whatever the committer's filter keeps is accepted unchanged by a receiver
       (no commit that the library lets a member build is refused for a rule violation);
     - a receiver never drops a proposal: it applies the whole list or fails;
     - what the committer drops came in by reference.
   The tie is ./check C10: random multisets of valid and invalid proposals by reference and by
   value, every committer; applied / unused / failure of the library against this model
   evaluated in Coq, and every other member accepts the commit and reports the same lists.
   Statements only. *)
From Coq Require Import NArith List Bool.
From MlsV Require Import Filter FilterCases FilterProofs PathReqGen PathReqProofs ReinitGen ReinitGenProofs.
Import ListNotations.
Local Open Scope N_scope.

Theorem C10_committer_and_receiver_agree : forall g l k,
  pipeline g IgnoreByRef l = Some k -> pipeline g IgnoreNone k = Some k /\ sub k l.
Proof. exact committer_and_receiver_agree. Qed.

Theorem C10_receiver_applies_all_or_nothing : forall g l k, pipeline g IgnoreNone l = Some k -> k = l.
Proof. exact receiver_applies_all_or_nothing. Qed.

Theorem C10_only_by_reference_proposals_are_dropped : forall l l',
  retain IgnoreByRef l = Some l' -> forall p ok, In (p, ok) l -> ~ In p l' -> p_by_ref p = true.
Proof. exact retain_drops_by_ref. Qed.

Theorem C10_every_stage_is_lawful : forall g, Forall lawful (stages g) /\ lawful_last (st_adds g).
Proof. exact all_stages_lawful. Qed.

(* path_update_required as read by the translator from proposal_filter.rs (regenerated on every
   run) is the model's rule: an update path is required iff the list is empty or holds an
   Update, Remove, ExternalInit or GroupContextExtensions proposal, or a custom proposal that the
   application's rules flag *)
Theorem C10_translated_path_rule_is_the_model : forall cust l,
  gen_path_required (bundle_of cust l) = cust || needs_path l.
Proof. exact gen_path_required_is_model. Qed.

(* non-vacuity: committer 0; an update of leaf 2 twice, a removal of the committer, a removal of
   leaf 1 by reference and an add by value: the committer keeps the first update, the removal of
   leaf 1 and the add; a receiver accepts exactly that list *)
Example C10_ex :
  let g := {| committer := 0; leaves := [(0, 10); (1, 11); (2, 12)] |} in
  let l := [mk 1 (BUpdate true) (SMember 2) true; mk 2 (BUpdate true) (SMember 2) true;
            mk 3 (BRemove 0) (SMember 1) true; mk 4 (BRemove 1) (SMember 2) true; mk 5 (BAdd 13 true) (SMember 0) false] in
  map p_tag (match pipeline g IgnoreByRef l with Some k => k | None => [] end) = [1; 4; 5]
  /\ pipeline g IgnoreNone l = None.
Proof. vm_compute. split; reflexivity. Qed.

(* "a re-init travels alone", TRANSLATED from proposal_filter/bundle.rs (ProposalBundle::length: the sum over
   every kind of proposal) and filtering.rs (filter_out_reinit_if_other_proposals: the decision on the
   counts) on every run: the sum counts every proposal of the list exactly once, and the decision is the
   re-init stage of the filter model, for both strategies *)
Theorem C10_translated_bundle_length_counts_every_proposal : forall l, gen_bundle_length (counts_of l) = length l.
Proof. exact gen_bundle_length_counts_every_proposal. Qed.

Theorem C10_translated_reinit_rule_is_the_model : forall st l,
  stage_reinit st l =
  apply_reinit_verdict
    (gen_reinit_rule (match st with IgnoreByRef => true | IgnoreNone => false end)
                     (existsb (fun p => negb (p_by_ref p)) (filter is_reinit l))
                     (gen_bundle_length (counts_of l)) (n_reinit (counts_of l))) l.
Proof. exact gen_reinit_rule_is_model. Qed.

Print Assumptions C10_committer_and_receiver_agree.
Print Assumptions C10_receiver_applies_all_or_nothing.
Print Assumptions C10_only_by_reference_proposals_are_dropped.
Print Assumptions C10_every_stage_is_lawful.
Print Assumptions C10_translated_path_rule_is_the_model.
Print Assumptions C10_translated_bundle_length_counts_every_proposal.
Print Assumptions C10_translated_reinit_rule_is_the_model.
