(* C01 - All members that process the same commits reach the same epoch state.

   Proved here:
    - TreeKEM secret agreement (Model/KemSecrets.v, from encap / decap / PathSecretGenerator):
      for EVERY filter list, whoever enters the committer's chain of path secrets at a
      non-filtered position with the secret of that position reproduces the rest of the chain
      and ends in the committer's commit secret; so all receivers, at every distance from the
      committer, agree with the committer and with each other; non-filtered positions carry a
      secret, filtered ones none;
    - proposal agreement: what the committer's filter keeps is applied unchanged by every
      receiver (C10's theorem, restated);
    - the epoch advances by exactly one commit per accepted commit and never otherwise
      (C11's theorems, restated).
   With these, equal inputs of the key schedule (init secret of the old epoch, commit secret,
   PSK secret, new group context) - a function, compared byte for byte with RFC 9420 in C13 -
   give equal epoch secrets.
    - decryption side (Model/Decap.v, from decap / find_resolved_pos / find_ciphertext_pos and
      a structural specification of resolutions proved equal to the stack algorithm of
      get_resolution_index): for EVERY tree, receiver and exclusion list, the receiver's
      position in the committer's path is never filtered; whatever ciphertext position decap
      selects, the committer sealed that ciphertext to a node whose key the receiver holds
      (PrivOK, C09); and a member always finds a ciphertext, PROVIDED it holds the key of its
      first non-blank node below the common ancestor or is listed there as unmerged leaf.
   That proviso is the completeness invariant of C09 (Complete: proved preserved for members,
   receivers, the committer and joiners over the tree model), restated below as
   C01_member_with_complete_private_state_finds_its_ciphertext.  NOT proved: the end-to-end
   composition into one 'all members agree' theorem over a single group model (the pieces are
   separate models tied to the code one by one; ./check C01 and C09 exercise the whole, with
   directed histories in which adds land in holes below re-keyed parents); ./check C01 exercises
   this on the implementation: random histories with every operation kind, three providers
   mixed in one group, several cipher suites and commit options; after every commit all
   members are compared on context, tree, authenticator, exported secrets, and every member
   decrypts what every other member sends.
   Statements only. *)
From Coq Require Import NArith List Bool.
From MlsV Require Import Res TreeMathGen Tree Kem Priv PrivProofs Decap DecapProofs KemGen KemGenProofs TreeProofs TreeWF5 PrivComplete Agreement KemSecrets KemSecretsProofs Filter FilterProofs Pending PendingProofs NodeVecGen NodeVecGenProofs CommitStep Hkdf KeyScheduleCode KeySchedGen EpochAgreement.
Local Open Scope N_scope.
Import ListNotations.

Theorem C01_receivers_reach_the_committers_commit_secret :
  forall (sec : Type) (derive : sec -> sec) flt r i s,
  nth i flt true = false ->
  secret_at sec (fst (committer_chain sec derive flt r)) i = Some s ->
  receiver_chain sec derive (skipn i flt) s =
    (skipn i (fst (committer_chain sec derive flt r)), snd (committer_chain sec derive flt r)).
Proof. exact receiver_reaches_commit_secret. Qed.

Theorem C01_receivers_agree_with_each_other :
  forall (sec : Type) (derive : sec -> sec) flt r i j si sj,
  nth i flt true = false -> nth j flt true = false ->
  secret_at sec (fst (committer_chain sec derive flt r)) i = Some si ->
  secret_at sec (fst (committer_chain sec derive flt r)) j = Some sj ->
  snd (receiver_chain sec derive (skipn i flt) si) = snd (receiver_chain sec derive (skipn j flt) sj).
Proof. exact receivers_agree. Qed.

Theorem C01_secrets_exactly_at_non_filtered_positions :
  forall (sec : Type) (derive : sec -> sec) flt r i, (i < length flt)%nat ->
  (nth i flt true = false <-> exists s, secret_at sec (fst (committer_chain sec derive flt r)) i = Some s).
Proof. exact committer_chain_shape. Qed.

Theorem C01_receivers_apply_what_the_committer_kept : forall g l k,
  pipeline g IgnoreByRef l = Some k -> pipeline g IgnoreNone k = Some k /\ sub k l.
Proof. exact committer_and_receiver_agree. Qed.

Theorem C01_epoch_advances_by_at_most_one : forall s o,
  (epoch_of (snd (step s o)) = epoch_of s \/ epoch_of (snd (step s o)) = epoch_of s + 1)%N.
Proof. exact epoch_step. Qed.

Theorem C01_an_accepted_commit_appends_exactly_itself : forall s o,
  hist (snd (step s o)) = hist s \/ exists c, hist (snd (step s o)) = hist s ++ [c].
Proof. exact step_extends. Qed.

(* non-vacuity: path with levels 1..4, level 2 filtered; a receiver whose common ancestor is level 3 *)
Example C01_ex :
  let c := committer_chain (list nat) (fun s => 0%nat :: s) [false; true; false; false] [7%nat] in
  fst c = [Some [7%nat]; None; Some [0%nat; 7%nat]; Some [0%nat; 0%nat; 7%nat]]
  /\ receiver_chain (list nat) (fun s => 0%nat :: s) (skipn 2 [false; true; false; false]) [0%nat; 7%nat] = (skipn 2 (fst c), snd c).
Proof. vm_compute. split; reflexivity. Qed.

(* the node-vector operations behind every tree edit, TRANSLATED from tree_kem/node.rs on every run
   (Gen/NodeVecGen.v), are those of the tree model; batch_edit applies its phases in the model's order *)
Theorem C01_translated_node_vector_operations_are_the_model : forall t start index leaf,
  gen_next_empty_leaf t start = next_empty_leaf t start /\
  gen_insert_leaf t index leaf = insert_leaf t index leaf /\
  gen_trim t = trim t /\
  gen_total_leaf_count t = total_leaf_count t /\
  gen_batch_phases = batch_phases.
Proof. exact translated_node_vector. Qed.

(* ---- end to end, over one group model: in ANY state that satisfies the group invariant of C09 (hence in
   every state reachable by commits from a new group: C09_every_reachable_group_state_satisfies_the_invariant),
   for ANY commit with a path, every member that stays finds a ciphertext of the committer's update
   path sealed to a key it holds, opens the committer's path secret of its level and derives from it the
   committer's commit secret *)
Theorem C01_every_member_of_every_reachable_state_derives_the_commit_secret :
  forall (sec : Type) (derive : sec -> sec) g removes updates adds t1 added sndr id flt newleaf me pr pr1 L r idm,
    GInv g -> In (me, pr) (g_members g) ->
    tlen (g_tree g) + 2 * N.of_nat (length adds) < 2 ^ 25 ->
    batch_edit (g_tree g) removes updates adds = TOk (t1, added) ->
    let t1' := set t1 (2 * sndr) (Some (Leaf id)) in
    2 * sndr < tlen t1 -> filtered t1' sndr = Ok flt ->
    2 * me < tlen t1 -> get t1 (2 * me) = Some (Leaf idm) -> ~ In me added -> newleaf me = None ->
    provisional_priv t1 me pr None = Ok pr1 ->
    1 <= L -> me / 2 ^ L = sndr / 2 ^ L -> (forall k, k < L -> me / 2 ^ k <> sndr / 2 ^ k) ->
    (N.to_nat (L - 1) < length flt)%nat ->
    let k := N.to_nat (L - 1) in
    let ks1 := keys_after_proposals (g_keys g) t1 newleaf in
    exists s i key recips ct,
      secret_at sec (fst (committer_chain sec derive flt r)) k = Some s /\
      decap_select t1' me pr1 k added = Ok (Some (i, key)) /\
      sealed_to t1' (lvl_node (N.of_nat k) me) added = Ok recips /\
      nth_error (seal_to sec ks1 recips s) i = Some ct /\
      open_with sec key ct = Some s /\
      receiver_chain sec derive (skipn k flt) s =
        (skipn k (fst (committer_chain sec derive flt r)), snd (committer_chain sec derive flt r)).
Proof. exact every_receiver_derives_the_commit_secret. Qed.

(* ... and a member ADDED by the commit: the path secret in its Welcome (position L - 1 of the committer's
   list, C07_translated_welcome_bookkeeping_is_the_model) exists - that position is never filtered - and
   leads to the same commit secret *)
Theorem C01_every_joiner_derives_the_commit_secret :
  forall (sec : Type) (derive : sec -> sec) t1 sndr id me flt L r,
    shape_ok t1 -> small t1 -> 2 * sndr < tlen t1 -> me <> sndr -> get t1 (2 * me) <> None ->
    1 <= L -> me / 2 ^ L = sndr / 2 ^ L -> (forall k, k < L -> me / 2 ^ k <> sndr / 2 ^ k) ->
    let t1' := set t1 (2 * sndr) (Some (Leaf id)) in
    let k := N.to_nat (L - 1) in
    filtered t1' sndr = Ok flt -> (k < length flt)%nat ->
    exists s,
      secret_at sec (fst (committer_chain sec derive flt r)) k = Some s /\
      receiver_chain sec derive (skipn k flt) s =
        (skipn k (fst (committer_chain sec derive flt r)), snd (committer_chain sec derive flt r)).
Proof. exact every_joiner_derives_the_commit_secret. Qed.

Print Assumptions C01_receivers_reach_the_committers_commit_secret.
Print Assumptions C01_receivers_agree_with_each_other.
Print Assumptions C01_secrets_exactly_at_non_filtered_positions.
Print Assumptions C01_receivers_apply_what_the_committer_kept.
Print Assumptions C01_epoch_advances_by_at_most_one.
Print Assumptions C01_an_accepted_commit_appends_exactly_itself.

Theorem C01_receiver_position_is_never_filtered :
  forall t me k id,
  (k <= 29)%nat -> lvl_node (N.of_nat k) me < tlen t -> get t (2 * me) = Some (Leaf id) ->
  resolution_empty t (lvl_node (N.of_nat k) me) = Ok false.
Proof. exact receiver_position_not_filtered. Qed.
Print Assumptions C01_receiver_position_is_never_filtered.

Theorem C01_decap_opens_what_was_sealed_to_a_key_it_holds :
  forall ks t me pr k excl i key,
  PrivOK ks me pr ->
  decap_select t me pr k excl = Ok (Some (i, key)) ->
  exists recips x, sealed_to t (lvl_node (N.of_nat k) me) excl = Ok recips /\
                   nth_error recips i = Some x /\ ks x = Some key.
Proof. exact decap_select_sound. Qed.
Print Assumptions C01_decap_opens_what_was_sealed_to_a_key_it_holds.

Theorem C01_member_finds_its_ciphertext_partial :
  forall t me pr k excl id leafkey,
  (k <= 29)%nat -> lvl_node (N.of_nat k) me < tlen t ->
  get t (2 * me) = Some (Leaf id) -> ~ In me excl ->
  nth_error pr O = Some (Some leafkey) ->
  (let k' := down t me k in
   (exists key, nth_error pr k' = Some (Some key)) \/
   (exists um, get t (lvl_node (N.of_nat k') me) = Some (Par um) /\ In me um)) ->
  exists i key, decap_select t me pr k excl = Ok (Some (i, key)).
Proof. exact decap_select_complete. Qed.
Print Assumptions C01_member_finds_its_ciphertext_partial.

Theorem C01_stack_resolution_is_the_structural_resolution :
  forall t k j, (k <= 29)%nat -> TreeMathProofs.node (N.of_nat k) j < tlen t ->
  resolution_of t (TreeMathProofs.node (N.of_nat k) j) = Ok (reso_spec t k j).
Proof. exact resolution_of_spec. Qed.
Print Assumptions C01_stack_resolution_is_the_structural_resolution.

Theorem C01_member_with_complete_private_state_finds_its_ciphertext :
  forall t me pr k excl id leafkey,
  shape_ok t -> Complete t me pr ->
  (k <= 29)%nat -> lvl_node (N.of_nat k) me < tlen t ->
  get t (2 * me) = Some (Leaf id) -> ~ In me excl ->
  nth_error pr O = Some (Some leafkey) ->
  exists i key, decap_select t me pr k excl = Ok (Some (i, key)).
Proof. exact complete_decap_finds_ciphertext. Qed.
Print Assumptions C01_member_with_complete_private_state_finds_its_ciphertext.

(* the receiver-side selection the theorems above are about IS what the translator reads in
   tree_kem/kem.rs (find_ciphertext_pos, find_resolved_pos; regenerated on every run) *)
Theorem C01_translated_ciphertext_filter_is_the_model :
  forall excl idx, gen_keep excl idx = keep excl idx.
Proof. exact gen_keep_is_model. Qed.
Print Assumptions C01_translated_ciphertext_filter_is_the_model.

Theorem C01_translated_resolved_position_is_the_model :
  forall t me pr k, get t (2 * me) <> None ->
  gen_resolved_pos (blank_at t me) (nokey_at pr) k = Ok (resolved_pos t me pr k).
Proof. exact gen_resolved_pos_is_model. Qed.
Print Assumptions C01_translated_resolved_position_is_the_model.

(* end to end over the models: a receiver with a sound private state that finds a ciphertext
   (it always does when its state is complete, see above) opens the committer's path secret of
   its level and derives the committer's commit secret *)
Theorem C01_receiver_derives_the_commit_secret :
  forall (sec : Type) (derive : sec -> sec) ks t me pr k excl flt r i key s,
  PrivOK ks me pr ->
  decap_select t me pr k excl = Ok (Some (i, key)) ->
  nth k flt true = false ->
  secret_at sec (fst (committer_chain sec derive flt r)) k = Some s ->
  exists recips ct,
    sealed_to t (lvl_node (N.of_nat k) me) excl = Ok recips /\
    nth_error (seal_to sec ks recips s) i = Some ct /\
    open_with sec key ct = Some s /\
    receiver_chain sec derive (skipn k flt) s =
      (skipn k (fst (committer_chain sec derive flt r)), snd (committer_chain sec derive flt r)).
Proof. exact receiver_derives_the_commit_secret. Qed.
Print Assumptions C01_receiver_derives_the_commit_secret.

Theorem C01_receiver_level_is_unfiltered_in_the_committers_list :
  forall t sndr me k flt,
  shape_ok t -> small t -> 2 * sndr < tlen t -> get t (2 * me) <> None ->
  filtered t sndr = Ok flt -> me / 2 ^ N.of_nat k = TreeMathProofs.sib (sndr / 2 ^ N.of_nat k) ->
  (k < length flt)%nat -> nth k flt true = false.
Proof. exact receiver_level_unfiltered. Qed.
Print Assumptions C01_receiver_level_is_unfiltered_in_the_committers_list.
Print Assumptions C01_translated_node_vector_operations_are_the_model.
Print Assumptions C01_every_member_of_every_reachable_state_derives_the_commit_secret.
Print Assumptions C01_every_joiner_derives_the_commit_secret.

(* The epoch layer on top of the group model (Proofs/EpochAgreement.v): a state is what every member
   holds for the current epoch; a step is one accepted commit - with an update path (each receiver
   enters the committer's chain of path secrets at its own non-filtered level), without one (commit
   secret = zeros) or an external commit (init secret = HPKE export under the old epoch's external
   secret) - in which every member runs the key schedule AS TRANSLATED FROM THE CODE
   (gen_from_key_schedule; members added by the commit run gen_from_joiner on the committer's joiner
   secret).  In every state reachable from a new group any two members hold the same key schedule,
   confirmation key and epoch secrets. *)
Theorem C01_every_member_of_every_reachable_epoch_holds_the_same_epoch_secrets :
  forall (H : hash_alg) (derive : list N -> list N) (ext_init : list N -> list N -> list N) d0 ms a b,
    ereachable H derive ext_init [d0] ms -> In a ms -> In b ms ->
    d_ks a = d_ks b /\ d_confirm a = d_confirm b /\ d_epoch a = d_epoch b.
Proof. exact every_reachable_epoch_is_shared. Qed.
Print Assumptions C01_every_member_of_every_reachable_epoch_holds_the_same_epoch_secrets.

(* a member added through a Welcome reaches the epoch of the members: from_joiner on the joiner secret
   that from_key_schedule produced, same context, same PSK secret (two functions of the code that must
   stay in step) *)
Theorem C01_joiner_key_schedule_reaches_the_members_epoch :
  forall (H : hash_alg) init cs ctx psk,
    let d := gen_from_key_schedule H init cs ctx psk in
    let j := gen_from_joiner H (d_joiner d) ctx psk in
    d_ks j = d_ks d /\ d_confirm j = d_confirm d /\ d_epoch j = d_epoch d.
Proof. exact joiner_reaches_the_members_epoch. Qed.
Print Assumptions C01_joiner_key_schedule_reaches_the_members_epoch.

(* what the property lists follows from a shared epoch: epoch authenticator, exported secrets for any
   label / context / length, membership key, confirmation key, encryption / sender-data / resumption
   secrets, the next init secret and the external secret *)
Theorem C01_members_of_one_epoch_export_the_same_secrets :
  forall (H : hash_alg) a b,
    d_ks a = d_ks b /\ d_confirm a = d_confirm b /\ d_epoch a = d_epoch b ->
    ks_authentication (d_ks a) = ks_authentication (d_ks b) /\
    (forall label context len,
        gen_export_secret H (ks_exporter (d_ks a)) label context len = gen_export_secret H (ks_exporter (d_ks b)) label context len) /\
    ks_membership (d_ks a) = ks_membership (d_ks b) /\
    d_confirm a = d_confirm b /\
    es_encryption (d_epoch a) = es_encryption (d_epoch b) /\
    es_sender_data (d_epoch a) = es_sender_data (d_epoch b) /\
    es_resumption (d_epoch a) = es_resumption (d_epoch b) /\
    ks_init (d_ks a) = ks_init (d_ks b) /\ ks_external (d_ks a) = ks_external (d_ks b).
Proof. exact shared_epoch_gives_shared_outputs. Qed.
Print Assumptions C01_members_of_one_epoch_export_the_same_secrets.

(* ... and every member derives the same secret for every leaf of the secret tree (the code-shaped
   on-demand tree, whatever each member consumed before), hence the same message keys per sender and
   generation: each member can decrypt what any other member encrypts in that epoch *)
Theorem C01_members_of_one_epoch_derive_the_same_leaf_secrets :
  forall (H : hash_alg) a b,
    N.of_nat (h_len H) < 65536 ->
    d_ks a = d_ks b /\ d_confirm a = d_confirm b /\ d_epoch a = d_epoch b ->
    forall d l ma oa ma' mb ob mb' sa sb, d <= 30 -> l < 2 ^ d ->
      KeyScheduleProofs.good H d (es_encryption (d_epoch a)) ma -> KeyScheduleProofs.good H d (es_encryption (d_epoch b)) mb ->
      take_leaf H ma (TreeMathProofs.node 0 l) (2 ^ d) = Ok (oa, ma') ->
      take_leaf H mb (TreeMathProofs.node 0 l) (2 ^ d) = Ok (ob, mb') ->
      oa = Some (TSecret sa) -> ob = Some (TSecret sb) -> sa = sb.
Proof. exact shared_epoch_gives_shared_leaf_secrets. Qed.
Print Assumptions C01_members_of_one_epoch_derive_the_same_leaf_secrets.

(* PathSecretGenerator::next_secret as translated from tree_kem/path_secret.rs, called once per
   non-filtered node and once more for the commit secret, computes the chains of the model with
   derive := DeriveSecret(., "path"): from a fresh generator the committer's chain, from
   starting_with(s) a receiver's / joiner's chain *)
Theorem C01_translated_path_secret_generator_computes_the_chains :
  forall (H : hash_alg) flt s random,
    chain_gen H flt psgen_new random = committer_chain (list N) (path_derive H) flt random /\
    chain_gen H flt (psgen_starting_with s) random = receiver_chain (list N) (path_derive H) flt s.
Proof. exact translated_generator_chains. Qed.
Print Assumptions C01_translated_path_secret_generator_computes_the_chains.

Theorem C01_translated_generator_receiver_reaches_the_committers_commit_secret :
  forall (H : hash_alg) flt r k s random',
    nth k flt true = false ->
    secret_at (list N) (fst (chain_gen H flt psgen_new r)) k = Some s ->
    snd (chain_gen H (skipn k flt) (psgen_starting_with s) random') = snd (chain_gen H flt psgen_new r).
Proof. exact generator_receiver_reaches_the_committers_commit_secret. Qed.
Print Assumptions C01_translated_generator_receiver_reaches_the_committers_commit_secret.
