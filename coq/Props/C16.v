(* C16 - An external observer tracks exactly the members' public state.

   What is a theorem here:
    - the arithmetic of the observer's epoch window, TRANSLATED from
      ExternalGroup::min_epoch_available on every run (Gen/WindowGen.v), never panics for any
      u64 epoch and jitter and equals the saturating difference;
    - with it, the admission model (check_metadata) lets every ciphertext of the last `jitter`
      epochs through and refuses older ones; the current epoch is always inside the window;
    - for handshake messages the observer's admission decision is the member's decision
      (it does not depend on the window);
    - the public state is a function of the commits applied (the tree model of C08/C02 is the
      observer's as well: ExternalGroup shares MessageProcessor::process_commit).
   Everything else of the property is decided on the implementation by ./check C16: observers
   started at every epoch of generated histories with jitter unset / 0 / small / larger than
   the epoch, fed all public handshake traffic and the ciphertexts, compared with the members
   after every commit, snapshot / restore at random points, invalid messages, proposals issued
   as an external sender.
   Statements only. *)
From Coq Require Import NArith List Bool.
From MlsV Require Import Res WindowGen Admission AdmissionProofs WindowProofs AdmissionGen AdmissionGenProofs.
Import ListNotations.
Local Open Scope N_scope.

Theorem C16_window_arithmetic_never_panics : forall epoch jitter,
  epoch < two64 -> jitter < two64 -> min_epoch_available_code epoch jitter = Ok (min_epoch_saturating epoch jitter).
Proof. exact window_code_total. Qed.

Theorem C16_current_epoch_inside_window : forall (gid epoch jitter : N), min_epoch_saturating epoch jitter <= epoch.
Proof. exact window_contains_current. Qed.

Theorem C16_ciphertexts_inside_window_let_through : forall gid epoch jitter e (ct : ctype),
  check_metadata (observer_view gid epoch jitter) gid e CtApplication true =
    if e <? epoch - jitter then AInvalidEpoch else AOk.
Proof. exact window_admission. Qed.

Theorem C16_handshake_admission_as_members : forall v1 v2 gid e ct cipher,
  ct <> CtApplication -> av_version_ok v1 = av_version_ok v2 -> av_gid v1 = av_gid v2 -> av_epoch v1 = av_epoch v2 ->
  check_metadata v1 gid e ct cipher = check_metadata v2 gid e ct cipher.
Proof. exact observer_admits_handshake_like_member. Qed.

(* the subtraction as it was written before the repair overflows exactly when jitter > epoch *)
Theorem C16_plain_subtraction_overflows : forall epoch jitter, min_epoch_checked epoch jitter = None <-> epoch < jitter.
Proof. exact min_epoch_overflow. Qed.

Print Assumptions C16_window_arithmetic_never_panics.
Print Assumptions C16_current_epoch_inside_window.
Print Assumptions C16_ciphertexts_inside_window_let_through.
Print Assumptions C16_handshake_admission_as_members.
Print Assumptions C16_plain_subtraction_overflows.

(* the admission rule (version, group id, epoch per content type, epoch window, no unencrypted
   application data) IS what the translator reads in MessageProcessor::check_metadata, shared by
   members and observers (regenerated on every run) *)
Theorem C16_translated_check_metadata_is_the_model : forall v gid epoch ct cipher,
  gen_check_metadata v gid epoch ct cipher = check_metadata v gid epoch ct cipher.
Proof. exact gen_check_metadata_is_model. Qed.
Print Assumptions C16_translated_check_metadata_is_the_model.
