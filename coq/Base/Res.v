(* Result monad and checked machine arithmetic shared by every model file.
   No mls content, no proofs that a property depends on being elsewhere. *)
From Coq Require Import NArith List Bool.
Import ListNotations.
Local Open Scope N_scope.

Inductive res (A : Type) : Type :=
| Ok (a : A)
| Panic            (* Rust debug-build panic: arithmetic overflow, index out of bounds *)
| OutOfFuel.       (* only produced by fuelled loops; theorems show it never happens *)
Arguments Ok {A} a.
Arguments Panic {A}.
Arguments OutOfFuel {A}.

Definition ret {A} (a : A) : res A := Ok a.
Definition bind {A B} (m : res A) (f : A -> res B) : res B :=
  match m with Ok a => f a | Panic => Panic | OutOfFuel => OutOfFuel end.

(* fuel given to every translated loop; all loops over u32 values run at most 64 rounds *)
Definition loop_fuel : nat := 80.

Definition two32 : N := 4294967296.
Definition mask32 : N := 4294967295.
Definition two64 : N := 18446744073709551616.
Definition mask64 : N := 18446744073709551615.

(* u32: `+ - *` panic on overflow in debug builds; `<<`/`>>` panic only when the shift
   amount is >= 32 and otherwise discard the bits shifted out. *)
Definition u32_add (a b : N) : res N := if a + b <? two32 then Ok (a + b) else Panic.
Definition u32_sub (a b : N) : res N := if b <=? a then Ok (a - b) else Panic.
Definition u32_mul (a b : N) : res N := if a * b <? two32 then Ok (a * b) else Panic.
Definition u32_shl (a s : N) : res N := if s <? 32 then Ok (N.land (N.shiftl a s) mask32) else Panic.
Definition u32_shr (a s : N) : res N := if s <? 32 then Ok (N.shiftr a s) else Panic.
Definition u32_not (a : N) : N := N.lxor (N.land a mask32) mask32.

Definition u64_add (a b : N) : res N := if a + b <? two64 then Ok (a + b) else Panic.
Definition u64_sub (a b : N) : res N := if b <=? a then Ok (a - b) else Panic.
Definition u64_mul (a b : N) : res N := if a * b <? two64 then Ok (a * b) else Panic.
Definition u64_shl (a s : N) : res N := if s <? 64 then Ok (N.land (N.shiftl a s) mask64) else Panic.
Definition u64_shr (a s : N) : res N := if s <? 64 then Ok (N.shiftr a s) else Panic.
Definition u64_not (a : N) : N := N.lxor (N.land a mask64) mask64.

(* number of trailing one bits (Rust `trailing_ones`); for values below 2^32 at most 32 *)
Fixpoint pos_trailing_ones (p : positive) : N :=
  match p with
  | xI q => N.succ (pos_trailing_ones q)
  | xO _ => 0
  | xH => 1
  end.
Definition trailing_ones (x : N) : N :=
  match x with N0 => 0 | Npos p => pos_trailing_ones p end.
