(* Case evaluators for the framing model (C03 correspondence). *)
From Coq Require Import NArith List Bool String.
From MlsV Require Import Codec CodecTypes CodecCases Sha2 Hkdf KsCases Framing.
Import ListNotations.
Local Open Scope N_scope.

Definition decode_msg (bs : list N) : option (val * N * val) :=   (* version, payload tag, payload *)
  match decode T_MlsMessage None bs with
  | DOk (VCons ver (VCons (VEnum d p) VNil), []) => Some (ver, d, p)
  | _ => None
  end.
Definition decode_ctx (bs : list N) : option val :=
  match decode T_GroupContext None bs with DOk (c, []) => Some c | _ => None end.

(* 0: the membership tag recomputed by the model equals the tag in the message;
   1: differs; 2: not decodable; 3: not a member's public message *)
Definition mtag_case (a : N) (key ctx msg : string) : N :=
  match decode_msg (unhex msg), decode_ctx (unhex ctx) with
  | Some (ver, 1, pm), Some c =>
      match pm_tag pm, public_membership_tag (alg a) (unhex key) ver c pm with
      | Some t, Some t' => if list_eqb t t' then 0 else 1
      | None, _ => 3
      | _, None => 2
      end
  | Some _, Some _ => 3
  | _, _ => 2
  end.

(* the bytes the signature is computed over: [0; len; bytes...] or [2] *)
Definition siginput_case (ctx msg : string) : list N :=
  match decode_msg (unhex msg), decode_ctx (unhex ctx) with
  | Some (ver, 1, pm), Some c =>
      match public_sign_input ver c pm with
      | Some si => 0 :: N.of_nat (List.length si) :: app si (N.of_nat (List.length (auth_signature (pm_auth pm))) :: auth_signature (pm_auth pm))
      | None => [2]
      end
  | _, _ => [2]
  end.
