(* A small world of members sharing commits, for the C11 correspondence run. *)
From Coq Require Import NArith List Bool.
From MlsV Require Import Pending.
Import ListNotations.
Local Open Scope N_scope.

Record centry := { ce_id : N; ce_base : list N; ce_builder : N; ce_reinit : bool; ce_path : bool }.
Record world := { mems : list mstate; table : list centry }.

Inductive wop :=
| WBuild (m c : N) (detached reinit path : bool)
| WClear (m : N)
| WApply (m : N)
| WApplyDetached (m c : N)
| WDeliver (m c : N)
| WApp (m1 m2 : N).      (* m1 encrypts application data, m2 reads it: 0 iff on the same history *)

Definition getm (w : world) (m : N) : mstate := nth (N.to_nat m) (mems w) init_state.
Fixpoint setnth {A} (l : list A) (i : nat) (v : A) : list A :=
  match l, i with [], _ => [] | _ :: r, O => v :: r | x :: r, S j => x :: setnth r j v end.
Definition setm (w : world) (m : N) (s : mstate) : world := {| mems := setnth (mems w) (N.to_nat m) s; table := table w |}.
Definition lookup (w : world) (c : N) : option centry := find (fun e => ce_id e =? c) (table w).

Definition code (r : mres) : N :=
  match r with ROk => 0 | RExistingPending => 1 | RPendingNotFound => 2 | RInvalidEpoch => 3 | RUsedAfterReInit => 4 | RRejected => 5 end.

Definition hid (s : mstate) : N := fold_left (fun acc c => (acc * 1000003 + c + 1) mod 2305843009213693951) (hist s) 7.

(* result code, history id, pending flag *)
Definition pflag (s : mstate) : N := match pend s with Some _ => 1 | None => 0 end.
Definition wstep (w : world) (o : wop) : list N * world :=
  let out (m : N) r s := [code r; epoch_of s; hid s; pflag s] in
  match o with
  | WBuild m c d ri pth =>
      let s := getm w m in
      let '(r, s') := step s (OBuild c d ri) in
      let w' := setm w m s' in
      (out m r s', match r with ROk => {| mems := mems w'; table := {| ce_id := c; ce_base := hist s; ce_builder := m; ce_reinit := ri; ce_path := pth |} :: table w' |} | _ => w' end)
  | WClear m => let '(r, s') := step (getm w m) OClear in (out m r s', setm w m s')
  | WApply m => let '(r, s') := step (getm w m) OApplyPending in
                (* the pending commit may be a re-init *)
                let s'' := match r, pend (getm w m) with
                           | ROk, Some (c, _) => match lookup w c with Some e => {| hist := hist s'; pend := pend s'; frozen := ce_reinit e |} | None => s' end
                           | _, _ => s' end in
                (out m r s'', setm w m s'')
  | WApplyDetached m c =>
      match lookup w c with
      | Some e => let '(r, s') := step (getm w m) (OApplyDetached c (ce_base e) (ce_reinit e)) in (out m r s', setm w m s')
      | None => ([9; 0; 0; 0], w)
      end
  | WDeliver m c =>
      match lookup w c with
      | Some e =>
          let s := getm w m in
          (* its own commit, no longer pending (cleared): the author cannot decrypt its own update
             path, so a commit WITH a path (or sent as PrivateMessage, which its author cannot decrypt: the
             flag is set for those too) is refused; a public one without a path is an ordinary message *)
          let own_not_pending := (ce_builder e =? m) && ce_path e && negb (match pend s with Some (pc, _) => pc =? c | None => false end) in
          if own_not_pending && (N.of_nat (length (ce_base e)) =? epoch_of s) then ([code RRejected; epoch_of s; hid s; pflag s], w)
          else let '(r, s') := step s (OReceive c (ce_base e) (ce_reinit e)) in (out m r s', setm w m s')
      | None => ([9; 0; 0; 0], w)
      end
  | WApp m1 m2 => ([if list_eqb (hist (getm w m1)) (hist (getm w m2)) then 0 else 7; epoch_of (getm w m2); hid (getm w m2); pflag (getm w m2)], w)
  end.

Fixpoint wrun (w : world) (ops : list wop) : list N :=
  match ops with [] => [] | o :: r => let '(x, w') := wstep w o in x ++ wrun w' r end.
Definition world0 (n : nat) : world := {| mems := repeat init_state n; table := [] |}.
