(* RFC 9420 8.4 PSK chain over abstract KDF functions, and who can resolve a PSK
   (psk/resolver.rs, group/state_repo.rs resumption_secret).  Definitions only. *)
From Coq Require Import NArith List Bool.
From MlsV Require Import KeyScheduleRFC Hkdf.
Import ListNotations.
Local Open Scope N_scope.

Section Chain.
  Variable ext : list N -> list N -> list N.          (* KDF.Extract(salt, ikm) *)
  Variable xpl : list N -> list N -> list N.          (* ExpandWithLabel(secret, "derived psk", label-context, Nh) *)
  Variable zero : list N.

  Fixpoint chain (psks : list (list N * list N)) (index count : N) (acc : list N) : list N :=
    match psks with
    | [] => acc
    | (id, psk) :: r => chain r (index + 1) count (ext (xpl (ext zero psk) (psk_label id index count)) acc)
    end.
  Definition psk_secret_ideal (psks : list (list N * list N)) : list N :=
    chain psks 0 (N.of_nat (length psks)) zero.
  (* and the epoch secret built on it *)
  Variable xpe : list N -> list N -> list N.          (* ExpandWithLabel(secret, "epoch", GroupContext, Nh) *)
  Definition epoch_secret_ideal (joiner : list N) (psks : list (list N * list N)) (ctx : list N) : list N :=
    xpe (ext joiner (psk_secret_ideal psks)) ctx.
End Chain.

(* ---- resolution: which PSK ids a member can turn into a value ---- *)
Inductive pskid := PExternal (id : N) | PResumption (gid epoch : N).
Record holder := {
  h_gid : N; h_epoch : N;              (* current group and epoch *)
  h_current : N;                       (* resumption secret of the current epoch (token) *)
  h_unwritten : list (N * N);          (* (epoch, secret) of this group, not yet written *)
  h_stored : list (N * N * N);         (* (gid, epoch, secret) in the group state storage *)
  h_external : list (N * N)            (* (id, value) in the PSK store *)
}.
Definition lookup2 (k : N) (l : list (N * N)) : option N :=
  match find (fun x => fst x =? k) l with Some x => Some (snd x) | None => None end.
Definition resolve (h : holder) (p : pskid) : option N :=
  match p with
  | PExternal id => lookup2 id (h_external h)
  | PResumption gid epoch =>
      if (gid =? h_gid h) && (epoch =? h_epoch h) then Some (h_current h)
      else match (if gid =? h_gid h then lookup2 epoch (h_unwritten h) else None) with
           | Some s => Some s
           | None => match find (fun x => (fst (fst x) =? gid) && (snd (fst x) =? epoch)) (h_stored h) with
                     | Some x => Some (snd x) | None => None end
           end
  end.
Fixpoint resolve_all (h : holder) (l : list pskid) : option (list N) :=
  match l with
  | [] => Some []
  | p :: r => match resolve h p, resolve_all h r with Some v, Some vs => Some (v :: vs) | _, _ => None end
  end.

(* ---- the epoch repository behind the resolver (group/state_repo.rs) ----
   inserts: (epoch, resumption secret) of the epochs entered since the last write, oldest first,
   consecutive; updates: written epochs changed since; stored: (group, epoch, secret) in storage *)
Record repo := { r_gid : N; r_inserts : list (N * N); r_updates : list (N * N); r_stored : list (N * N * N) }.
Fixpoint position {A} (f : A -> bool) (l : list A) : option nat :=
  match l with
  | [] => None
  | x :: r => if f x then Some O else option_map S (position f r)
  end.
Definition find_pending (r : repo) (epoch : N) : option nat := position (fun x => fst x =? epoch) (r_updates r).
Definition stored_lookup (r : repo) (gid epoch : N) : option N :=
  match find (fun x => (fst (fst x) =? gid) && (snd (fst x) =? epoch)) (r_stored r) with Some x => Some (snd x) | None => None end.

(* the view of the resolution model: unwritten = inserts then updates *)
Definition holder_of (r : repo) (epoch current : N) (ext : list (N * N)) : holder :=
  {| h_gid := r_gid r; h_epoch := epoch; h_current := current; h_unwritten := r_inserts r ++ r_updates r;
     h_stored := r_stored r; h_external := ext |}.
(* what `resolve` does after the test for the current epoch *)
Definition model_repo (h : holder) (gid epoch : N) : option N :=
  match (if gid =? h_gid h then lookup2 epoch (h_unwritten h) else None) with
  | Some s => Some s
  | None => match find (fun x => (fst (fst x) =? gid) && (snd (fst x) =? epoch)) (h_stored h) with
            | Some x => Some (snd x) | None => None end
  end.

(* the repository's bookkeeping: inserts are consecutive epochs; every written epoch of the own
   group (updates, storage) is older than the first insert *)
Fixpoint consecutive (from : N) (l : list (N * N)) : bool :=
  match l with [] => true | x :: r => (fst x =? from) && consecutive (from + 1) r end.
Definition repo_wf (r : repo) : bool :=
  match r_inserts r with
  | [] => true
  | x :: _ => consecutive (fst x) (r_inserts r)
              && forallb (fun u => fst u <? fst x) (r_updates r)
              && forallb (fun s => negb (fst (fst s) =? r_gid r) || (snd (fst s) <? fst x)) (r_stored r)
  end.
