(* RFC 9420 key schedule, secret tree, PSK chain, exporter, transcript hashes and tags,
   written from the RFC text (sections 5.1, 6.1, 6.2, 8, 8.2, 8.4, 8.5, 9), over an abstract
   KDF/hash.  This file does NOT follow the structure of the code: it is the reference the
   code-shaped model (Model/KeyScheduleCode.v) is proved equal to. *)
From Coq Require Import NArith List.
From MlsV Require Import Codec Hkdf.
Import ListNotations.
Local Open Scope N_scope.

Definition ascii (s : list N) := s.
(* "MLS 1.0 " *)
Definition mls10 : list N := [77; 76; 83; 32; 49; 46; 48; 32].

(* opaque<V> : varint length prefix, then the bytes.  Lengths here are below 2^30. *)
Definition vbytes (b : list N) : list N :=
  match with_len b with Some x => x | None => [] end.

Definition u16be (n : N) : list N := [(n / 256) mod 256; n mod 256].
Definition u32be (n : N) : list N := [(n / 16777216) mod 256; (n / 65536) mod 256; (n / 256) mod 256; n mod 256].

Section RFC.
  Variable H : hash_alg.
  Let Nh := h_len H.

  (* 8.  struct { uint16 length; opaque label<V>; opaque context<V>; } KDFLabel;
         label = "MLS 1.0 " + Label *)
  Definition kdf_label (len : nat) (label context : list N) : list N :=
    u16be (N.of_nat len) ++ vbytes (mls10 ++ label) ++ vbytes context.

  Definition expand_with_label (secret label context : list N) (len : nat) : list N :=
    hkdf_expand H secret (kdf_label len label context) len.

  Definition derive_secret (secret label : list N) : list N :=
    expand_with_label secret label [] Nh.

  (* 8.  joiner_secret = ExpandWithLabel(KDF.Extract(init_secret[n-1], commit_secret), "joiner", GroupContext[n], Nh) *)
  Definition joiner_secret (init_secret commit_secret ctx : list N) : list N :=
    expand_with_label (hkdf_extract H init_secret commit_secret) (ascii [106;111;105;110;101;114]) ctx Nh.

  (* intermediate = KDF.Extract(joiner_secret, psk_secret) *)
  Definition member_secret (joiner psk_secret : list N) : list N := hkdf_extract H joiner psk_secret.

  Definition welcome_secret (joiner psk_secret : list N) : list N :=
    derive_secret (member_secret joiner psk_secret) (ascii [119;101;108;99;111;109;101]).

  Definition epoch_secret (joiner psk_secret ctx : list N) : list N :=
    expand_with_label (member_secret joiner psk_secret) (ascii [101;112;111;99;104]) ctx Nh.

  (* Table 4: labels of the secrets derived from the epoch secret *)
  Definition L_sender_data := ascii [115;101;110;100;101;114;32;100;97;116;97].
  Definition L_encryption := ascii [101;110;99;114;121;112;116;105;111;110].
  Definition L_exporter := ascii [101;120;112;111;114;116;101;114].
  Definition L_external := ascii [101;120;116;101;114;110;97;108].
  Definition L_confirm := ascii [99;111;110;102;105;114;109].
  Definition L_membership := ascii [109;101;109;98;101;114;115;104;105;112].
  Definition L_resumption := ascii [114;101;115;117;109;112;116;105;111;110].
  Definition L_authentication := ascii [97;117;116;104;101;110;116;105;99;97;116;105;111;110].
  Definition L_init := ascii [105;110;105;116].

  (* 8.5  MLS-Exporter(Label, Context, Length) =
          ExpandWithLabel(DeriveSecret(exporter_secret, Label), "exported", Hash(Context), Length) *)
  Definition mls_exporter (exporter_secret label context : list N) (len : nat) : list N :=
    expand_with_label (derive_secret exporter_secret label) (ascii [101;120;112;111;114;116;101;100]) (h_fun H context) len.

  (* 8.4  psk_extracted_[i] = KDF.Extract(0, psk_[i]);
          psk_input_[i] = ExpandWithLabel(psk_extracted_[i], "derived psk", PSKLabel, Nh);
          psk_secret_[i] = KDF.Extract(psk_input_[i-1], psk_secret_[i-1]); psk_secret_[0] = 0
          PSKLabel = { PreSharedKeyID id; uint16 index; uint16 count } *)
  Definition psk_label (id : list N) (index count : N) : list N := id ++ u16be index ++ u16be count.

  Fixpoint psk_chain (psks : list (list N * list N)) (index count : N) (acc : list N) : list N :=
    match psks with
    | [] => acc
    | (id, psk) :: r =>
        let extracted := hkdf_extract H (repeat 0 Nh) psk in
        let input := expand_with_label extracted (ascii [100;101;114;105;118;101;100;32;112;115;107]) (psk_label id index count) Nh in
        psk_chain r (index + 1) count (hkdf_extract H input acc)
    end.

  Definition psk_secret (psks : list (list N * list N)) : list N :=
    psk_chain psks 0 (N.of_nat (length psks)) (repeat 0 Nh).

  (* 9.  secret tree: tree_node_[root]_secret = encryption_secret;
         left = ExpandWithLabel(parent, "tree", "left", Nh), right likewise.
         The secret of the j-th node of level k in a tree of depth d is obtained by walking
         down from the root along the binary digits of j (most significant first). *)
  Definition L_tree := ascii [116;114;101;101].
  Definition C_left := ascii [108;101;102;116].
  Definition C_right := ascii [114;105;103;104;116].

  Fixpoint tree_secret_down (steps : nat) (j : N) (secret : list N) : list N :=
    match steps with
    | O => secret
    | S s =>
        let bit := N.testbit j (N.of_nat s) in
        tree_secret_down s j (expand_with_label secret L_tree (if bit then C_right else C_left) Nh)
    end.

  (* leaf secret of leaf number l in a tree with 2^d leaves *)
  Definition leaf_secret (d : nat) (l : N) (encryption_secret : list N) : list N :=
    tree_secret_down d l encryption_secret.

  (* 9.1  handshake_ratchet_secret_[N]_[0] = ExpandWithLabel(leaf secret, "handshake", "", Nh) ...
          DeriveTreeSecret(Secret, Label, Generation, Length) = ExpandWithLabel(Secret, Label, Generation, Length)
          ratchet_key_[j] = DeriveTreeSecret(ratchet_secret_[j], "key", j, AEAD.Nk) etc. *)
  Definition L_handshake := ascii [104;97;110;100;115;104;97;107;101].
  Definition L_application := ascii [97;112;112;108;105;99;97;116;105;111;110].
  Definition L_key := ascii [107;101;121].
  Definition L_nonce := ascii [110;111;110;99;101].
  Definition L_secret := ascii [115;101;99;114;101;116].

  Definition ratchet_init (leaf_sec : list N) (handshake : bool) : list N :=
    expand_with_label leaf_sec (if handshake then L_handshake else L_application) [] Nh.

  Fixpoint ratchet_secret_at (gen : nat) (g0 : N) (secret : list N) : list N :=
    match gen with
    | O => secret
    | S g => ratchet_secret_at g (g0 + 1) (expand_with_label secret L_secret (u32be g0) Nh)
    end.

  Definition ratchet_key (secret : list N) (gen : N) (nk : nat) : list N :=
    expand_with_label secret L_key (u32be gen) nk.
  Definition ratchet_nonce (secret : list N) (gen : N) (nn : nat) : list N :=
    expand_with_label secret L_nonce (u32be gen) nn.

  (* 8.2  confirmed_transcript_hash_[n] = Hash(interim_[n-1] || ConfirmedTranscriptHashInput_[n])
          interim_transcript_hash_[n] = Hash(confirmed_[n] || InterimTranscriptHashInput_[n]) *)
  Definition confirmed_transcript_hash (interim_prev cth_input : list N) : list N :=
    h_fun H (interim_prev ++ cth_input).
  Definition interim_transcript_hash (confirmed : list N) (confirmation_tag : list N) : list N :=
    h_fun H (confirmed ++ vbytes confirmation_tag).

  (* 6.1 / 6.2  confirmation_tag = MAC(confirmation_key, confirmed_transcript_hash)
                membership_tag = MAC(membership_key, AuthenticatedContentTBM) *)
  Definition confirmation_tag (confirmation_key confirmed : list N) : list N := hmac H confirmation_key confirmed.
  Definition membership_tag (membership_key tbm : list N) : list N := hmac H membership_key tbm.
End RFC.
