(* Admission of an incoming message by epoch and group id (message_processor.rs check_metadata,
   then the epoch lookup of Group::decrypt_incoming_ciphertext / state_repo.get_epoch_mut).
   Definitions only. *)
From Coq Require Import NArith List Bool.
Import ListNotations.
Local Open Scope N_scope.

Inductive ctype := CtApplication | CtProposal | CtCommit.
Inductive averdict := AOk | AVersionMismatch | AGroupIdMismatch | AInvalidEpoch | AUnencryptedApplication | AEpochNotFound.

Record aview := {
  av_version_ok : bool;        (* message.version = context.protocol_version *)
  av_gid : N;                  (* token of the member's group id *)
  av_epoch : N;                (* context.epoch *)
  av_min : option N;           (* min_epoch_available(): None for a member *)
  av_stored : list N           (* prior epochs the member can still load *)
}.

Definition check_metadata (v : aview) (gid epoch : N) (ct : ctype) (cipher : bool) : averdict :=
  if negb (av_version_ok v) then AVersionMismatch else
  if negb (gid =? av_gid v) then AGroupIdMismatch else
  match ct with
  | CtCommit | CtProposal => if av_epoch v =? epoch then AOk else AInvalidEpoch
  | CtApplication =>
      match av_min v with
      | Some m => if epoch <? m then AInvalidEpoch else if cipher then AOk else AUnencryptedApplication
      | None => if cipher then AOk else AUnencryptedApplication
      end
  end.

Definition has_epoch (v : aview) (epoch : N) : bool :=
  (epoch =? av_epoch v) || existsb (N.eqb epoch) (av_stored v).

(* a private message additionally needs the secrets of its epoch *)
Definition admission (v : aview) (gid epoch : N) (ct : ctype) (cipher : bool) : averdict :=
  match check_metadata v gid epoch ct cipher with
  | AOk => if cipher then (if has_epoch v epoch then AOk else AEpochNotFound) else AOk
  | e => e
  end.

(* ExternalGroup::min_epoch_available: epoch - jitter, as written (u64 subtraction) and saturating *)
Definition min_epoch_checked (epoch jitter : N) : option N := if epoch <? jitter then None (* overflow *) else Some (epoch - jitter).
Definition min_epoch_saturating (epoch jitter : N) : N := epoch - jitter.   (* N subtraction truncates at 0 *)
