(* Evaluator used by the correspondence check of C13: computes the RFC 9420 values
   (Model/KeyScheduleRFC.v instantiated with the Gallina SHA-2 / HMAC / HKDF) for the inputs
   that were given to the implementation; answers are lists of byte strings. *)
From Coq Require Import NArith List Bool String.
From MlsV Require Import Sha2 Codec Hkdf KeyScheduleRFC CodecTypes CodecCases.
Import ListNotations.
Local Open Scope N_scope.

Definition alg (a : N) : hash_alg :=
  match a with
  | 0 => {| h_fun := sha256; h_block := 64; h_len := 32 |}
  | 1 => {| h_fun := sha384; h_block := 128; h_len := 48 |}
  | _ => {| h_fun := sha512; h_block := 128; h_len := 64 |}
  end.

Inductive kcase :=
| KKs (a : N) (init commit ctx : string) (psks : list (string * string))
| KGroup (a : N) (init commit ctx : string) (psks : list (string * string))
| KPsk (a : N) (psks : list (string * string))
| KExport (a : N) (exporter label context : string) (len : N)
| KKey (a : N) (depth : N) (leaf : N) (handshake : bool) (gen : N) (nk nn : N) (enc : string)
| KTranscript (a : N) (interim ac confirm_key : string)
| KMtag (a : N) (ac ctx key : string).

Definition upsks (l : list (string * string)) : list (list N * list N) :=
  map (fun p => (unhex (fst p), unhex (snd p))) l.

(* ConfirmedTranscriptHashInput = wire_format, content, signature (RFC 9420 8.2), cut out of
   the AuthenticatedContent with the generated descriptors *)
Definition cth_input (ac : list N) : option (list N * list N) :=
  match decode T_AuthenticatedContent None ac with
  | DOk (VCons wf (VCons fc auth), _) =>
      match auth with
      | VCons sig rest =>
          match encode T_WireFormat wf, encode T_FramedContent fc, encode T_MessageSignature sig with
          | Some a, Some b, Some c =>
              let tag := match rest with VCons (VBytes t) _ => t | _ => [] end in
              Some (a ++ b ++ c, tag)
          | _, _, _ => None
          end
      | _ => None
      end
  | _ => None
  end.

(* AuthenticatedContentTBM (RFC 9420 6.2): version, wire format, content, [context], auth *)
Definition tbm_bytes (ac ctx : list N) : option (list N) :=
  match decode T_AuthenticatedContent None ac, decode T_GroupContext None ctx with
  | DOk (VCons wf (VCons fc auth), _), DOk (ctxv, _) =>
      let with_ctx := (fc_sender_tag fc =? 1) || (fc_sender_tag fc =? 4) in
      encode T_AuthenticatedContentTBM
        (VCons (VU 1) (VCons wf (VCons fc (VCons (if with_ctx then VCons ctxv VNil else VNil) auth))))
  | _, _ => None
  end.

Definition run_k (c : kcase) : list (list N) :=
  match c with
  | KKs a init commit ctx psks =>
      let H := alg a in
      let psk := psk_secret H (upsks psks) in
      let j := joiner_secret H (unhex init) (unhex commit) (unhex ctx) in
      let e := epoch_secret H j psk (unhex ctx) in
      [psk; j; welcome_secret H j psk;
       derive_secret H e L_confirm; derive_secret H e L_exporter; derive_secret H e L_authentication;
       derive_secret H e L_external; derive_secret H e L_membership; derive_secret H e L_init;
       derive_secret H e L_resumption; derive_secret H e L_sender_data; derive_secret H e L_encryption]
  | KGroup a init commit ctx psks =>
      (* what a member's key schedule holds after a real commit: exporter, authentication,
         external, membership, init, resumption *)
      let H := alg a in
      let psk := psk_secret H (upsks psks) in
      let j := joiner_secret H (unhex init) (unhex commit) (unhex ctx) in
      let e := epoch_secret H j psk (unhex ctx) in
      [derive_secret H e L_exporter; derive_secret H e L_authentication; derive_secret H e L_external;
       derive_secret H e L_membership; derive_secret H e L_init; derive_secret H e L_resumption]
  | KPsk a psks => [psk_secret (alg a) (upsks psks)]
  | KExport a ex label ctx len => [mls_exporter (alg a) (unhex ex) (unhex label) (unhex ctx) (N.to_nat len)]
  | KKey a d leaf hs gen nk nn enc =>
      let H := alg a in
      let ls := leaf_secret H (N.to_nat d) leaf (unhex enc) in
      let s := ratchet_secret_at H (N.to_nat gen) 0 (ratchet_init H ls hs) in
      [ratchet_nonce H s gen (N.to_nat nn); ratchet_key H s gen (N.to_nat nk)]
  | KTranscript a interim ac ck =>
      let H := alg a in
      match cth_input (unhex ac) with
      | Some (inp, _) =>
          let confirmed := confirmed_transcript_hash H (unhex interim) inp in
          let tag := confirmation_tag H (unhex ck) confirmed in
          [confirmed; tag; interim_transcript_hash H confirmed tag]
      | None => []
      end
  | KMtag a ac ctx key =>
      match tbm_bytes (unhex ac) (unhex ctx) with
      | Some tbm => [membership_tag (alg a) (unhex key) tbm]
      | None => []
      end
  end.

Fixpoint lists_eqb (a b : list (list N)) : bool :=
  match a, b with
  | [], [] => true
  | x :: a', y :: b' => list_eqb x y && lists_eqb a' b'
  | _, _ => false
  end.

Fixpoint kmism_from (i : N) (cs : list (kcase * list string)) : list N :=
  match cs with
  | [] => []
  | (c, expected) :: r =>
      if lists_eqb (run_k c) (map unhex expected) then kmism_from (i + 1) r else i :: kmism_from (i + 1) r
  end.
Definition ks_mismatches := kmism_from 0.
