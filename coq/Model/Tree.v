(* The public ratchet tree as an array of optional nodes (tree_kem/node.rs NodeVec, NOT padded
   to a full tree) and the operations a commit performs on it (tree_kem/mod.rs batch_edit,
   apply_update_path), written in the shape of the code and over the TRANSLATED tree math.
   Keys and credentials are abstracted: a leaf carries the token of its member, a parent only
   its unmerged leaves.  Definitions only. *)
From Coq Require Import NArith List Bool.
From MlsV Require Import Res TreeMathGen.
Import ListNotations.
Local Open Scope N_scope.

Inductive tnode := Leaf (id : N) | Par (unmerged : list N).
Definition tree := list (option tnode).

Definition tlen (t : tree) : N := N.of_nat (length t).

(* usize::next_power_of_two for values that stay far below 2^63 *)
Fixpoint npow2_from (fuel : nat) (p n : N) : N :=
  match fuel with
  | O => p
  | S f => if n <=? p then p else npow2_from f (2 * p) n
  end.
Definition next_power_of_two (n : N) : N := npow2_from 64 1 n.

(* NodeVec::total_leaf_count: (len / 2 + 1).next_power_of_two() *)
Definition total_leaf_count (t : tree) : N := next_power_of_two (tlen t / 2 + 1).

Definition get (t : tree) (i : N) : option tnode :=
  match nth_error t (N.to_nat i) with Some o => o | None => None end.

Fixpoint set_at (t : tree) (i : nat) (v : option tnode) : tree :=
  match t, i with
  | [], _ => []
  | _ :: r, O => v :: r
  | h :: r, S i' => h :: set_at r i' v
  end.
Definition set (t : tree) (i : N) (v : option tnode) : tree := set_at t (N.to_nat i) v.

Definition path_nodes (t : tree) (leaf : N) : res (list N) :=
  bind (direct_copath (2 * leaf) (total_leaf_count t)) (fun dp => ret (map CopathNode_path dp)).
Definition copath_nodes (t : tree) (leaf : N) : res (list N) :=
  bind (direct_copath (2 * leaf) (total_leaf_count t)) (fun dp => ret (map CopathNode_copath dp)).

Definition is_none {A} (o : option A) : bool := match o with None => true | Some _ => false end.
Definition last_is_blank (t : tree) : bool :=
  match rev t with None :: _ => true | _ => false end.

(* next_empty_leaf: first blank even index >= 2*start, else the leaf after the last one *)
Fixpoint next_empty_from (fuel : nat) (t : tree) (n : N) : N :=
  match fuel with
  | O => (tlen t + 1) / 2
  | S f => if n <? tlen t then
             match get t n with None => n / 2 | Some _ => next_empty_from f t (n + 2) end
           else (tlen t + 1) / 2
  end.
Definition next_empty_leaf (t : tree) (start : N) : N := next_empty_from (S (length t)) t (2 * start).

(* insert_leaf: extend by two blanks (one when empty) when the slot is past the end *)
Definition insert_leaf (t : tree) (leaf : N) (n : tnode) : tree :=
  let ni := 2 * leaf in
  let t' := if tlen t <? ni then t ++ [None; None] else if (tlen t =? 0) then [None] else t in
  set t' ni (Some n).

Fixpoint insert_sorted (x : N) (l : list N) : option (list N) :=   (* None: already there *)
  match l with
  | [] => Some [x]
  | y :: r => if x =? y then None
              else if x <? y then Some (x :: l)
              else match insert_sorted x r with Some r' => Some (y :: r') | None => None end
  end.

Inductive terr := EParentHashMismatch | ERemovingNonExisting | EUpdatingNonExisting.
Inductive tres (A : Type) := TOk (a : A) | TErr (e : terr) | TPanic.
Arguments TOk {A} a.
Arguments TErr {A} e.
Arguments TPanic {A}.

Definition lift {A} (r : res A) : tres A := match r with Ok a => TOk a | _ => TPanic end.
Definition tbind {A B} (m : tres A) (f : A -> tres B) : tres B :=
  match m with TOk a => f a | TErr e => TErr e | TPanic => TPanic end.

(* update_unmerged: the new leaf becomes unmerged at every NON-BLANK parent of its path *)
Fixpoint update_unmerged (t : tree) (leaf : N) (path : list N) : tres tree :=
  match path with
  | [] => TOk t
  | p :: r =>
      match get t p with
      | Some (Par um) =>
          match insert_sorted leaf um with
          | Some um' => update_unmerged (set t p (Some (Par um'))) leaf r
          | None => TErr EParentHashMismatch
          end
      | _ => update_unmerged t leaf r
      end
  end.

Definition add_leaf (t : tree) (id : N) (start : N) : tres (tree * N) :=
  let idx := next_empty_leaf t start in
  let t1 := insert_leaf t idx (Leaf id) in
  if negb (2 * idx <? tlen t1) then TPanic else      (* self[node_index] = ... indexes out of bounds *)
  tbind (lift (path_nodes t1 idx)) (fun path =>
  tbind (update_unmerged t1 idx path) (fun t2 => TOk (t2, idx))).

Definition blank_leaf (t : tree) (leaf : N) : tres tree :=
  match get t (2 * leaf) with
  | Some (Leaf _) => TOk (set t (2 * leaf) None)
  | _ => TErr ERemovingNonExisting
  end.

Fixpoint blank_nodes (t : tree) (ns : list N) : tree :=
  match ns with [] => t | n :: r => blank_nodes (set t n None) r end.

Definition blank_direct_path (t : tree) (leaf : N) : tres tree :=
  tbind (lift (path_nodes t leaf)) (fun path => TOk (blank_nodes t path)).

Fixpoint trim_rev (l : tree) : tree :=
  match l with None :: r => trim_rev r | _ => l end.
Definition trim (t : tree) : tree := rev (trim_rev (rev t)).

(* batch_edit (receiver / valid-proposals path): removes in reverse order, updates (old leaf
   out, new leaf in, direct paths blanked), adds with a running start, trim *)
Fixpoint apply_removes (t : tree) (rs : list N) : tres tree :=
  match rs with
  | [] => TOk t
  | r :: rest => tbind (blank_leaf t r) (fun t1 => tbind (blank_direct_path t1 r) (fun t2 => apply_removes t2 rest))
  end.

Fixpoint apply_updates (t : tree) (us : list (N * N)) : tres tree :=   (* (leaf index, member token) *)
  match us with
  | [] => TOk t
  | (i, id) :: rest =>
      match get t (2 * i) with
      | Some (Leaf _) => apply_updates (set t (2 * i) (Some (Leaf id))) rest
      | _ => TErr EUpdatingNonExisting
      end
  end.

Fixpoint blank_paths (t : tree) (ls : list N) : tres tree :=
  match ls with
  | [] => TOk t
  | l :: rest => tbind (blank_direct_path t l) (fun t1 => blank_paths t1 rest)
  end.

Fixpoint apply_adds (t : tree) (ids : list N) (start : N) (acc : list N) : tres (tree * list N) :=
  match ids with
  | [] => TOk (t, rev acc)
  | id :: rest => tbind (add_leaf t id start) (fun '(t1, idx) => apply_adds t1 rest idx (idx :: acc))
  end.

(* the phases of TreeKemPublic::batch_edit in the order the model below applies them *)
Inductive phase := PRemovesLastFirst | PUpdatesOut | PUpdatesIn | PBlankPaths | PStartZero | PAddsRunningStart | PTrim | PHashes.
Definition batch_phases : list phase :=
  [PRemovesLastFirst; PUpdatesOut; PUpdatesIn; PBlankPaths; PStartZero; PAddsRunningStart; PTrim; PHashes].

Definition batch_edit (t : tree) (removes : list N) (updates : list (N * N)) (adds : list N) : tres (tree * list N) :=
  tbind (apply_removes t (rev removes)) (fun t1 =>
  tbind (apply_updates t1 updates) (fun t2 =>
  tbind (blank_paths t2 (map fst updates)) (fun t3 =>
  tbind (apply_adds t3 adds 0 []) (fun '(t4, added) => TOk (trim t4, added))))).

(* ---- resolution (get_resolution_index: explicit stack, left before right) ---- *)
Fixpoint resolution (fuel : nat) (t : tree) (stack : list N) : res (list N) :=
  match fuel with
  | O => OutOfFuel
  | S f =>
      match stack with
      | [] => ret []
      | x :: rest =>
          match get t x with
          | Some (Leaf _) => bind (resolution f t rest) (fun r => ret (x :: r))
          | Some (Par um) => bind (resolution f t rest) (fun r => ret (x :: map (fun l => 2 * l) um ++ r))
          | None =>
              if N.even x then resolution f t rest
              else bind (left_unchecked x) (fun l => bind (right_unchecked x) (fun r => resolution f t (l :: r :: rest)))
          end
      end
  end.
Definition resolution_of (t : tree) (x : N) : res (list N) := resolution (2 * length t + 4) t [x].
Definition resolution_empty (t : tree) (x : N) : res bool :=
  bind (resolution_of t x) (fun r => ret (match r with [] => true | _ => false end)).

(* apply_update_path: the committer's leaf is replaced; every direct-path node whose copath
   resolution is NOT empty gets a fresh parent with no unmerged leaves (update_node);
   filtered nodes are left alone *)
Fixpoint apply_path_nodes (t : tree) (path copath : list N) (orig : tree) : res tree :=
  match path, copath with
  | p :: pr, c :: cr =>
      bind (resolution_empty orig c) (fun e =>
        let t' := if e then t else
                  (let tt := t ++ repeat None (N.to_nat p + 1 - length t) in set tt p (Some (Par []))) in
        apply_path_nodes t' pr cr orig)
  | _, _ => ret t
  end.

Definition apply_update_path (t : tree) (sender : N) (id : N) : tres tree :=
  match get t (2 * sender) with
  | Some (Leaf _) =>
      let t1 := set t (2 * sender) (Some (Leaf id)) in
      tbind (lift (path_nodes t1 sender)) (fun path =>
      tbind (lift (copath_nodes t1 sender)) (fun copath =>
      lift (apply_path_nodes t1 path copath t1)))
  | _ => TErr EUpdatingNonExisting
  end.

(* one commit as applied by every member: proposals, then the optional path *)
Definition apply_commit (t : tree) (removes : list N) (updates : list (N * N)) (adds : list N)
           (path : option (N * N)) : tres (tree * list N) :=
  tbind (batch_edit t removes updates adds) (fun '(t1, added) =>
    match path with
    | Some (sender, id) => tbind (apply_update_path t1 sender id) (fun t2 => TOk (t2, added))
    | None => TOk (t1, added)
    end).
