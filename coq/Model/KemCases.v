(* Case evaluators for the TreeKEM recipient / private-key checks (used by generated Cases files). *)
From Coq Require Import NArith List Bool.
From MlsV Require Import Res TreeMathGen Tree Kem.
Import ListNotations.
Local Open Scope N_scope.

Definition count (x : N) (l : list N) : N := N.of_nat (length (filter (N.eqb x) l)).
Definition same_multiset (a b : list N) : bool :=
  (N.of_nat (length a) =? N.of_nat (length b)) && forallb (fun x => count x a =? count x b) a.

(* 0: the model's recipients are exactly the expected node indices (as multisets);
   1: different; 2: the model fails on this tree *)
Definition recip_case (t : tree) (sender : N) (excl : list N) (expected : list N) : N :=
  match encap_recipients t sender excl with
  | Ok rs => if same_multiset (concat (map snd rs)) expected then 0 else 1
  | _ => 2
  end.
