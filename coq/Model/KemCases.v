(* Case evaluators for the TreeKEM recipient / private-key checks (used by generated Cases files). *)
From Coq Require Import NArith List Bool.
From MlsV Require Import Res TreeMathGen Tree Kem.
Import ListNotations.
Local Open Scope N_scope.

Definition count (x : N) (l : list N) : N := N.of_nat (length (filter (N.eqb x) l)).
Definition same_multiset (a b : list N) : bool :=
  (N.of_nat (length a) =? N.of_nat (length b)) && forallb (fun x => count x a =? count x b) a.

(* 0: the model's recipients are exactly the expected node indices (as multisets);
   1: different; 2: the model fails on this tree *)
Definition recip_case (t : tree) (sender : N) (excl : list N) (expected : list N) : N :=
  match encap_recipients t sender excl with
  | Ok rs => if same_multiset (concat (map snd rs)) expected then 0 else 1
  | _ => 2
  end.

(* ---- private-key positions (C09) ---- *)
From MlsV Require Import Priv.

Definition pat (pr : priv) : list bool := map (fun o => match o with Some _ => true | None => false end) pr.
Fixpoint strip_false_rev (l : list bool) : list bool := match l with false :: r => strip_false_rev r | _ => l end.
Definition strip (l : list bool) : list bool := rev (strip_false_rev (rev l)).
Definition same_pattern (a b : list bool) : bool :=
  let a := strip a in let b := strip b in
  (N.of_nat (length a) =? N.of_nat (length b)) && forallb (fun p : bool * bool => Bool.eqb (fst p) (snd p)) (combine a b).
Definition of_pat (l : list bool) : priv := map (fun b : bool => if b then Some 7 else None) l.

Definition lift_t {A} (r : tres A) : res A := match r with TOk a => Ok a | _ => Panic end.

(* role 0: receiver, 1: committer.  0 = the model predicts the observed key positions,
   1 = different, 2 = the model fails *)
Definition priv_case (t : tree) (removes : list N) (updates : list (N * N)) (adds : list N)
           (path : option (N * N)) (role : N) (me : N) (own_update : bool)
           (before after : list bool) : N :=
  match
    bind (lift_t (batch_edit t removes updates adds)) (fun '(tprov, added) =>
    bind (provisional_priv tprov me (of_pat before) (if own_update then Some 9 else None)) (fun pr1 =>
      match path with
      | None => ret pr1
      | Some (snd, _) =>
          bind (filtered tprov snd) (fun flt =>
          bind (path_nodes tprov me) (fun p =>
            let fk := fun k => 100 + k in
            if role =? 1 then ret (encap_priv pr1 (length p) flt fk 8)
            else bind (leaf_lca_level (2 * me) (2 * snd)) (fun k =>
                 ret (decap_priv pr1 (length p) (N.to_nat (k - 2)) (upd_nodes flt 1 fk)))))
      end))
  with
  | Ok pr => if same_pattern (pat pr) after then 0 else 1
  | _ => 2
  end.

(* a joiner through a Welcome: tree of the new epoch, own leaf, committer's leaf *)
Definition join_case (t : tree) (me signer : N) (with_path : bool) (after : list bool) : N :=
  match
    (if with_path then
      bind (filtered t me) (fun jflt =>
      bind (leaf_lca_level (2 * me) (2 * signer)) (fun k =>
        let ks := fun i => match get t i with Some _ => Some 1 | None => None end in
        match join_priv ks me 8 jflt (N.to_nat (k - 2)) with Some pr => ret pr | None => Panic end))
    else ret [Some 8])
  with
  | Ok pr => if same_pattern (pat pr) after then 0 else 1
  | _ => 2
  end.
