(* Decision model of X.509 chain validation as the credential validators are meant to perform
   it (RFC 5280 path validation restricted to: validity period, name chaining, signature,
   basic constraints, trust anchor).  Certificates and keys are tokens.  Definitions only. *)
From Coq Require Import NArith List Bool.
Import ListNotations.
Local Open Scope N_scope.

Record cert := {
  subject : N; issuer : N;
  nb : N; na : N;                 (* validity period, both ends included *)
  ca : bool;                      (* basic constraints CA + keyCertSign *)
  signed_with : N;                (* the key that made the signature *)
  key : N                         (* the certified public key *)
}.

Definition time_ok (t : option N) (c : cert) : bool :=
  match t with None => true | Some x => (nb c <=? x) && (x <=? na c) end.

Definition issued_by (c p : cert) : bool :=
  (issuer c =? subject p) && (signed_with c =? key p) && ca p.

(* issued by a trust anchor that is valid at t (a self-signed anchor presented in the chain is
   issued by itself) *)
Definition anchored (roots : list cert) (t : option N) (c : cert) : bool :=
  existsb (fun r => issued_by c r && time_ok t r) roots.

(* walk the chain from the leaf: every certificate in its validity period; stop at the first one
   that is anchored; otherwise the next one must be its issuer *)
Fixpoint valid_from (roots : list cert) (t : option N) (l : list cert) : bool :=
  match l with
  | [] => false
  | c :: r =>
      time_ok t c &&
      (anchored roots t c ||
       match r with
       | [] => false
       | p :: _ => issued_by c p && valid_from roots t r
       end)
  end.
Definition validate (roots : list cert) (t : option N) (chain : list cert) : option N :=
  match chain with
  | [] => None
  | leaf :: _ => if valid_from roots t chain then Some (key leaf) else None
  end.

(* what it means for a certificate to be trustworthy at time t *)
Inductive trusted (roots : list cert) (t : option N) : cert -> Prop :=
| tr_root c : In c roots -> time_ok t c = true -> trusted roots t c
| tr_issued c p : time_ok t c = true -> issued_by c p = true -> trusted roots t p -> trusted roots t c.
