(* HMAC (RFC 2104) and HKDF (RFC 5869) over an abstract hash function. *)
From Coq Require Import NArith List.
Import ListNotations.
Local Open Scope N_scope.

Record hash_alg := {
  h_fun : list N -> list N;
  h_block : nat;     (* block size in bytes *)
  h_len : nat;       (* output size in bytes *)
}.

Section Hkdf.
  Variable H : hash_alg.

  Definition xor_pad (c : N) (k : list N) : list N := map (fun b => N.lxor b c) k.

  Definition hmac (key msg : list N) : list N :=
    let k0 := if Nat.ltb (h_block H) (length key) then h_fun H key else key in
    let k := k0 ++ repeat 0 (h_block H - length k0) in
    h_fun H (xor_pad 92 k ++ h_fun H (xor_pad 54 k ++ msg)).

  (* RFC 5869 2.2; an empty salt stands for h_len zero bytes *)
  Definition hkdf_extract (salt ikm : list N) : list N :=
    hmac (match salt with [] => repeat 0 (h_len H) | _ => salt end) ikm.

  (* RFC 5869 2.3: T(0) = empty, T(i) = HMAC(prk, T(i-1) | info | i) *)
  Fixpoint expand_blocks (n : nat) (prk info : list N) (i : N) (prev : list N) : list N :=
    match n with
    | O => []
    | S n' => let t := hmac prk (prev ++ info ++ [i]) in t ++ expand_blocks n' prk info (i + 1) t
    end.

  Definition hkdf_expand (prk info : list N) (len : nat) : list N :=
    let n := Nat.div (len + h_len H - 1) (h_len H) in
    firstn len (expand_blocks n prk info 1 []).
End Hkdf.
