(* Evaluator used by the correspondence check of C20: runs the GENERATED tree math on a
   query and encodes the answer as a list of numbers, in the same way the python
   orchestrator encodes the answer of the Rust implementation (mlsh treemath):
     Ok v -> 0 :: enc v     Panic -> [1]     OutOfFuel -> [2]
   None -> [] ; Some v -> enc v ; pairs and lists are flattened. *)
From Coq Require Import NArith List Bool.
From MlsV Require Import Res TreeMathGen.
Import ListNotations.
Local Open Scope N_scope.

Definition enc_res {A} (f : A -> list N) (r : res A) : list N :=
  match r with Ok v => 0 :: f v | Panic => [1] | OutOfFuel => [2] end.
Definition enc_bool (b : bool) : list N := [if b then 1 else 0].
Definition enc_opt {A} (f : A -> list N) (o : option A) : list N :=
  match o with Some v => f v | None => [] end.

Definition arg (l : list N) (i : nat) : N := nth i l 0.

Definition tm_eval (fn : N) (a : list N) : list N :=
  match fn with
  | 0 => enc_res (fun v => [v]) (root (arg a 0))
  | 1 => enc_res (fun v => [v]) (left_unchecked (arg a 0))
  | 2 => enc_res (fun v => [v]) (right_unchecked (arg a 0))
  | 3 => enc_res (enc_opt (fun ps => [ParentSibling_parent ps; ParentSibling_sibling ps]))
                 (parent_sibling (arg a 0) (arg a 1))
  | 4 => enc_res enc_bool (is_leaf (arg a 0))
  | 5 => enc_res enc_bool (is_in_tree (arg a 0) (arg a 1))
  | 6 => enc_res (fun l => flat_map (fun c => [CopathNode_path c; CopathNode_copath c]) l)
                 (direct_copath (arg a 0) (arg a 1))
  | 7 => enc_res (fun v => [v]) (leaf_lca_level (arg a 0) (arg a 1))
  | 8 => enc_res (fun s => [SubTree_left s; SubTree_right s]) (subtree (arg a 0))
  | 9 => enc_res (enc_opt (fun v => [v])) (LeafIndex_try_from (arg a 0))
  | _ => [99]
  end.

Fixpoint list_eqb (a b : list N) : bool :=
  match a, b with
  | [], [] => true
  | x :: a', y :: b' => N.eqb x y && list_eqb a' b'
  | _, _ => false
  end.

(* indices of the cases on which the model's answer differs from the recorded answer *)
Fixpoint mismatches_from (i : N) (cs : list (N * list N * list N)) : list N :=
  match cs with
  | [] => []
  | (fn, a, expected) :: cs' =>
      if list_eqb (tm_eval fn a) expected then mismatches_from (i + 1) cs'
      else i :: mismatches_from (i + 1) cs'
  end.
Definition mismatches := mismatches_from 0.
