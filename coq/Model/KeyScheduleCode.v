(* The key schedule, PSK chain, secret tree and ratchets written IN THE SHAPE OF THE CODE
   (mls-rs/src/group/key_schedule.rs, psk/secret.rs, group/secret_tree.rs): the order of the
   derivations, the on-demand secret tree with node consumption, the ratchet with its
   generation counter and history.  Definitions only. *)
From Coq Require Import NArith List Bool.
From MlsV Require Import Res Codec Hkdf KeyScheduleRFC TreeMathGen.
Import ListNotations.
Local Open Scope N_scope.

Section Code.
  Variable H : hash_alg.
  Let extract_size := h_len H.

  (* key_schedule.rs kdf_expand_with_label: `Label::new(len as u16, label, context)`;
     the u16 field is the TRUNCATED length, the output has the full length *)
  Definition label_bytes (len : nat) (label context : list N) : list N :=
    u16be (N.of_nat len mod 65536) ++ vbytes (mls10 ++ label) ++ vbytes context.

  Definition kdf_expand_with_label (secret label context : list N) (len : option nat) : list N :=
    let len := match len with Some l => l | None => extract_size end in
    hkdf_expand H secret (label_bytes len label context) len.

  Definition kdf_derive_secret (secret label : list N) : list N :=
    kdf_expand_with_label secret label [] None.

  Record key_schedule := {
    ks_exporter : list N; ks_authentication : list N; ks_external : list N;
    ks_membership : list N; ks_init : list N }.
  Record epoch_secrets := { es_resumption : list N; es_sender_data : list N; es_encryption : list N }.
  Record derivation := {
    d_ks : key_schedule; d_confirm : list N; d_joiner : list N; d_epoch : epoch_secrets }.

  (* from_epoch_secret: the order of the derive() calls of the code *)
  Definition from_epoch_secret (epoch_secret : list N) : derivation :=
    let derive := kdf_derive_secret epoch_secret in
    let es := {| es_resumption := derive L_resumption; es_sender_data := derive L_sender_data;
                 es_encryption := derive L_encryption |} in
    let ks := {| ks_exporter := derive L_exporter; ks_authentication := derive L_authentication;
                 ks_external := derive L_external; ks_membership := derive L_membership;
                 ks_init := derive L_init |} in
    {| d_ks := ks; d_confirm := derive L_confirm; d_joiner := []; d_epoch := es |}.

  Definition get_pre_epoch_secret (psk_secret joiner : list N) : list N := hkdf_extract H joiner psk_secret.

  Definition from_joiner (joiner ctx psk_secret : list N) : derivation :=
    let epoch_seed := get_pre_epoch_secret psk_secret joiner in
    let epoch_secret := kdf_expand_with_label epoch_seed [101;112;111;99;104] ctx None in
    from_epoch_secret epoch_secret.

  Definition from_key_schedule (last_init commit_secret ctx psk_secret : list N) : derivation :=
    let joiner_seed := hkdf_extract H last_init commit_secret in
    let joiner := kdf_expand_with_label joiner_seed [106;111;105;110;101;114] ctx None in
    let r := from_joiner joiner ctx psk_secret in
    {| d_ks := d_ks r; d_confirm := d_confirm r; d_joiner := joiner; d_epoch := d_epoch r |}.

  Definition get_welcome_secret (joiner psk_secret : list N) : list N :=
    kdf_derive_secret (get_pre_epoch_secret psk_secret joiner) [119;101;108;99;111;109;101].

  Definition export_secret (exporter_secret label context : list N) (len : nat) : list N :=
    let secret := kdf_derive_secret exporter_secret label in
    kdf_expand_with_label secret [101;120;112;111;114;116;101;100] (h_fun H context) (Some len).

  (* psk/secret.rs PskSecret::calculate: the loop with its running index *)
  Fixpoint psk_loop (input : list (list N * list N)) (index len : N) (psk_secret : list N) : list N :=
    match input with
    | [] => psk_secret
    | (id, psk) :: r =>
        let label := id ++ u16be index ++ u16be len in
        let psk_extracted := hkdf_extract H (repeat 0 extract_size) psk in
        let psk_input := kdf_expand_with_label psk_extracted [100;101;114;105;118;101;100;32;112;115;107] label None in
        psk_loop r (index + 1) len (hkdf_extract H psk_input psk_secret)
    end.
  Definition psk_calculate (input : list (list N * list N)) : list N :=
    psk_loop input 0 (N.of_nat (length input)) (repeat 0 extract_size).

  (* ---- secret_tree.rs ---- *)
  Inductive tnode := TSecret (s : list N) | TRatchet.
  Definition tree_state := list (N * tnode).

  Fixpoint take_node (m : tree_state) (x : N) : option tnode * tree_state :=
    match m with
    | [] => (None, [])
    | (y, n) :: r => if y =? x then (Some n, r)
                     else let '(o, r') := take_node r x in (o, (y, n) :: r')
    end.
  Definition set_node (m : tree_state) (x : N) (n : tnode) : tree_state :=
    (x, n) :: snd (take_node m x).

  Definition tree_new (leaf_count : N) (encryption_secret : list N) : res tree_state :=
    bind (root leaf_count) (fun r => ret [(r, TSecret encryption_secret)]).

  (* consume_node: if the node holds a secret, replace it by the secrets of its children *)
  Definition consume_node (m : tree_state) (x : N) : res tree_state :=
    match take_node m x with
    | (Some (TSecret s), m') =>
        bind (left_unchecked x) (fun l =>
        bind (right_unchecked x) (fun r =>
          let ls := kdf_expand_with_label s L_tree C_left None in
          let rs := kdf_expand_with_label s L_tree C_right None in
          ret (set_node (set_node m' l (TSecret ls)) r (TSecret rs))))
    | (_, m') => ret m'
    end.

  Fixpoint consume_path (m : tree_state) (path : list N) : res tree_state :=
    match path with
    | [] => ret m
    | x :: r => bind (consume_node m x) (fun m' => consume_path m' r)
    end.

  (* take_leaf_ratchet up to the point where the leaf's node has been taken out: walks the
     direct path top-down (reverse of direct_copath) consuming nodes; result = what the
     leaf slot held *)
  Definition take_leaf (m : tree_state) (leaf_node leaf_count : N) : res (option tnode * tree_state) :=
    match take_node m leaf_node with
    | (Some n, m') => ret (Some n, m')
    | (None, _) =>
        bind (direct_copath leaf_node leaf_count) (fun dp =>
        bind (consume_path m (rev (map CopathNode_path dp))) (fun m' =>
          ret (take_node m' leaf_node)))
    end.

  (* ---- SecretKeyRatchet ---- *)
  Record ratchet := { r_secret : list N; r_gen : N; r_history : list (N * (list N * list N)) }.

  Definition ratchet_new (leaf_sec : list N) (handshake : bool) : ratchet :=
    {| r_secret := kdf_expand_with_label leaf_sec (if handshake then L_handshake else L_application) [] None;
       r_gen := 0; r_history := [] |}.

  (* next_message_key: (nonce, key) of the current generation, then advance *)
  Definition next_message_key (nk nn : nat) (r : ratchet) : res ((N * (list N * list N)) * ratchet) :=
    let g := r_gen r in
    let nonce := kdf_expand_with_label (r_secret r) L_nonce (u32be g) (Some nn) in
    let key := kdf_expand_with_label (r_secret r) L_key (u32be g) (Some nk) in
    let secret' := kdf_expand_with_label (r_secret r) L_secret (u32be g) (Some extract_size) in
    bind (u32_add g 1) (fun g' =>
      ret ((g, (nonce, key)), {| r_secret := secret'; r_gen := g'; r_history := r_history r |})).
End Code.
