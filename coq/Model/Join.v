(* A joiner's key package store (Group::from_welcome_message / state_repo.rs write_to_storage /
   in-memory key package storage) and the position of the path secret it is handed
   (Group::encrypt_group_secrets).  Definitions only. *)
From Coq Require Import NArith List Bool.
From MlsV Require Import TreeMathProofs Priv.
Import ListNotations.
Local Open Scope N_scope.

Record kstate := { kps : list N; pending_rm : option N }.

Definition has (r : N) (l : list N) : bool := existsb (N.eqb r) l.
Definition del (r : N) (l : list N) : list N := filter (fun x => negb (x =? r)) l.

Definition k_generate (s : kstate) (r : N) : kstate := {| kps := r :: kps s; pending_rm := pending_rm s |}.
(* joining needs the private keys of the package the Welcome was made for *)
Definition k_join (s : kstate) (r : N) (last_resort : bool) : option kstate :=
  if has r (kps s) then Some {| kps := kps s; pending_rm := if last_resort then None else Some r |} else None.
(* the first write of the new group deletes the package that was used *)
Definition k_write (s : kstate) : kstate :=
  match pending_rm s with
  | Some r => {| kps := del r (kps s); pending_rm := None |}
  | None => s
  end.

(* the committer hands the joiner the path secret of their common ancestor: position
   leaf_lca_level(committer, joiner) - 1 of the unfiltered path secrets *)
Definition joiner_secret_position (lca_level : N) : N := lca_level - 1.
