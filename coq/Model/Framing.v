(* What the signature and the membership MAC of a PublicMessage cover
   (group/message_signature.rs AuthenticatedContentTBS, group/membership_tag.rs
   AuthenticatedContentTBM, signer.rs SignContent), over the generated type table.
   Definitions only. *)
From Coq Require Import NArith List Bool String.
From MlsV Require Import Codec CodecTypes Sha2 Hkdf.
Import ListNotations.
Local Open Scope N_scope.

Definition member_like (fc : val) : bool := (fc_sender_tag fc =? 1) || (fc_sender_tag fc =? 4).

(* the value that AuthenticatedContentTBS serialises *)
Definition tbs_val (ver : val) (wire : N) (fc ctx : val) : val :=
  VCons ver (VCons (VEnum wire VNil) (VCons fc (if member_like fc then VCons ctx VNil else VNil))).

(* ... and AuthenticatedContentTBM: the same followed by the FramedContentAuthData *)
Definition tbm_val (ver : val) (wire : N) (fc ctx auth : val) : val :=
  VCons ver (VCons (VEnum wire VNil) (VCons fc (VCons (if member_like fc then VCons ctx VNil else VNil) auth))).

Definition T_SignContent : ty := tstruct [TBytes; TBytes].
Definition label_bytes (s : string) : list N :=
  (fix go (s : string) := match s with EmptyString => [] | String c r => N.of_nat (Ascii.nat_of_ascii c) :: go r end) s.
Definition sign_input (label : string) (content : list N) : option (list N) :=
  encode T_SignContent (VCons (VBytes (label_bytes ("MLS 1.0 " ++ label))) (VCons (VBytes content) VNil)).

(* a PublicMessage value as decoded from the wire: content, auth data, optional membership tag *)
Definition pm_content (pm : val) : val := match pm with VCons fc _ => fc | _ => VNil end.
Definition pm_auth (pm : val) : val := match pm with VCons _ (VCons a _) => a | _ => VNil end.
Definition pm_tag (pm : val) : option (list N) := match pm with VCons _ (VCons _ (VCons (VBytes t) _)) => Some t | _ => None end.
Definition auth_signature (a : val) : list N := match a with VCons (VBytes s) _ => s | _ => [] end.

(* bytes signed for a public message, given the receiver's group context *)
Definition public_sign_input (ver : val) (ctx pm : val) : option (list N) :=
  match encode T_AuthenticatedContentTBS (tbs_val ver 1 (pm_content pm) ctx) with
  | Some tbs => sign_input "FramedContentTBS" tbs
  | None => None
  end.

(* membership tag a receiver recomputes *)
Definition public_membership_tag (H : hash_alg) (key : list N) (ver ctx pm : val) : option (list N) :=
  match encode T_AuthenticatedContentTBM (tbm_val ver 1 (pm_content pm) ctx (pm_auth pm)) with
  | Some tbm => Some (hmac H key tbm)
  | None => None
  end.

(* ---- PrivateMessage: what the two AEADs authenticate ---- *)
(* a PrivateMessage value: group_id, epoch, content_type, authenticated_data, encrypted_sender_data, ciphertext *)
Definition prm_aad (m : val) : val :=       (* PrivateContentAAD: AAD of the content AEAD *)
  match m with VCons g (VCons e (VCons ct (VCons ad _))) => VCons g (VCons e (VCons ct (VCons ad VNil))) | _ => VNil end.
Definition prm_sender_aad (m : val) : val :=  (* SenderDataAAD: AAD of the sender-data AEAD *)
  match m with VCons g (VCons e (VCons ct _)) => VCons g (VCons e (VCons ct VNil)) | _ => VNil end.
Definition prm_esd (m : val) : val := match m with VCons _ (VCons _ (VCons _ (VCons _ (VCons x _)))) => x | _ => VNil end.
Definition prm_ct (m : val) : val := match m with VCons _ (VCons _ (VCons _ (VCons _ (VCons _ (VCons x _))))) => x | _ => VNil end.
