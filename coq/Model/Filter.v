(* The proposal rules of a commit from a member (group/proposal_filter/filtering.rs
   apply_proposals_from_member, filtering_common.rs filter_out_invalid_psks, tree_kem/mod.rs
   batch_edit) with their two strategies: IgnoreByRef (the committer drops offending
   by-reference proposals and fails on offending by-value ones) and IgnoreNone (a receiver
   fails on any offender).  A proposal is abstracted to the attributes the rules look at.
   Definitions only. *)
From Coq Require Import NArith List Bool.
Import ListNotations.
Local Open Scope N_scope.

Inductive psender := SMember (leaf : N) | SExternal | SNewMemberProposal | SNewMemberCommit.

Inductive body :=
| BAdd (who : N) (kp_ok : bool)              (* identity of the joiner; key package / leaf validation verdict *)
| BUpdate (leaf_ok : bool)                   (* replaces the sender's leaf; leaf node validation verdict *)
| BRemove (target : N)
| BPsk (id : N) (type_ok nonce_ok known : bool)
| BGce (ok : bool)
| BReinit (version_ok : bool)
| BExtInit
| BCustom (supported : bool).

Record prop := { p_tag : N; p_body : body; p_sender : psender; p_by_ref : bool }.

Record gctx := {
  committer : N;
  leaves : list (N * N)        (* occupied leaves: (leaf index, identity) *)
}.

Inductive strategy := IgnoreByRef | IgnoreNone.

(* apply_strategy over a list of (proposal, verdict) *)
Fixpoint retain (st : strategy) (l : list (prop * bool)) : option (list prop) :=
  match l with
  | [] => Some []
  | (p, ok) :: r =>
      match retain st r with
      | None => None
      | Some r' =>
          if ok then Some (p :: r')
          else match st with
               | IgnoreByRef => if p_by_ref p then Some r' else None
               | IgnoreNone => None
               end
      end
  end.

(* ---- stage shapes ---- *)
(* pointwise: the verdict depends on the proposal alone *)
Definition stage_pw (v : prop -> bool) (st : strategy) (l : list prop) : option (list prop) :=
  retain st (map (fun p => (p, v p)) l).
Definition pass_pw (v : prop -> bool) (l : list prop) : bool := forallb v l.

(* first-wins: besides a pointwise condition, the key of a proposal must not have been seen in
   an EARLIER proposal of the list (kept or not: ids_seen.insert / mem::replace(found) come first) *)
Fixpoint scan_first (key : prop -> option N) (base : prop -> bool) (seen : list N) (l : list prop) : list (prop * bool) :=
  match l with
  | [] => []
  | p :: r =>
      match key p with
      | None => (p, true) :: scan_first key base seen r
      | Some k => (p, base p && negb (existsb (N.eqb k) seen)) :: scan_first key base (k :: seen) r
      end
  end.
Definition stage_first key base (st : strategy) (l : list prop) := retain st (scan_first key base [] l).
Definition pass_first key base (l : list prop) : bool := forallb snd (scan_first key base [] l).

(* re-init travels alone (filter_out_reinit_if_other_proposals) *)
Definition is_reinit (p : prop) : bool := match p_body p with BReinit _ => true | _ => false end.
Definition stage_reinit (st : strategy) (l : list prop) : option (list prop) :=
  let re := filter is_reinit l in
  match re with
  | [] => Some l
  | _ => if Nat.eqb (length l) 1 then Some l
         else if existsb (fun p => negb (p_by_ref p)) re then None
         else match st with
              | IgnoreNone => None
              | IgnoreByRef =>
                  if Nat.ltb (length re) (length l) then Some (filter (fun p => negb (is_reinit p)) l)   (* other kinds present: all re-inits go *)
                  else Some (firstn 1 l)                                                     (* only re-inits: the first stays *)
              end
  end.
Definition pass_reinit (l : list prop) : bool :=
  match filter is_reinit l with [] => true | _ => Nat.eqb (length l) 1 end.

(* the same rule over counts, as the code decides it (ProposalBundle::length counts every kind) *)
Record pcounts := { n_psk : nat; n_extinit : nat; n_custom : nat; n_update : nat; n_add : nat; n_remove : nat; n_reinit : nat; n_gce : nat }.
Definition count_kind (f : body -> bool) (l : list prop) : nat := length (filter (fun p => f (p_body p)) l).
Definition counts_of (l : list prop) : pcounts :=
  {| n_psk := count_kind (fun b => match b with BPsk _ _ _ _ => true | _ => false end) l;
     n_extinit := count_kind (fun b => match b with BExtInit => true | _ => false end) l;
     n_custom := count_kind (fun b => match b with BCustom _ => true | _ => false end) l;
     n_update := count_kind (fun b => match b with BUpdate _ => true | _ => false end) l;
     n_add := count_kind (fun b => match b with BAdd _ _ => true | _ => false end) l;
     n_remove := count_kind (fun b => match b with BRemove _ => true | _ => false end) l;
     n_reinit := count_kind (fun b => match b with BReinit _ => true | _ => false end) l;
     n_gce := count_kind (fun b => match b with BGce _ => true | _ => false end) l |}.
Inductive reinit_verdict := RKeepAll | RError | RDropAllReinits | RKeepFirstReinit.
Definition apply_reinit_verdict (v : reinit_verdict) (l : list prop) : option (list prop) :=
  match v with
  | RKeepAll => Some l
  | RError => None
  | RDropAllReinits => Some (filter (fun p => negb (is_reinit p)) l)
  | RKeepFirstReinit => Some (firstn 1 l)
  end.

(* ---- the pointwise rules ---- *)
Definition kind_allowed (p : prop) : bool :=     (* proposer_can_propose for wire proposals *)
  match p_sender p, p_by_ref p, p_body p with
  | SMember _, false, (BAdd _ _ | BRemove _ | BPsk _ _ _ _ | BReinit _ | BGce _) => true
  | SMember _, false, BCustom _ => true
  | SMember _, false, _ => false
  | SMember _, true, BExtInit => false
  | SMember _, true, _ => true
  | SExternal, false, _ => false
  | SExternal, true, (BAdd _ _ | BRemove _ | BReinit _ | BPsk _ _ _ _ | BGce _) => true
  | SExternal, true, _ => false
  | SNewMemberCommit, _, _ => false               (* a commit from a member never carries these *)
  | SNewMemberProposal, true, BAdd _ _ => true
  | SNewMemberProposal, _, _ => false
  end.
Definition not_update_of (c : N) (p : prop) : bool :=
  match p_body p, p_sender p with BUpdate _, SMember s => negb (s =? c) | _, _ => true end.
Definition not_remove_of (c : N) (p : prop) : bool :=
  match p_body p with BRemove t => negb (t =? c) | _ => true end.
Definition psk_key (p : prop) : option N := match p_body p with BPsk id _ _ _ => Some id | _ => None end.
Definition psk_base (p : prop) : bool := match p_body p with BPsk _ t n k => t && n && k | _ => true end.
Definition gce_ok (p : prop) : bool := match p_body p with BGce ok => ok | _ => true end.
Definition gce_key (p : prop) : option N := match p_body p with BGce _ => Some 0 | _ => None end.
Definition reinit_ok (p : prop) : bool := match p_body p with BReinit v => v | _ => true end.
Definition no_ext_init (p : prop) : bool := match p_body p with BExtInit => false | _ => true end.
Definition custom_ok (p : prop) : bool := match p_body p with BCustom s => s | _ => true end.
Definition node_ok (p : prop) : bool :=          (* validate_new_nodes *)
  match p_body p with BAdd _ ok => ok | BUpdate ok => ok | _ => true end.

(* ---- batch_edit: the conflicts found while editing the tree ---- *)
Definition occupied (g : gctx) (leaf : N) : bool := existsb (fun x => fst x =? leaf) (leaves g).
Definition identity_of (g : gctx) (leaf : N) : option N :=
  match find (fun x => fst x =? leaf) (leaves g) with Some x => Some (snd x) | None => None end.

(* The three passes of batch_edit are first-wins scans as well.  In the code a key (leaf /
   identity) is marked as used only when the proposal is applied; here it is marked always,
   which gives the same verdicts because the extra condition (leaf occupied) depends on the
   key alone: a proposal that fails it is followed only by proposals with the same key that
   fail it too. *)
(* removes: applied from the LAST to the first; the leaf must be occupied and not yet removed *)
Definition rem_key (p : prop) : option N := match p_body p with BRemove t => Some t | _ => None end.
Definition rem_base (g : gctx) (p : prop) : bool := match p_body p with BRemove t => occupied g t | _ => true end.
Definition stage_removes (g : gctx) (st : strategy) (l : list prop) : option (list prop) :=
  match retain st (scan_first rem_key (rem_base g) [] (rev l)) with Some r => Some (rev r) | None => None end.
Definition pass_removes (g : gctx) (l : list prop) : bool := forallb snd (scan_first rem_key (rem_base g) [] (rev l)).

Definition removed_leaves (l : list prop) : list N :=
  concat (map (fun p => match p_body p with BRemove t => [t] | _ => [] end) l).

(* updates: the sender's leaf must be occupied, not removed by this commit, not already replaced *)
Definition upd_key (p : prop) : option N := match p_body p, p_sender p with BUpdate _, SMember s => Some s | _, _ => None end.
Definition upd_base (g : gctx) (p : prop) : bool := match p_body p, p_sender p with BUpdate _, SMember s => occupied g s | _, _ => true end.
Definition stage_updates (g : gctx) (st : strategy) (l : list prop) : option (list prop) :=
  retain st (scan_first upd_key (upd_base g) (removed_leaves l) l).
Definition pass_updates (g : gctx) (l : list prop) : bool := forallb snd (scan_first upd_key (upd_base g) (removed_leaves l) l).

(* adds: the identity must not be in the group (identities of removed leaves are free again) nor added twice *)
Definition add_key (p : prop) : option N := match p_body p with BAdd who _ => Some who | _ => None end.
Definition present (g : gctx) (gone : list N) : list N :=
  map snd (filter (fun x => negb (existsb (N.eqb (fst x)) gone)) (leaves g)).
Definition stage_adds (g : gctx) (st : strategy) (l : list prop) : option (list prop) :=
  retain st (scan_first add_key (fun _ => true) (present g (removed_leaves l)) l).
Definition pass_adds (g : gctx) (l : list prop) : bool := forallb snd (scan_first add_key (fun _ => true) (present g (removed_leaves l)) l).

Definition obind {A B} (o : option A) (f : A -> option B) : option B := match o with Some a => f a | None => None end.

(* ---- the pipeline, in the order of apply_proposals_from_member ---- *)
Definition pipeline (g : gctx) (st : strategy) (l : list prop) : option (list prop) :=
  obind (stage_pw kind_allowed st l) (fun l =>
  obind (stage_pw (not_update_of (committer g)) st l) (fun l =>
  obind (stage_pw (not_remove_of (committer g)) st l) (fun l =>
  obind (stage_first psk_key psk_base st l) (fun l =>
  obind (stage_pw gce_ok st l) (fun l =>
  obind (stage_first gce_key (fun _ => true) st l) (fun l =>
  obind (stage_pw reinit_ok st l) (fun l =>
  obind (stage_reinit st l) (fun l =>
  obind (stage_pw no_ext_init st l) (fun l =>
  obind (stage_pw custom_ok st l) (fun l =>
  obind (stage_pw node_ok st l) (fun l =>
  obind (stage_removes g st l) (fun l =>
  obind (stage_updates g st l) (fun l =>
  stage_adds g st l))))))))))))).

(* what a commit needs a path for (path_update_required): anything but adds, PSKs and re-init *)
Definition needs_path (l : list prop) : bool :=
  match l with
  | [] => true
  | _ => existsb (fun p => match p_body p with BUpdate _ | BRemove _ | BGce _ | BExtInit => true | _ => false end) l
  end.
