(* SHA-2 (FIPS 180-4) over lists of bytes (numbers below 256), generic in the word size:
   SHA-256, SHA-384, SHA-512.  Executable reference used by the key-schedule model (C13)
   and the provider comparison (C14); validated by the known-answer Examples at the end. *)
From Coq Require Import NArith List.
From MlsV Require Import Sha2Consts.
Import ListNotations.
Local Open Scope N_scope.

Record sha_params := {
  sp_w : N;                 (* word size in bits: 32 or 64 *)
  sp_k : list N;            (* round constants *)
  sp_h0 : list N;           (* initial hash value *)
  sp_S0 : N * N * N;        (* big sigma 0 rotations *)
  sp_S1 : N * N * N;
  sp_s0 : N * N * N;        (* small sigma 0: rot, rot, shift *)
  sp_s1 : N * N * N;
  sp_out : nat;             (* digest length in bytes *)
}.

Section Sha.
  Variable P : sha_params.
  Let w := sp_w P.
  Let wmask := N.ones w.
  Let wbytes : nat := N.to_nat (w / 8).
  Let block : nat := (16 * wbytes)%nat.

  Definition addw (x y : N) : N := N.land (x + y) wmask.
  Definition rotr (n x : N) : N := N.lor (N.shiftr x n) (N.land (N.shiftl x (w - n)) wmask).
  Definition notw (x : N) : N := N.lxor x wmask.

  Definition bsig (r : N * N * N) (x : N) : N :=
    let '(a, b, c) := r in N.lxor (N.lxor (rotr a x) (rotr b x)) (rotr c x).
  Definition ssig (r : N * N * N) (x : N) : N :=
    let '(a, b, c) := r in N.lxor (N.lxor (rotr a x) (rotr b x)) (N.shiftr x c).

  Fixpoint be_word (l : list N) (acc : N) : N :=
    match l with [] => acc | b :: r => be_word r (acc * 256 + b) end.

  Fixpoint word_bytes (n : nat) (x : N) : list N :=
    match n with
    | O => []
    | S n' => N.land (N.shiftr x (8 * N.of_nat n')) 255 :: word_bytes n' x
    end.

  Fixpoint chunks (fuel : nat) (size : nat) (l : list N) : list (list N) :=
    match fuel with
    | O => []
    | S f => match l with
             | [] => []
             | _ => firstn size l :: chunks f size (skipn size l)
             end
    end.

  Definition pad (msg : list N) : list N :=
    let len := length msg in
    let lenbytes := (2 * wbytes)%nat in
    let used := Nat.modulo (len + 1 + lenbytes) block in
    let zeros := if Nat.eqb used 0 then O else (block - used)%nat in
    msg ++ [128] ++ repeat 0 zeros ++ word_bytes lenbytes (8 * N.of_nat len).

  (* message schedule kept as a window of the 16 most recent words, newest first *)
  Definition next_w (win : list N) : N :=
    addw (addw (ssig (sp_s1 P) (nth 1 win 0)) (nth 6 win 0))
         (addw (ssig (sp_s0 P) (nth 14 win 0)) (nth 15 win 0)).

  Definition round (st : list N) (k wt : N) : list N :=
    match st with
    | [a; b; c; d; e; f; g; h] =>
        let ch := N.lxor (N.land e f) (N.land (notw e) g) in
        let maj := N.lxor (N.lxor (N.land a b) (N.land a c)) (N.land b c) in
        let t1 := addw (addw (addw h (bsig (sp_S1 P) e)) (addw ch k)) wt in
        let t2 := addw (bsig (sp_S0 P) a) maj in
        [addw t1 t2; a; b; c; addw d t1; e; f; g]
    | _ => st
    end.

  (* rounds 0..15 use the block words, later rounds extend the window *)
  Fixpoint rounds (ks : list N) (i : nat) (blockw : list N) (win : list N) (st : list N) : list N :=
    match ks with
    | [] => st
    | k :: ks' =>
        let wt := if Nat.ltb i 16 then nth i blockw 0 else next_w win in
        rounds ks' (S i) blockw (wt :: firstn 15 win) (round st k wt)
    end.

  Definition compress (h : list N) (blk : list N) : list N :=
    let ws := map (fun c => be_word c 0) (chunks 16 wbytes blk) in
    let st := rounds (sp_k P) 0 ws [] h in
    map (fun p => addw (fst p) (snd p)) (combine h st).

  Definition sha (msg : list N) : list N :=
    let padded := pad msg in
    let blocks := chunks (S (length padded)) block padded in
    let h := fold_left compress blocks (sp_h0 P) in
    firstn (sp_out P) (flat_map (word_bytes wbytes) h).
End Sha.

Definition P256 : sha_params :=
  {| sp_w := 32; sp_k := K256; sp_h0 := H256; sp_S0 := (2, 13, 22); sp_S1 := (6, 11, 25);
     sp_s0 := (7, 18, 3); sp_s1 := (17, 19, 10); sp_out := 32 |}.
Definition P512 : sha_params :=
  {| sp_w := 64; sp_k := K512; sp_h0 := H512; sp_S0 := (28, 34, 39); sp_S1 := (14, 18, 41);
     sp_s0 := (1, 8, 7); sp_s1 := (19, 61, 6); sp_out := 64 |}.
Definition P384 : sha_params :=
  {| sp_w := 64; sp_k := K512; sp_h0 := H384; sp_S0 := (28, 34, 39); sp_S1 := (14, 18, 41);
     sp_s0 := (1, 8, 7); sp_s1 := (19, 61, 6); sp_out := 48 |}.

Definition sha256 := sha P256.
Definition sha384 := sha P384.
Definition sha512 := sha P512.

(* known answers (FIPS 180-4 / NIST examples): "abc" and the empty string *)
Example sha256_abc : firstn 8 (sha256 [97; 98; 99]) = [186; 120; 22; 191; 143; 1; 207; 234].
Proof. vm_compute. reflexivity. Qed.
Example sha256_empty : firstn 4 (sha256 []) = [227; 176; 196; 66] /\ length (sha256 []) = 32%nat.
Proof. vm_compute. split; reflexivity. Qed.
Example sha512_abc : firstn 8 (sha512 [97; 98; 99]) = [221; 175; 53; 161; 147; 97; 122; 186].
Proof. vm_compute. reflexivity. Qed.
Example sha384_abc : firstn 8 (sha384 [97; 98; 99]) = [203; 0; 117; 63; 69; 163; 94; 139] /\ length (sha384 [97;98;99]) = 48%nat.
Proof. vm_compute. split; reflexivity. Qed.
