(* TreeKEM private state (tree_kem/private.rs TreeKemPrivate) and the public keys of the tree
   as tokens: who holds which private key after a commit.  Transcribed from
   Group::provisional_private_tree, TreeKem::encap / decap, TreeKemPrivate::update_secrets /
   update_leaf and validate_update_path (unfiltering).  Definitions only. *)
From Coq Require Import NArith List Bool Arith.
From MlsV Require Import Res TreeMathGen TreeMathProofs Tree.
Import ListNotations.
Local Open Scope N_scope.

(* the ancestor of leaf [me] at level k (k = 0: the leaf itself) *)
Definition lvl_node (k me : N) : N := node k (me / 2 ^ k).

Definition priv := list (option N).          (* position 0 = leaf, position k = level k *)
Definition keys := N -> option N.            (* node index -> public key token; None = blank *)

Definition resize (pr : priv) (n : nat) : priv := firstn n pr ++ repeat None (n - length pr).

Fixpoint mapi_from {A B} (f : nat -> A -> B) (i : nat) (l : list A) : list B :=
  match l with [] => [] | x :: r => f i x :: mapi_from f (S i) r end.
Definition mapi {A B} (f : nat -> A -> B) (l : list A) : list B := mapi_from f 0 l.

(* vector helpers of the translated loops: enumerate, in-bounds write *)
Fixpoint enumerate_from {A} (i : nat) (l : list A) : list (nat * A) :=
  match l with [] => [] | x :: r => (i, x) :: enumerate_from (S i) r end.
Definition enumerate {A} (l : list A) : list (nat * A) := enumerate_from 0 l.
Fixpoint set_nth {A} (l : list A) (i : nat) (v : A) : list A :=
  match l, i with
  | [], _ => []
  | _ :: r, O => v :: r
  | x :: r, S j => x :: set_nth r j v
  end.

(* ---- public keys ---- *)
(* after the proposals: blank nodes have no key, updated / added leaves get the key of the
   proposal, everything else keeps its key *)
Definition keys_after_proposals (ks : keys) (tprov : tree) (newleaf : N -> option N) : keys :=
  fun i => match get tprov i with
           | None => None
           | Some _ => if N.even i then match newleaf (i / 2) with Some k => Some k | None => ks i end else ks i
           end.

(* the update path: the sender's leaf and every non-filtered node of its direct path get fresh keys *)
Fixpoint path_keys (snd : N) (flt : list bool) (lvl : N) (fk : N -> N) (ks : keys) : keys :=
  match flt with
  | [] => ks
  | f :: r => let ks' := path_keys snd r (lvl + 1) fk ks in
              if f then ks' else (fun i => if i =? lvl_node lvl snd then Some (fk lvl) else ks' i)
  end.
Definition keys_after_path (ks : keys) (snd leafkey : N) (flt : list bool) (fk : N -> N) : keys :=
  fun i => if i =? 2 * snd then Some leafkey else path_keys snd flt 1 fk ks i.

(* ---- private keys ---- *)
(* Group::provisional_private_tree *)
Definition provisional_priv (tprov : tree) (me : N) (pr : priv) (own_update : option N) : res priv :=
  bind (path_nodes tprov me) (fun path =>
    ret (mapi (fun k old =>
                 match own_update with
                 | Some key => if (k =? 0)%nat then Some key else None          (* update_leaf *)
                 | None => match k with
                           | O => old
                           | S i => match nth_error path i with
                                    | Some p => match get tprov p with None => None | Some _ => old end
                                    | None => old
                                    end
                           end
                 end) (resize pr (length path + 1)))).

(* validate_update_path: one entry per direct-path position up to the last non-filtered one *)
Fixpoint upd_nodes (flt : list bool) (lvl : N) (fk : N -> N) : list (option N) :=
  match flt with
  | [] => []
  | f :: r => let rest := upd_nodes r (lvl + 1) fk in
              if f then (match rest with [] => [] | _ => None :: rest end) else Some (fk lvl) :: rest
  end.

(* TreeKem::decap, the part that writes the private keys; lca_index = leaf_lca_level - 2 *)
Definition decap_priv (pr : priv) (pathlen lca_index : nat) (nodes : list (option N)) : priv :=
  mapi (fun k old => match k with
                     | O => old
                     | S i => if (lca_index <=? i)%nat && (i <? length nodes)%nat then nth i nodes None else old
                     end) (resize pr (pathlen + 2)).

(* TreeKem::encap on the committer's side *)
Definition encap_priv (pr : priv) (pathlen : nat) (flt : list bool) (fk : N -> N) (leafkey : N) : priv :=
  mapi (fun k old => match k with
                     | O => Some leafkey
                     | S i => match nth_error flt i with
                              | Some false => Some (fk (N.of_nat (S i)))
                              | Some true => None
                              | None => old
                              end
                     end) (resize pr (pathlen + 1)).

(* TreeKemPrivate::update_secrets for a joiner: keys from the common ancestor upwards, each
   checked against the public key in the tree (PubKeyMismatch otherwise) *)
Fixpoint join_levels (ks : keys) (me : N) (jflt : list bool) (i lca_index : nat) : option (list (option N)) :=
  match jflt with
  | [] => Some []
  | f :: r =>
      match join_levels ks me r (S i) lca_index with
      | None => None
      | Some rest =>
          if (lca_index <=? i)%nat && negb f
          then match ks (lvl_node (N.of_nat (S i)) me) with Some x => Some (Some x :: rest) | None => None end
          else Some (None :: rest)
      end
  end.
Definition join_priv (ks : keys) (me leafkey : N) (jflt : list bool) (lca_index : nat) : option priv :=
  match join_levels ks me jflt 0 lca_index with Some l => Some (Some leafkey :: l) | None => None end.

(* filtered(sender): one flag per copath node *)
Fixpoint filtered_of (t : tree) (copath : list N) : res (list bool) :=
  match copath with
  | [] => ret []
  | c :: r => bind (resolution_empty t c) (fun e => bind (filtered_of t r) (fun rest => ret (e :: rest)))
  end.
Definition filtered (t : tree) (leaf : N) : res (list bool) := bind (copath_nodes t leaf) (filtered_of t).
