(* Transactional shape of a procedure: the sequence of (possible) failure points and of
   mutations of the member's state, as extracted from the Rust source by the translator
   (Gen/ProcessEffects.v).  A procedure is transactional when no failure point can be reached
   after a mutation: every error leaves the state as it was.  Definitions only. *)
From Coq Require Import NArith List Bool String.
Import ListNotations.
Local Open Scope N_scope.

Inductive ev : Type :=
| EFail (line : N)                       (* `?` or `return Err(..)` *)
| EMut (what : string) (line : N)        (* assignment to / mutating call on the member's state *)
| EFMut (what : string) (line : N)       (* a mutating step that may itself fail: assumed atomic *)
| EAlt (branches : list (list ev))       (* if / match: one branch runs (or none, when empty) *)
| ELoop (body : list ev).                (* for / while / loop: the body runs any number of times *)

(* outcome of a run: did it fail, and had the state been touched *)
Inductive outcome := Failed (dirty : bool) | Done (dirty : bool).

(* operational reading: every way the events can unfold *)
Inductive run1 : ev -> bool -> outcome -> Prop :=
| r_fail l d : run1 (EFail l) d (Failed d)
| r_pass l d : run1 (EFail l) d (Done d)
| r_mut w l d : run1 (EMut w l) d (Done true)
| r_fmut_fail w l d : run1 (EFMut w l) d (Failed d)
| r_fmut_ok w l d : run1 (EFMut w l) d (Done true)
| r_alt bs b d o : In b bs -> runs b d o -> run1 (EAlt bs) d o
| r_alt_none d : run1 (EAlt []) d (Done d)
| r_loop body d o : loops body d o -> run1 (ELoop body) d o
with runs : list ev -> bool -> outcome -> Prop :=
| r_nil d : runs [] d (Done d)
| r_cons_fail e rest d d' : run1 e d (Failed d') -> runs (e :: rest) d (Failed d')
| r_cons_ok e rest d d' o : run1 e d (Done d') -> runs rest d' o -> runs (e :: rest) d o
with loops : list ev -> bool -> outcome -> Prop :=
| l_end body d : loops body d (Done d)
| l_fail body d d' : runs body d (Failed d') -> loops body d (Failed d')
| l_iter body d d' o : runs body d (Done d') -> loops body d' o -> loops body d o.

Definition transactional (evs : list ev) : Prop := forall d, runs evs false (Failed d) -> d = false.

(* the checker: Bad line = a failure point is reachable with the state already touched;
   Good d = no such point, and d tells whether the state may be touched at the end *)
Inductive verdict := Bad (line : N) | Good (dirty : bool).

Fixpoint chk1 (e : ev) (d : bool) {struct e} : verdict :=
  let chkl := fix chkl (l : list ev) (d : bool) {struct l} : verdict :=
                match l with
                | [] => Good d
                | x :: r => match chk1 x d with Bad ln => Bad ln | Good d' => chkl r d' end
                end in
  match e with
  | EFail l => if d then Bad l else Good d
  | EMut _ _ => Good true
  | EFMut _ l => if d then Bad l else Good true
  | EAlt bs =>
      (fix alts (bs : list (list ev)) (acc : bool) {struct bs} : verdict :=
         match bs with
         | [] => Good acc
         | b :: r => match chkl b d with Bad ln => Bad ln | Good db => alts r (acc || db) end
         end) bs d
  | ELoop body =>
      match chkl body d with
      | Bad ln => Bad ln
      | Good db => if db && negb d
                   then (match chkl body true with Bad ln => Bad ln | Good _ => Good true end)
                   else Good (d || db)
      end
  end.

Fixpoint chk (l : list ev) (d : bool) : verdict :=
  match l with
  | [] => Good d
  | x :: r => match chk1 x d with Bad ln => Bad ln | Good d' => chk r d' end
  end.

Definition is_good (v : verdict) : bool := match v with Good _ => true | Bad _ => false end.

(* line numbers erased: the shape of an extracted list, stable under unrelated edits of the file *)
Fixpoint erase (e : ev) : ev :=
  match e with
  | EFail _ => EFail 0
  | EMut w _ => EMut w 0
  | EFMut w _ => EFMut w 0
  | EAlt bs => EAlt (map (fun b => map erase b) bs)
  | ELoop b => ELoop (map erase b)
  end.
Definition shape (l : list ev) : list ev := map erase l.
