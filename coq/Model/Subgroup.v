(* Membership rule for a re-initialized group and for a branch
   (group/resumption.rs check_that_subgroup_is_a_subset) over the tree model, and the parameter
   checks of ResumptionGroupBuilder::join.  Definitions only. *)
From Coq Require Import NArith List Bool.
From MlsV Require Import Tree.
Import ListNotations.
Local Open Scope N_scope.

(* identities of the members of a tree: the non-blank leaves, blanks skipped *)
Fixpoint members_from (t : tree) (even : bool) : list N :=
  match t with
  | [] => []
  | x :: r => (if even then match x with Some (Leaf id) => [id] | _ => [] end else []) ++ members_from r (negb even)
  end.
Definition members_of (t : tree) : list N := members_from t true.

Definition mem_id (x : N) (l : list N) : bool := existsb (N.eqb x) l.
Definition subset_ids (a b : list N) : bool := forallb (fun x => mem_id x b) a.

Inductive creation := Reinit | Branch.

(* as repaired: number of members, then the subset test *)
Definition subgroup_ok (typ : creation) (old_tree new_tree : tree) : bool :=
  let o := members_of old_tree in
  let n := members_of new_tree in
  match typ with
  | Reinit => Nat.eqb (length o) (length n) && subset_ids n o
  | Branch => subset_ids n o
  end.

(* as it was: number of tree NODES *)
Definition subgroup_ok_old (typ : creation) (old_tree new_tree : tree) : bool :=
  match typ with
  | Reinit => Nat.eqb (length old_tree) (length new_tree) && subset_ids (members_of new_tree) (members_of old_tree)
  | Branch => subset_ids (members_of new_tree) (members_of old_tree)
  end.

(* ResumptionGroupBuilder::join after the Welcome has been opened with the resumption PSK *)
Record params := { pr_version : N; pr_suite : N; pr_gid : N; pr_ext : N; pr_epoch : N }.
Definition join_params_ok (typ : creation) (expected got : params) : bool :=
  (pr_version got =? pr_version expected) && (pr_suite got =? pr_suite expected)
  && (match typ with Reinit => pr_gid got =? pr_gid expected | Branch => true end)
  && (pr_ext got =? pr_ext expected) && (pr_epoch got =? 1).

(* is_reinit, for the translated membership rule *)
Definition is_reinit (typ : creation) : bool := match typ with Reinit => true | Branch => false end.

(* ---- the resumption PSK of the old group on the joiner's side (Group::psk_secret) ----
   The joiner of a successor / branch group holds the old group's resumption secret under ITS OWN
   id (usage, old group id, old epoch: Group::resumption_psk_input).  The Welcome lists PSK ids;
   the joiner takes only the nonce of the first one. *)
Inductive usage := UApplication | UReinit | UBranch.
Inductive jpskid := JExternal (id : N) | JResumption (u : usage) (gid epoch : N).
Record wpsk := { w_id : jpskid; w_nonce : N }.
Inductive jres :=
  | JUnexpected                               (* MlsError::UnexpectedPskId *)
  | JInject (id : jpskid) (nonce : N)         (* PSK chain over exactly one input: this id, this nonce, the old group's secret *)
  | JResolve.                                 (* no injected PSK: the ordinary resolver *)
Definition usage_eqb (a b : usage) : bool :=
  match a, b with UApplication, UApplication | UReinit, UReinit | UBranch, UBranch => true | _, _ => false end.

Definition expected_id (typ : creation) (old_gid old_epoch : N) : jpskid :=
  JResumption (match typ with Reinit => UReinit | Branch => UBranch end) old_gid old_epoch.

Definition joiner_psk (psks : list wpsk) (additional : option jpskid) : jres :=
  match additional with
  | None => JResolve
  | Some mine =>
      match psks with
      | [] => JUnexpected
      | first :: _ =>
          match w_id first with
          | JResumption UApplication _ _ => JUnexpected
          | JResumption _ _ _ => JInject mine (w_nonce first)
          | JExternal _ => JUnexpected
          end
      end
  end.
