(* The committer's / receiver's computation of the parent hashes of an update path (tree_kem/parent_hash.rs:
   parent_hash_for_leaf and update_parent_hashes), in the shape of the code: the direct path of the leaf is
   walked from the root down; a node whose copath child has an empty resolution is skipped; every other node
   stores the hash computed so far and the next hash is ParentHash::new(its public key, that hash, the cached
   tree hash of its copath child).  The decoration of a node is (public key, parent hash); the hash cache is the
   one of Model/HashCache.v.  Definitions only. *)
From Coq Require Import NArith List Bool.
From MlsV Require Import Res TreeMathGen TreeMathProofs Tree Kem HashCache.
Import ListNotations.
Local Open Scope N_scope.

Section PHC.
  Variable PH : N -> N -> hterm -> N.      (* ParentHash::new(public_key, parent_hash, original_sibling_tree_hash) *)
  Variable enc : N * N -> N.               (* how the encoding of a node depends on its key and parent hash *)

  Definition dec := N -> N * N.
  Definition set_ph (d : dec) (n h : N) : dec := fun m => if m =? n then (fst (d m), h) else d m.

  Fixpoint ph_loop (t : tree) (c : hcache) (nodes : list CopathNode) (d : dec) (hash : N) : res (dec * N) :=
    match nodes with
    | [] => Ok (d, hash)
    | nd :: rest =>
        bind (resolution_empty t (CopathNode_copath nd)) (fun e =>
        if e then ph_loop t c rest d hash else
        match get t (CopathNode_path nd) with
        | Some (Par _) =>                                         (* borrow_as_parent_mut(node.path)? *)
            bind (hidx c (CopathNode_copath nd)) (fun sh =>       (* tree_hashes.current[node.copath] *)
            let calculated := PH (fst (d (CopathNode_path nd))) hash sh in
            ph_loop t c rest (set_ph d (CopathNode_path nd) hash) calculated)
        | _ => Panic      (* an Err the callers never see on the tree they have just updated; excluded by the theorems *)
        end)
    end.

  (* ParentHash::empty() is the empty string: 0 *)
  Definition parent_hash_for_leaf (t : tree) (c : hcache) (d : dec) (index : N) : res (dec * N) :=
    bind (direct_copath (2 * index) (total_leaf_count t)) (fun dp => ph_loop t c (rev dp) d 0).

  (* update_parent_hashes(index, verify_leaf_hash = false): hashes, parent hashes, the leaf's own, hashes again *)
  Definition update_parent_hashes (t : tree) (c : hcache) (d : dec) (index : N) : res (dec * hcache) :=
    bind (update_hashes (fun n => enc (d n)) c t [index]) (fun c1 =>
    bind (parent_hash_for_leaf t c1 d index) (fun dh =>
    let d2 := set_ph (fst dh) (2 * index) (snd dh) in
    bind (update_hashes (fun n => enc (d2 n)) c1 t [index]) (fun c2 => Ok (d2, c2)))).
End PHC.
