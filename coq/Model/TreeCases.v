(* Evaluators for the correspondence checks on the ratchet tree (C08, C02, C09). *)
From Coq Require Import NArith List Bool.
From MlsV Require Import Res TreeMathGen Tree.
Import ListNotations.
Local Open Scope N_scope.

Fixpoint listN_eqb (a b : list N) : bool :=
  match a, b with
  | [], [] => true
  | x :: a', y :: b' => N.eqb x y && listN_eqb a' b'
  | _, _ => false
  end.

Definition node_eqb (a b : option tnode) : bool :=
  match a, b with
  | None, None => true
  | Some (Leaf x), Some (Leaf y) => x =? y
  | Some (Par u), Some (Par v) => listN_eqb u v
  | _, _ => false
  end.

Fixpoint tree_eqb (a b : tree) : bool :=
  match a, b with
  | [], [] => true
  | x :: a', y :: b' => node_eqb x y && tree_eqb a' b'
  | _, _ => false
  end.

(* 0 = the model's tree equals the observed one; 1 = differs; 2 = model error; 3 = model panic *)
Definition commit_case (before : tree) (removes : list N) (updates : list (N * N)) (adds : list N)
           (path : option (N * N)) (after : tree) : N :=
  match apply_commit before removes updates adds path with
  | TOk (t, _) => if tree_eqb t after then 0 else 1
  | TErr _ => 2
  | TPanic => 3
  end.
