(* Evaluators for the correspondence checks on the ratchet tree (C08, C02, C09). *)
From Coq Require Import NArith List Bool.
From MlsV Require Import Res TreeMathGen Tree.
Import ListNotations.
Local Open Scope N_scope.

Fixpoint listN_eqb (a b : list N) : bool :=
  match a, b with
  | [], [] => true
  | x :: a', y :: b' => N.eqb x y && listN_eqb a' b'
  | _, _ => false
  end.

Definition node_eqb (a b : option tnode) : bool :=
  match a, b with
  | None, None => true
  | Some (Leaf x), Some (Leaf y) => x =? y
  | Some (Par u), Some (Par v) => listN_eqb u v
  | _, _ => false
  end.

Fixpoint tree_eqb (a b : tree) : bool :=
  match a, b with
  | [], [] => true
  | x :: a', y :: b' => node_eqb x y && tree_eqb a' b'
  | _, _ => false
  end.

(* executable form of WF5 (every non-blank parent has a non-blank leaf in each subtree), used on
   the trees exported by the implementation *)
Definition member_b (t : tree) (k j : N) : bool :=
  existsb (fun l => (l / 2 ^ k =? j) && match get t (2 * l) with None => false | Some _ => true end)
          (map N.of_nat (seq 0 (S (Nat.div (length t) 2)))).
Definition level_of (p : N) : N :=      (* number of trailing one bits *)
  (fix go (fuel : nat) (x acc : N) : N := match fuel with O => acc | S f => if N.odd x then go f (x / 2) (acc + 1) else acc end) 64%nat p 0.
Definition wf5_check (t : tree) : bool :=
  forallb (fun p => match get t p with
                    | Some (Par _) => let k1 := level_of p in
                                      let j := p / 2 ^ (k1 + 1) in
                                      member_b t (k1 - 1) (2 * j) && member_b t (k1 - 1) (2 * j + 1)
                    | _ => true end) (map N.of_nat (seq 0 (length t))).

(* 0 = the model tree equals the observed one (and it satisfies WF5); 1 = differs; 2 = model error; 3 = model panic; 4 = equal but WF5 fails *)
Definition commit_case (before : tree) (removes : list N) (updates : list (N * N)) (adds : list N)
           (path : option (N * N)) (after : tree) : N :=
  match apply_commit before removes updates adds path with
  | TOk (t, _) => if tree_eqb t after then (if wf5_check after then 0 else 4) else 1
  | TErr _ => 2
  | TPanic => 3
  end.
