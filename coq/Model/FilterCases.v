(* Case evaluator for the proposal-rule model (C10 correspondence). *)
From Coq Require Import NArith List Bool.
From MlsV Require Import Filter.
Import ListNotations.
Local Open Scope N_scope.

(* [1; tags of the kept proposals...] or [0] when the build / the validation fails *)
Definition filter_case (g : gctx) (st : strategy) (l : list prop) : list N :=
  match pipeline g st l with
  | Some k => 1 :: map p_tag k
  | None => [0]
  end.
Definition mk (tag : N) (b : body) (s : psender) (by_ref : bool) : prop := {| p_tag := tag; p_body := b; p_sender := s; p_by_ref := by_ref |}.
