(* Group state storage: the two shipped providers and the repository in front of them.
     mem_*  : mls-rs/src/storage_provider/in_memory/group_state_storage.rs (VecDeque indexed by
              id - front.id, trimmed by count)
     sql_*  : mls-rs-provider-sqlite/src/group_state.rs, the relational meaning of its SQL
              statements inside one transaction (primary key (group, epoch id), i64 range
              check, DELETE ... WHERE epoch_id <= max_inserted - retention)
     repo_* : mls-rs/src/group/state_repo.rs (pending inserts / updates, contiguity check,
              lookup order, write = store write, clear, key package delete)
   Epoch records and snapshots are opaque tokens (numbers).  Definitions only. *)
From Coq Require Import NArith List Bool.
Import ListNotations.
Local Open Scope N_scope.

Notation rec := (N * N)%type (only parsing).          (* epoch id, data token *)
Record gstore := { g_snap : option N; g_recs : list rec }.
Definition gempty : gstore := {| g_snap := None; g_recs := [] |}.

Inductive serr := EStorageFault | EOverflow | EPrimaryKey | EInvalidEpoch | EKeyPackageFault.
Inductive sres (A : Type) := SOk (a : A) | SErr (e : serr).
Arguments SOk {A} a.
Arguments SErr {A} e.

Definition last_id (l : list rec) : option N :=
  match rev l with [] => None | (i, _) :: _ => Some i end.

(* ---------------- in-memory provider ---------------- *)
Definition mem_index (l : list rec) (id : N) : option nat :=
  match l with
  | [] => None
  | (f, _) :: _ => if id <? f then None else Some (N.to_nat (id - f))
  end.

Definition mem_epoch (s : gstore) (id : N) : option N :=
  match mem_index (g_recs s) id with
  | Some i => match nth_error (g_recs s) i with Some (_, d) => Some d | None => None end
  | None => None
  end.

Fixpoint set_nth (l : list rec) (i : nat) (r : rec) : list rec :=
  match l, i with
  | [], _ => []
  | _ :: t, O => r :: t
  | h :: t, S i' => h :: set_nth t i' r
  end.

Definition mem_update (l : list rec) (r : rec) : list rec :=
  match mem_index l (fst r) with
  | Some i => if Nat.ltb i (length l) then set_nth l i r else l
  | None => l
  end.

Definition trim (retention : nat) (l : list rec) : list rec := skipn (length l - retention) l.

Definition mem_write (retention : nat) (s : gstore) (snap : N) (ins upd : list rec) : sres gstore :=
  SOk {| g_snap := Some snap; g_recs := trim retention (fold_left mem_update upd (g_recs s ++ ins)) |}.

Definition mem_max (s : gstore) : option N := last_id (g_recs s).

(* ---------------- SQLite provider ---------------- *)
Definition i64_max : N := 9223372036854775807.

Definition sql_epoch (s : gstore) (id : N) : option N :=
  match find (fun r => fst r =? id) (g_recs s) with Some (_, d) => Some d | None => None end.

Definition has_id (l : list rec) (id : N) : bool := existsb (fun r => fst r =? id) l.

(* INSERT ... one row after the other: a repeated (group, epoch id) fails the transaction *)
Fixpoint sql_inserts (l : list rec) (ins : list rec) : sres (list rec) :=
  match ins with
  | [] => SOk l
  | r :: t =>
      if i64_max <? fst r then SErr EOverflow
      else if has_id l (fst r) then SErr EPrimaryKey
      else sql_inserts (l ++ [r]) t
  end.

Definition sql_update (l : list rec) (r : rec) : list rec :=
  map (fun x => if fst x =? fst r then r else x) l.

Definition sql_max (s : gstore) : option N :=
  fold_left (fun acc r => match acc with None => Some (fst r) | Some m => Some (N.max m (fst r)) end) (g_recs s) None.

Definition sql_write (retention : N) (s : gstore) (snap : N) (ins upd : list rec) : sres gstore :=
  match sql_inserts (g_recs s) ins with
  | SErr e => SErr e
  | SOk l1 =>
      if existsb (fun r => i64_max <? fst r) upd then SErr EOverflow
      else
        let l2 := fold_left sql_update upd l1 in
        let l3 := match last_id ins with
                  | Some m => if retention <=? m
                              then filter (fun r => negb (fst r <=? m - retention)) l2
                              else l2
                  | None => l2
                  end in
        SOk {| g_snap := Some snap; g_recs := l3 |}
  end.

(* ---------------- the repository ---------------- *)
Inductive backend := Mem (retention : nat) | Sql (retention : N).

Definition st_epoch (b : backend) := match b with Mem _ => mem_epoch | Sql _ => sql_epoch end.
Definition st_max (b : backend) := match b with Mem _ => mem_max | Sql _ => sql_max end.
Definition st_write (b : backend) :=
  match b with Mem r => mem_write r | Sql r => sql_write r end.

Record repo := { pend_ins : list rec; pend_upd : list rec; store : gstore }.

(* a fault schedule: one boolean per storage call, true = that call fails *)
Definition sched := list bool.
Definition next_fault (f : sched) : bool * sched :=
  match f with [] => (false, []) | b :: t => (b, t) end.

(* insert(epoch): find_max_id consults the store only when nothing is pending *)
Definition repo_insert (b : backend) (r : repo) (e : rec) (f : sched) : sres repo * sched :=
  let '(maxid, f') :=
    match last_id (pend_ins r) with
    | Some m => (SOk (Some m), f)
    | None => let '(fail, f1) := next_fault f in
              (if fail then SErr EStorageFault else SOk (st_max b (store r)), f1)
    end in
  match maxid with
  | SErr e' => (SErr e', f')
  | SOk (Some m) => if fst e =? m + 1
                    then (SOk {| pend_ins := pend_ins r ++ [e]; pend_upd := pend_upd r; store := store r |}, f')
                    else (SErr EInvalidEpoch, f')
  | SOk None => (SOk {| pend_ins := pend_ins r ++ [e]; pend_upd := pend_upd r; store := store r |}, f')
  end.

(* get_epoch_mut: pending inserts by index, then pending updates, then the store (the record
   read from the store becomes a pending update) *)
Definition repo_get (b : backend) (r : repo) (id : N) (f : sched) : sres (option N * repo) * sched :=
  let in_pending :=
    match pend_ins r with
    | (m, _) :: _ => if m <=? id then Some (nth_error (pend_ins r) (N.to_nat (id - m))) else None
    | [] => None
    end in
  match in_pending with
  | Some o => (SOk (match o with Some (_, d) => Some d | None => None end, r), f)
  | None =>
      match find (fun x => fst x =? id) (pend_upd r) with
      | Some (_, d) => (SOk (Some d, r), f)
      | None =>
          let '(fail, f') := next_fault f in
          if fail then (SErr EStorageFault, f')
          else match st_epoch b (store r) id with
               | Some d => (SOk (Some d, {| pend_ins := pend_ins r; pend_upd := pend_upd r ++ [(id, d)]; store := store r |}), f')
               | None => (SOk (None, r), f')
               end
      end
  end.

(* write_to_storage (after the fix of F3b): store write, clear pending, key package delete *)
Definition repo_write (b : backend) (r : repo) (snap : N) (kp_pending : bool) (f : sched) : sres repo * sched :=
  let '(fail, f1) := next_fault f in
  if fail then (SErr EStorageFault, f1)
  else match st_write b (store r) snap (pend_ins r) (pend_upd r) with
       | SErr e => (SErr e, f1)
       | SOk s' =>
           let r' := {| pend_ins := []; pend_upd := []; store := s' |} in
           if kp_pending then
             let '(fail2, f2) := next_fault f1 in
             (* the state is written and the pending epochs are forgotten even when the
                key package store fails: the error is returned on top of the new state *)
             if fail2 then (SErr EKeyPackageFault, f2) else (SOk r', f2)
           else (SOk r', f1)
       end.

(* what the caller holds after repo_write: on a key package fault the repository has
   nevertheless advanced (pending cleared, store written) *)
Definition repo_after_write (b : backend) (r : repo) (snap : N) (kp_pending : bool) (f : sched) : repo :=
  let '(fail, f1) := next_fault f in
  if fail then r
  else match st_write b (store r) snap (pend_ins r) (pend_upd r) with
       | SErr _ => r
       | SOk s' => {| pend_ins := []; pend_upd := []; store := s' |}
       end.

Definition repo_load (r : repo) : option N := g_snap (store r).
