(* Evaluator used by the correspondence check of C12: runs the codec model on a byte string
   for a named type of the GENERATED table and encodes the outcome as a list of numbers the
   same way the python orchestrator encodes the outcome of the Rust implementation:
     decoded:  0 :: consumed :: mls_encoded_len :: (1 :: re-encoding | [0] when encoding fails)
     error:    [1; error code]                       unknown type: [9] *)
From Coq Require Import NArith List Bool String.
From MlsV Require Import Codec CodecTypes.
Import ListNotations.
Local Open Scope N_scope.

Definition err_code (e : derr) : N :=
  match e with
  | EUnexpectedEOF => 1
  | EInvalidVarIntPrefix => 2
  | EVarIntMinimumLengthEncoding => 3
  | EOptionOutOfRange => 4
  | EUnsupportedEnumDiscriminant => 5
  | EInvalidContent => 6
  | ECustom => 7
  | EOutOfFuel => 8
  | EIllFormedDescriptor => 9
  end.

Definition outcome (t : ty) (bs : list N) : list N :=
  match decode t None bs with
  | DOk (v, rest) =>
      0 :: N.of_nat (List.length bs - List.length rest) :: size t v ::
      match encode t v with Some b => 1 :: b | None => [0] end
  | DErr e => [1; err_code e]
  end.

(* primitive types that are not in the generated table *)
Definition prim_types : list (string * ty) := [
  ("bool"%string, TBool); ("u8"%string, TU 1); ("u16"%string, TU 2); ("u32"%string, TU 4); ("u64"%string, TU 8);
  ("Vec_u8"%string, TBytes); ("Vec_u16"%string, TVec (TU 2)); ("Vec_Vec_u8"%string, TVec TBytes);
  ("Option_u8"%string, TOpt (TU 1)); ("Option_Vec_u8"%string, TOpt TBytes); ("Vec_Option_u8"%string, TVec (TOpt (TU 1)));
  ("HashMap_u16_Vec_u8"%string, TMap false (TU 2) TBytes); ("BTreeMap_u16_Vec_u8"%string, TMap false (TU 2) TBytes);
  ("Array4"%string, TArr 4); ("SecretTree"%string, T_SecretTree (TU 4))
].

Definition lookup (name : string) : option ty :=
  match find (fun p => String.eqb (fst p) name) (prim_types ++ all_types) with
  | Some p => Some (snd p)
  | None => None
  end.

(* VarInt is not a [ty]: it only occurs as a length prefix *)
Definition outcome_varint (bs : list N) : list N :=
  match decode_varint bs with
  | DOk (n, rest) =>
      0 :: N.of_nat (List.length bs - List.length rest) :: varint_len n ::
      match encode_varint n with Some b => 1 :: b | None => [0] end
  | DErr e => [1; err_code e]
  end.

Definition run_case (name : string) (bs : list N) : list N :=
  if String.eqb name "VarInt" then outcome_varint bs
  else match lookup name with Some t => outcome t bs | None => [9] end.

Fixpoint list_eqb (a b : list N) : bool :=
  match a, b with
  | [], [] => true
  | x :: a', y :: b' => N.eqb x y && list_eqb a' b'
  | _, _ => false
  end.

(* byte strings travel as hexadecimal string literals (one token for the Coq parser) *)
Definition hexval (c : Ascii.ascii) : N :=
  let n := Ascii.N_of_ascii c in
  if (48 <=? n) && (n <=? 57) then n - 48
  else if (97 <=? n) && (n <=? 102) then n - 87
  else 0.
Fixpoint unhex (s : string) : list N :=
  match s with
  | String a (String b r) => (16 * hexval a + hexval b) :: unhex r
  | _ => []
  end.

(* mode 0: everything must agree.  mode 1 (types holding hash maps, whose re-encoding order is
   the implementation's own choice): outcome, consumed, length and re-encoded LENGTH must agree *)
Definition same (mode : N) (a b : list N) : bool :=
  if mode =? 0 then list_eqb a b
  else list_eqb (firstn 4 a) (firstn 4 b) && Nat.eqb (List.length a) (List.length b).

(* a case: type name, mode, input (hex), expected head numbers, expected re-encoding (hex) *)
Fixpoint mism_from (i : N) (cs : list (string * N * string * list N * string)) : list N :=
  match cs with
  | [] => []
  | (name, mode, bs, ehead, etail) :: r =>
      if same mode (run_case name (unhex bs)) (ehead ++ unhex etail) then mism_from (i + 1) r
      else i :: mism_from (i + 1) r
  end.
Definition codec_mismatches := mism_from 0.

(* does the type hold a hash map (mode 1) ? *)
Fixpoint has_hashmap (fuel : nat) (t : ty) : bool :=
  match t with
  | TMap ord k v => negb ord || has_hashmap fuel k || has_hashmap fuel v
  | TVec a | TOpt a | TEnum _ a | TDefault _ a => has_hashmap fuel a
  | TPair a b | TCase _ a b => has_hashmap fuel a || has_hashmap fuel b
  | TDep a f => has_hashmap fuel a   (* the dependent tails of the library's types hold no maps *)
  | _ => false
  end.
