(* SecretKeyRatchet::get_message_key / next_message_key (mls-rs/src/group/secret_tree.rs) as a
   state machine over generations.  The key material of generation g is [keyfun g]; that
   [keyfun] is the RFC 9420 ratchet formula is C13 (Proofs/KeyScheduleProofs.v
   ratchet_key_ok); here the concern is WHICH generations are handed out and how often.
   Definitions only. *)
From Coq Require Import NArith List Bool.
From MlsV Require Import Res.
Import ListNotations.
Local Open Scope N_scope.

Definition MAX_RATCHET_BACK_HISTORY : N := 1024.

Record rstate := { gen : N; hist : list N }.   (* hist: generations whose key is stored *)

Inductive rerr := KeyMissing | InvalidFutureGeneration.
Inductive rres := ROk (g : N) | RErr (e : rerr).

Definition remove_gen (g : N) (h : list N) : list N := filter (fun x => negb (x =? g)) h.
Definition has_gen (g : N) (h : list N) : bool := existsb (fun x => x =? g) h.

(* generations gen .. g-1, in order *)
Fixpoint span (n : nat) (from : N) : list N :=
  match n with O => [] | S n' => from :: span n' (from + 1) end.

(* get_message_key(generation):
     if generation < self.generation { history.remove(generation) or KeyMissing }
     if generation > self.generation + 1024 { InvalidFutureGeneration }     (u32 addition)
     while self.generation < generation { history.insert(next key) }
     next_message_key()                                                   (generation + 1, u32) *)
Definition get_message_key (s : rstate) (g : N) : res (rres * rstate) :=
  if g <? gen s then
    if has_gen g (hist s) then ret (ROk g, {| gen := gen s; hist := remove_gen g (hist s) |})
    else ret (RErr KeyMissing, s)
  else
    bind (u32_add (gen s) MAX_RATCHET_BACK_HISTORY) (fun max_allowed =>
      if max_allowed <? g then ret (RErr InvalidFutureGeneration, s)
      else
        bind (u32_add g 1) (fun g' =>
          ret (ROk g, {| gen := g'; hist := hist s ++ span (N.to_nat (g - gen s)) (gen s) |}))).

Definition next_message_key (s : rstate) : res (rres * rstate) :=
  bind (u32_add (gen s) 1) (fun g' => ret (ROk (gen s), {| gen := g'; hist := hist s |})).

Definition rinit : rstate := {| gen := 0; hist := [] |}.

(* a receiver processing a sequence of generations *)
Fixpoint run_recv (s : rstate) (gs : list N) : res (list rres * rstate) :=
  match gs with
  | [] => ret ([], s)
  | g :: r =>
      bind (get_message_key s g) (fun '(o, s') =>
      bind (run_recv s' r) (fun '(os, s'') => ret (o :: os, s'')))
  end.

Fixpoint run_send (s : rstate) (n : nat) : res (list rres * rstate) :=
  match n with
  | O => ret ([], s)
  | S n' =>
      bind (next_message_key s) (fun '(o, s') =>
      bind (run_send s' n') (fun '(os, s'') => ret (o :: os, s'')))
  end.

Definition oks (l : list rres) : list N :=
  flat_map (fun r => match r with ROk g => [g] | RErr _ => [] end) l.

(* ---- all ratchets of an epoch: one per (leaf, content kind) ---- *)
Definition rkey := (N * bool)%type.     (* leaf index, handshake? *)
Definition rkey_eqb (a b : rkey) : bool := (fst a =? fst b) && Bool.eqb (snd a) (snd b).
Definition rmap := list (rkey * rstate).

Fixpoint rget (m : rmap) (k : rkey) : rstate :=
  match m with
  | [] => rinit
  | (k', s) :: r => if rkey_eqb k' k then s else rget r k
  end.
Definition rset (m : rmap) (k : rkey) (s : rstate) : rmap := (k, s) :: m.

(* members encrypting: each send advances the sender's own ratchet of that kind *)
Fixpoint run_sends (m : rmap) (sends : list rkey) : res (list (rkey * N) * rmap) :=
  match sends with
  | [] => ret ([], m)
  | k :: r =>
      bind (next_message_key (rget m k)) (fun '(o, s') =>
      bind (run_sends (rset m k s') r) (fun '(os, m') =>
        ret (match o with ROk g => (k, g) :: os | RErr _ => os end, m')))
  end.

(* a receiver's secret tree: requests (leaf, kind, generation) in any order *)
Fixpoint run_requests (m : rmap) (reqs : list (rkey * N)) : list N :=
  match reqs with
  | [] => []
  | (k, g) :: r =>
      match get_message_key (rget m k) g with
      | Ok (ROk _, s') => 0 :: run_requests (rset m k s') r
      | Ok (RErr KeyMissing, s') => 1 :: run_requests (rset m k s') r
      | Ok (RErr InvalidFutureGeneration, s') => 2 :: run_requests (rset m k s') r
      | _ => 3 :: run_requests m r
      end
  end.
