(* Evaluator of the C14 correspondence check: the Gallina SHA-2 / HMAC / HKDF on the inputs given
   to the three providers, and the chain-validation model on the generated PKIs. *)
From Coq Require Import NArith List Bool String.
From MlsV Require Import Sha2 Codec Hkdf X509 CodecCases.
Import ListNotations.
Local Open Scope N_scope.

Definition palg (a : N) : hash_alg :=
  match a with
  | 0 => {| h_fun := sha256; h_block := 64; h_len := 32 |}
  | 1 => {| h_fun := sha384; h_block := 128; h_len := 48 |}
  | _ => {| h_fun := sha512; h_block := 128; h_len := 64 |}
  end.

Inductive pcase :=
| PHash (a : N) (data : string)
| PMac (a : N) (key data : string)
| PExtract (a : N) (salt ikm : string)
| PExpand (a : N) (prk info : string) (len : N).

Definition run_p (c : pcase) : list N :=
  match c with
  | PHash a d => h_fun (palg a) (unhex d)
  | PMac a k d => hmac (palg a) (unhex k) (unhex d)
  | PExtract a s i => hkdf_extract (palg a) (unhex s) (unhex i)
  | PExpand a p i l => hkdf_expand (palg a) (unhex p) (unhex i) (N.to_nat l)
  end.

Fixpoint list_eqb (a b : list N) : bool :=
  match a, b with
  | [], [] => true
  | x :: a', y :: b' => (x =? y) && list_eqb a' b'
  | _, _ => false
  end.

(* indices of the cases whose expected bytes differ from the Gallina value *)
Fixpoint p_mismatches_from (i : N) (l : list (pcase * string)) : list N :=
  match l with
  | [] => []
  | (c, e) :: r => (if list_eqb (run_p c) (unhex e) then [] else [i]) ++ p_mismatches_from (i + 1) r
  end.
Definition p_mismatches := p_mismatches_from 0.

(* --- X.509 *)
Fixpoint insert_all (x : cert) (l : list cert) : list (list cert) :=
  match l with
  | [] => [[x]]
  | y :: r => (x :: l) :: map (cons y) (insert_all x r)
  end.
Fixpoint perms (l : list cert) : list (list cert) :=
  match l with
  | [] => [[]]
  | x :: r => flat_map (insert_all x) (perms r)
  end.

Definition accepts (roots : list cert) (t : option N) (chain : list cert) : bool :=
  match validate roots t chain with Some _ => true | None => false end.

(* bit 0: the model's verdict; bit 1: verdict one second later; bit 2: verdict of the best
   re-ordering of the certificates after the leaf *)
Definition x509_code (roots : list cert) (t : option N) (chain : list cert) : N :=
  let a := accepts roots t chain in
  let b := accepts roots (option_map (fun x => x + 1) t) chain in
  let c := match chain with
           | [] => false
           | leaf :: rest => existsb (fun p => accepts roots t (leaf :: p)) (perms rest)
           end in
  N.b2n a + 2 * N.b2n b + 4 * N.b2n c.

Definition mk (s i b a : N) (c : bool) (sw k : N) : cert :=
  {| subject := s; issuer := i; nb := b; na := a; ca := c; signed_with := sw; key := k |}.
