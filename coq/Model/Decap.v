(* TreeKEM decap, receiver side: which ciphertext of the update-path node a receiver opens and with
   which of its keys (tree_kem/kem.rs decap, find_resolved_pos, find_ciphertext_pos), and a
   structural specification of resolutions.  Definitions only. *)
From Coq Require Import NArith List Bool Arith.
From MlsV Require Import Res TreeMathGen TreeMathProofs Tree Kem Priv.
Import ListNotations.
Local Open Scope N_scope.

(* resolution of the subtree rooted at node (k, j), by structural recursion on the level *)
Fixpoint reso_spec (t : tree) (k : nat) (j : N) : list N :=
  let x := node (N.of_nat k) j in
  match get t x with
  | Some (Leaf _) => [x]
  | Some (Par um) => x :: map (fun l => 2 * l) um
  | None => match k with
            | O => []
            | S k' => reso_spec t k' (2 * j) ++ reso_spec t k' (2 * j + 1)
            end
  end.

(* nodes visited by the stack algorithm below a node of level k *)
Fixpoint sz (k : nat) : nat := match k with O => 1%nat | S k' => (2 * sz k' + 1)%nat end.

(* find_resolved_pos: walk down from the receiver's side of the common ancestor to its first
   non-blank node; without a key there, the receiver must be an unmerged leaf: use the leaf *)
Fixpoint down (t : tree) (me : N) (k : nat) : nat :=
  match k with
  | O => O
  | S k' => match get t (lvl_node (N.of_nat k) me) with None => down t me k' | Some _ => k end
  end.
Definition resolved_pos (t : tree) (me : N) (pr : priv) (k : nat) : nat :=
  let k' := down t me k in
  match nth_error pr k' with Some (Some _) => k' | _ => O end.

Fixpoint index_of (x : N) (l : list N) : option nat :=
  match l with
  | [] => None
  | y :: r => if x =? y then Some O else option_map S (index_of x r)
  end.

(* find_ciphertext_pos keeps parents and the leaves that were not added by this commit *)
Definition keep (excl : list N) (idx : N) : bool := N.odd idx || negb (mem (idx / 2) excl).

(* (position of the ciphertext in the update-path node, private key used); k = level of the
   receiver's child of the common ancestor (lca_index) *)
Definition decap_select (t : tree) (me : N) (pr : priv) (k : nat) (excl : list N) : res (option (nat * N)) :=
  let rp := resolved_pos t me pr k in
  bind (resolution_of t (lvl_node (N.of_nat k) me)) (fun r =>
    ret (match index_of (lvl_node (N.of_nat rp) me) (filter (keep excl) r), nth_error pr rp with
         | Some i, Some (Some key) => Some (i, key)
         | _, _ => None
         end)).

(* what the committer sealed to, in order, for that copath node (Kem.recipients_of) *)
Definition sealed_to (t : tree) (c : N) (excl : list N) : res (list N) :=
  bind (resolution_of t c) (fun r => ret (filter (not_excluded excl) r)).
