(* A second analysis of the extracted effect lists (Gen/ProcessEffects.v): on every successful
   run in which a TRIGGER mutation is executed (e.g. the new epoch's key schedule is installed), a
   TARGET mutation is executed as well (e.g. the pending commit is cleared).  Definitions only. *)
From Coq Require Import NArith List Bool String.
From MlsV Require Import Effects.
Import ListNotations.
Local Open Scope N_scope.

Section MH.
  Variable trig tg : string -> bool.

  (* state of a run: was a trigger executed, was the target executed *)
  Definition st2 := (bool * bool)%type.
  Definition upd (w : string) (s : st2) : st2 := (fst s || trig w, snd s || tg w).

  Inductive out2 := Failed2 | Done2 (s : st2).

  Inductive mrun1 : ev -> st2 -> out2 -> Prop :=
  | m_fail l s : mrun1 (EFail l) s Failed2
  | m_pass l s : mrun1 (EFail l) s (Done2 s)
  | m_mut w l s : mrun1 (EMut w l) s (Done2 (upd w s))
  | m_fmut_fail w l s : mrun1 (EFMut w l) s Failed2
  | m_fmut_ok w l s : mrun1 (EFMut w l) s (Done2 (upd w s))
  | m_alt bs b s o : In b bs -> mruns b s o -> mrun1 (EAlt bs) s o
  | m_alt_none s : mrun1 (EAlt []) s (Done2 s)
  | m_loop body s o : mloops body s o -> mrun1 (ELoop body) s o
  with mruns : list ev -> st2 -> out2 -> Prop :=
  | m_nil s : mruns [] s (Done2 s)
  | m_cons_fail e rest s : mrun1 e s Failed2 -> mruns (e :: rest) s Failed2
  | m_cons_ok e rest s s' o : mrun1 e s (Done2 s') -> mruns rest s' o -> mruns (e :: rest) s o
  with mloops : list ev -> st2 -> out2 -> Prop :=
  | ml_end body s : mloops body s (Done2 s)
  | ml_fail body s : mruns body s Failed2 -> mloops body s Failed2
  | ml_iter body s s' o : mruns body s (Done2 s') -> mloops body s' o -> mloops body s o.

  Definition must_hit (evs : list ev) : Prop :=
    forall s, mruns evs (false, false) (Done2 s) -> fst s = true -> snd s = true.

  (* ---- the checker: the set of states a successful run can end in ---- *)
  Record sset := { s_ff : bool; s_ft : bool; s_tf : bool; s_tt : bool }.
  Definition smem (s : st2) (X : sset) : bool :=
    match s with (false, false) => s_ff X | (false, true) => s_ft X | (true, false) => s_tf X | (true, true) => s_tt X end.
  Definition sempty := {| s_ff := false; s_ft := false; s_tf := false; s_tt := false |}.
  Definition stop := {| s_ff := true; s_ft := true; s_tf := true; s_tt := true |}.
  Definition sunion (X Y : sset) := {| s_ff := s_ff X || s_ff Y; s_ft := s_ft X || s_ft Y; s_tf := s_tf X || s_tf Y; s_tt := s_tt X || s_tt Y |}.
  Definition ssingle (s : st2) : sset :=
    match s with (false, false) => {| s_ff := true; s_ft := false; s_tf := false; s_tt := false |}
               | (false, true) => {| s_ff := false; s_ft := true; s_tf := false; s_tt := false |}
               | (true, false) => {| s_ff := false; s_ft := false; s_tf := true; s_tt := false |}
               | (true, true) => {| s_ff := false; s_ft := false; s_tf := false; s_tt := true |} end.
  Definition ssub (X Y : sset) : bool := implb (s_ff X) (s_ff Y) && implb (s_ft X) (s_ft Y) && implb (s_tf X) (s_tf Y) && implb (s_tt X) (s_tt Y).
  Definition simage (f : st2 -> st2) (X : sset) : sset :=
    sunion (sunion (if s_ff X then ssingle (f (false, false)) else sempty) (if s_ft X then ssingle (f (false, true)) else sempty))
           (sunion (if s_tf X then ssingle (f (true, false)) else sempty) (if s_tt X then ssingle (f (true, true)) else sempty)).

  Fixpoint post1 (e : ev) (X : sset) {struct e} : sset :=
    let postl := fix postl (l : list ev) (X : sset) {struct l} : sset :=
                   match l with [] => X | x :: r => postl r (post1 x X) end in
    match e with
    | EFail _ => X
    | EMut w _ => simage (upd w) X
    | EFMut w _ => simage (upd w) X
    | EAlt bs =>
        match bs with
        | [] => X
        | _ => (fix alts (bs : list (list ev)) : sset :=
                  match bs with [] => sempty | b :: r => sunion (postl b X) (alts r) end) bs
        end
    | ELoop body =>
        (* three rounds of the body reach every combination of the two flags; if the result is
           not closed under the body, give up (every state) *)
        let X1 := sunion X (postl body X) in
        let X2 := sunion X1 (postl body X1) in
        let X3 := sunion X2 (postl body X2) in
        if ssub (postl body X3) X3 then X3 else stop
    end.
  Fixpoint post (l : list ev) (X : sset) : sset :=
    match l with [] => X | x :: r => post r (post1 x X) end.

  Definition must_hit_chk (evs : list ev) : bool := negb (s_tf (post evs (ssingle (false, false)))).
End MH.
