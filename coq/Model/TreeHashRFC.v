(* RFC 9420 section 7.8 tree hash, computed from scratch from an exported ratchet tree
   (the byte string a member exports).  Written from the RFC text:

     struct { uint32 leaf_index; optional<LeafNode> leaf_node; } LeafNodeHashInput;
     struct { optional<ParentNode> parent_node; opaque left_hash<V>; opaque right_hash<V>; } ParentNodeHashInput;
     struct { NodeType node_type; select { leaf: LeafNodeHashInput; parent: ParentNodeHashInput } } TreeHashInput;

   over the full tree with 2^d leaves (the array padded with blank nodes), node positions by
   the in-order numbering [node k j = (2j+1)*2^k - 1].  Only the boundaries of the nodes
   inside the exported byte string come from the generated descriptor of the exported tree;
   the hashed bytes of a node are its own encoding.  Independent of tree_hash.rs. *)
From Coq Require Import NArith List Bool String.
From MlsV Require Import Sha2 Codec Hkdf KeyScheduleRFC CodecTypes CodecCases KsCases.
Import ListNotations.
Local Open Scope N_scope.

(* the nodes of an exported tree as optional node values *)
Fixpoint chain_to_list (v : val) : list val :=
  match v with VCons h t => h :: chain_to_list t | _ => [] end.

Definition export_nodes (bytes : list N) : option (list val) :=
  match decode T_ExportedTree None bytes with
  | DOk (v, []) => Some (chain_to_list v)
  | _ => None
  end.

Definition node_pos (k j : N) : N := (2 * j + 1) * 2 ^ k - 1.

Definition node_at (nodes : list val) (i : N) : val := nth (N.to_nat i) nodes VNone.

(* encoding of optional<LeafNode> / optional<ParentNode> for the node stored at index i;
   [None] when the stored node is of the wrong kind for that position *)
Definition opt_leaf_bytes (nodes : list val) (i : N) : option (list N) :=
  match node_at nodes i with
  | VNone => Some [0]
  | VSome (VEnum 1 leaf) => match encode T_LeafNode leaf with Some b => Some (1 :: b) | None => None end
  | _ => None
  end.
Definition opt_parent_bytes (nodes : list val) (i : N) : option (list N) :=
  match node_at nodes i with
  | VNone => Some [0]
  | VSome (VEnum 2 p) => match encode T_Parent p with Some b => Some (1 :: b) | None => None end
  | _ => None
  end.

Section TH.
  Variable H : hash_alg.
  Variable nodes : list val.

  Fixpoint tree_hash_at (k : nat) (j : N) : option (list N) :=
    match k with
    | O => match opt_leaf_bytes nodes (2 * j) with
           | Some b => Some (h_fun H ([1] ++ u32be j ++ b))
           | None => None end
    | S k' =>
        match opt_parent_bytes nodes (node_pos (N.of_nat k) j), tree_hash_at k' (2 * j), tree_hash_at k' (2 * j + 1) with
        | Some b, Some l, Some r => Some (h_fun H ([2] ++ b ++ vbytes l ++ vbytes r))
        | _, _, _ => None
        end
    end.
End TH.

Fixpoint depth_for (fuel : nat) (d : nat) (leaves : N) : nat :=
  match fuel with
  | O => d
  | S f => if leaves <=? 2 ^ N.of_nat d then d else depth_for f (S d) leaves
  end.

Definition tree_hash_of_export (a : N) (bytes : list N) : option (list N) :=
  match export_nodes bytes with
  | Some nodes =>
      let leaves := N.of_nat (List.length nodes) / 2 + 1 in
      tree_hash_at (alg a) nodes (depth_for 40 0 leaves) 0
  | None => None
  end.

Definition tree_hash_case (a : N) (tree_hex expected_hex : string) : N :=
  match tree_hash_of_export a (unhex tree_hex) with
  | Some h => if list_eqb h (unhex expected_hex) then 0 else 1
  | None => 2
  end.

(* ------------------------------------------------------------------------------------------
   RFC 9420 section 7.9: parent hashes, verified from scratch on an exported tree.

     struct { HPKEPublicKey encryption_key; opaque parent_hash<V>;
              opaque original_sibling_tree_hash<V>; } ParentHashInput;

   A non-blank parent P is parent-hash valid if, for one of its children C (S the other one),
   some node D in the resolution of C carries parent_hash = H(ParentHashInput(P, tree hash of S
   with P's unmerged leaves removed)) and P's unmerged leaves below C are exactly the rest of
   the resolution of C.  The tree is valid when every non-blank parent is.  Independent of
   parent_hash.rs. *)
Definition par_key (p : val) : list N := match p with VCons (VBytes k) _ => k | _ => [] end.
Definition par_ph (p : val) : list N := match p with VCons _ (VCons (VBytes h) _) => h | _ => [] end.
Fixpoint vec_u (v : val) : list N := match v with VCons (VU n) t => n :: vec_u t | _ => [] end.
Definition par_um (p : val) : list N := match p with VCons _ (VCons _ (VCons um _)) => vec_u um | _ => [] end.
Fixpoint u_vec (l : list N) : val := match l with [] => VNil | n :: r => VCons (VU n) (u_vec r) end.
Definition par_with_um (p : val) (um : list N) : val :=
  match p with VCons k (VCons h (VCons _ rest)) => VCons k (VCons h (VCons (u_vec um) rest)) | _ => p end.
(* parent_hash carried by a leaf (only leaves created by a commit have one) *)
Definition leaf_ph (l : val) : option (list N) :=
  match l with
  | VCons _ (VCons _ (VCons _ (VCons (VEnum 3 (VBytes h)) _))) => Some h
  | _ => None
  end.
Definition memN (x : N) (l : list N) : bool := existsb (N.eqb x) l.

Section PH.
  Variable H : hash_alg.
  Variable nodes : list val.

  (* tree hash of the subtree (k, j) with the leaves in [excl] removed (blank, and dropped from
     every unmerged list) *)
  Fixpoint tree_hash_excl (excl : list N) (k : nat) (j : N) : option (list N) :=
    match k with
    | O => let b := if memN j excl then Some [0] else opt_leaf_bytes nodes (2 * j) in
           match b with Some b => Some (h_fun H ([1] ++ u32be j ++ b)) | None => None end
    | S k' =>
        let pb := match node_at nodes (node_pos (N.of_nat k) j) with
                  | VNone => Some [0]
                  | VSome (VEnum 2 p) =>
                      match encode T_Parent (par_with_um p (filter (fun l => negb (memN l excl)) (par_um p))) with
                      | Some b => Some (1 :: b) | None => None end
                  | _ => None
                  end in
        match pb, tree_hash_excl excl k' (2 * j), tree_hash_excl excl k' (2 * j + 1) with
        | Some b, Some l, Some r => Some (h_fun H ([2] ++ b ++ vbytes l ++ vbytes r))
        | _, _, _ => None
        end
    end.

  (* resolution of the subtree (k, j) as node indices *)
  Fixpoint reso_nodes (k : nat) (j : N) : list N :=
    let x := node_pos (N.of_nat k) j in
    match node_at nodes x with
    | VSome (VEnum 1 _) => [x]
    | VSome (VEnum 2 p) => x :: map (fun l => 2 * l) (par_um p)
    | _ => match k with O => [] | S k' => reso_nodes k' (2 * j) ++ reso_nodes k' (2 * j + 1) end
    end.

  Definition node_parent_hash (x : N) : option (list N) :=
    match node_at nodes x with
    | VSome (VEnum 1 l) => leaf_ph l
    | VSome (VEnum 2 p) => Some (par_ph p)
    | _ => None
    end.

  Fixpoint remove1 (x : N) (l : list N) : list N :=
    match l with [] => [] | y :: r => if x =? y then r else y :: remove1 x r end.
  Fixpoint same_set (a b : list N) : bool :=
    match a with
    | [] => match b with [] => true | _ => false end
    | x :: r => memN x b && same_set r (remove1 x b)
    end.

  (* P = node (S k', j); C = child (k', jc), S = child (k', js) *)
  Definition valid_via (p : val) (k' : nat) (jc js : N) : bool :=
    match tree_hash_excl (par_um p) k' js with
    | None => false
    | Some sh =>
        let expect := h_fun H (vbytes (par_key p) ++ vbytes (par_ph p) ++ vbytes sh) in
        let res := reso_nodes k' jc in
        let um_below := map (fun l => 2 * l) (filter (fun l => l / 2 ^ N.of_nat k' =? jc) (par_um p)) in
        existsb (fun d => match node_parent_hash d with
                          | Some h => list_eqb h expect && same_set (remove1 d res) um_below
                          | None => false end) res
    end.

  Fixpoint all_parents_valid (k : nat) (j : N) : bool :=
    match k with
    | O => true
    | S k' =>
        (match node_at nodes (node_pos (N.of_nat k) j) with
         | VSome (VEnum 2 p) => valid_via p k' (2 * j) (2 * j + 1) || valid_via p k' (2 * j + 1) (2 * j)
         | _ => true
         end) && all_parents_valid k' (2 * j) && all_parents_valid k' (2 * j + 1)
    end.
End PH.

(* 0 = every non-blank parent is parent-hash valid; 1 = some parent is not; 2 = undecodable *)
Definition parent_hash_case (a : N) (tree_hex : string) : N :=
  match export_nodes (unhex tree_hex) with
  | Some nodes =>
      let leaves := N.of_nat (List.length nodes) / 2 + 1 in
      if all_parents_valid (alg a) nodes (depth_for 40 0 leaves) 0 then 0 else 1
  | None => 2
  end.

(* ------------------------------------------------------------------------------------------
   The member's whole hash cache (TreeKemPublic::tree_hashes.current, one entry per node of the full
   tree) against the hashes of all subtrees recomputed from scratch from the member's own node vector.
   Both are read from the state snapshot of the member (Snapshot -> RawGroupState -> TreeKemPublic),
   decoded with the generated descriptor. *)
Section ALL.
  Variable H : hash_alg.
  Variable nodes : list val.
  (* hash of the subtree (k, j) and the hashes of all nodes below it, keyed by node index *)
  Fixpoint subtree_hashes (k : nat) (j : N) : option (list N * list (N * list N)) :=
    match k with
    | O => match opt_leaf_bytes nodes (2 * j) with
           | Some b => let h := h_fun H ([1] ++ u32be j ++ b) in Some (h, [(2 * j, h)])
           | None => None end
    | S k' =>
        match opt_parent_bytes nodes (node_pos (N.of_nat k) j), subtree_hashes k' (2 * j), subtree_hashes k' (2 * j + 1) with
        | Some b, Some (l, ll), Some (r, rl) =>
            let h := h_fun H ([2] ++ b ++ vbytes l ++ vbytes r) in Some (h, (node_pos (N.of_nat k) j, h) :: ll ++ rl)
        | _, _, _ => None
        end
    end.
End ALL.

Definition val_bytes (v : val) : list N := match v with VBytes b => b | _ => [] end.

(* (node vector, hash cache) of a member's snapshot *)
Definition snapshot_tree (bytes : list N) : option (list val * list (list N)) :=
  match decode T_Snapshot None bytes with
  | DOk (VCons _ (VCons (VCons _ (VCons _ (VCons _ (VCons (VCons _ (VCons nodes (VCons (VCons hashes _) _))) _)))) _), _) =>
      Some (chain_to_list nodes, map val_bytes (chain_to_list hashes))
  | _ => None
  end.

(* 0 = every cache entry is the from-scratch hash of its subtree and the cache has one entry per node of the
   full tree; 1 = an entry differs or the cache has the wrong length; 2 = undecodable; 3 = the cache is empty
   (never computed yet) *)
Definition cache_case (a : N) (snapshot_hex : string) : N :=
  match snapshot_tree (unhex snapshot_hex) with
  | Some (nodes, cache) =>
      match cache with
      | [] => 3
      | _ =>
        let leaves := N.of_nat (List.length nodes) / 2 + 1 in
        let d := depth_for 40 0 leaves in
        match subtree_hashes (alg a) nodes d 0 with
        | Some (_, all) =>
            if Nat.eqb (List.length cache) (List.length all) &&
               forallb (fun ih => list_eqb (snd ih) (nth (N.to_nat (fst ih)) cache [])) all then 0 else 1
        | None => 2
        end
      end
  | None => 2
  end.
