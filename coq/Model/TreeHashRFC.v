(* RFC 9420 section 7.8 tree hash, computed from scratch from an exported ratchet tree
   (the byte string a member exports).  Written from the RFC text:

     struct { uint32 leaf_index; optional<LeafNode> leaf_node; } LeafNodeHashInput;
     struct { optional<ParentNode> parent_node; opaque left_hash<V>; opaque right_hash<V>; } ParentNodeHashInput;
     struct { NodeType node_type; select { leaf: LeafNodeHashInput; parent: ParentNodeHashInput } } TreeHashInput;

   over the full tree with 2^d leaves (the array padded with blank nodes), node positions by
   the in-order numbering [node k j = (2j+1)*2^k - 1].  Only the boundaries of the nodes
   inside the exported byte string come from the generated descriptor of the exported tree;
   the hashed bytes of a node are its own encoding.  Independent of tree_hash.rs. *)
From Coq Require Import NArith List Bool String.
From MlsV Require Import Sha2 Codec Hkdf KeyScheduleRFC CodecTypes CodecCases KsCases.
Import ListNotations.
Local Open Scope N_scope.

(* the nodes of an exported tree as optional node values *)
Fixpoint chain_to_list (v : val) : list val :=
  match v with VCons h t => h :: chain_to_list t | _ => [] end.

Definition export_nodes (bytes : list N) : option (list val) :=
  match decode T_ExportedTree None bytes with
  | DOk (v, []) => Some (chain_to_list v)
  | _ => None
  end.

Definition node_pos (k j : N) : N := (2 * j + 1) * 2 ^ k - 1.

Definition node_at (nodes : list val) (i : N) : val := nth (N.to_nat i) nodes VNone.

(* encoding of optional<LeafNode> / optional<ParentNode> for the node stored at index i;
   [None] when the stored node is of the wrong kind for that position *)
Definition opt_leaf_bytes (nodes : list val) (i : N) : option (list N) :=
  match node_at nodes i with
  | VNone => Some [0]
  | VSome (VEnum 1 leaf) => match encode T_LeafNode leaf with Some b => Some (1 :: b) | None => None end
  | _ => None
  end.
Definition opt_parent_bytes (nodes : list val) (i : N) : option (list N) :=
  match node_at nodes i with
  | VNone => Some [0]
  | VSome (VEnum 2 p) => match encode T_Parent p with Some b => Some (1 :: b) | None => None end
  | _ => None
  end.

Section TH.
  Variable H : hash_alg.
  Variable nodes : list val.

  Fixpoint tree_hash_at (k : nat) (j : N) : option (list N) :=
    match k with
    | O => match opt_leaf_bytes nodes (2 * j) with
           | Some b => Some (h_fun H ([1] ++ u32be j ++ b))
           | None => None end
    | S k' =>
        match opt_parent_bytes nodes (node_pos (N.of_nat k) j), tree_hash_at k' (2 * j), tree_hash_at k' (2 * j + 1) with
        | Some b, Some l, Some r => Some (h_fun H ([2] ++ b ++ vbytes l ++ vbytes r))
        | _, _, _ => None
        end
    end.
End TH.

Fixpoint depth_for (fuel : nat) (d : nat) (leaves : N) : nat :=
  match fuel with
  | O => d
  | S f => if leaves <=? 2 ^ N.of_nat d then d else depth_for f (S d) leaves
  end.

Definition tree_hash_of_export (a : N) (bytes : list N) : option (list N) :=
  match export_nodes bytes with
  | Some nodes =>
      let leaves := N.of_nat (List.length nodes) / 2 + 1 in
      tree_hash_at (alg a) nodes (depth_for 40 0 leaves) 0
  | None => None
  end.

Definition tree_hash_case (a : N) (tree_hex expected_hex : string) : N :=
  match tree_hash_of_export a (unhex tree_hex) with
  | Some h => if list_eqb h (unhex expected_hex) then 0 else 1
  | None => 2
  end.
