(* The incrementally maintained tree-hash cache (tree_kem/tree_hash.rs: tree_hash, update_hashes,
   initialize_hashes), in the shape of the code: a vector of hashes indexed by node, resized to the full
   tree, the listed leaves recomputed and then their ancestors in the order of a FIFO queue.
   Hashes are symbolic: a term records exactly what hash_for_leaf / hash_for_parent put into the hash
   function (the leaf index and the leaf node; the parent node with the filtered leaves taken out of its
   unmerged list, and the two child hashes), so that two caches are equal as terms iff the hashed inputs are
   equal.  [pay] stands for everything a node carries beyond the tree model (keys, parent hash, credential).
   Definitions only. *)
From Coq Require Import NArith List Bool.
From MlsV Require Import Res TreeMathGen TreeMathProofs Tree Kem.
Import ListNotations.
Local Open Scope N_scope.

Inductive hterm :=
| HDefault                                              (* TreeHash::default() *)
| HLeaf (l : N) (nd : option (N * N))                   (* LeafNodeHashInput *)
| HPar (nd : option (N * list N)) (lh rh : hterm).      (* ParentNodeTreeHashInput *)
Definition hcache := list hterm.

(* hashes[i] and hashes[i] = v: out of range is a panic *)
Definition hidx (c : hcache) (i : N) : res hterm :=
  match nth_error c (N.to_nat i) with Some h => Ok h | None => Panic end.
Fixpoint hset_at (c : hcache) (i : nat) (v : hterm) : res hcache :=
  match c, i with
  | [], _ => Panic
  | _ :: r, O => Ok (v :: r)
  | h :: r, S i' => bind (hset_at r i' v) (fun r' => Ok (h :: r'))
  end.
Definition hset (c : hcache) (i : N) (v : hterm) : res hcache := hset_at c (N.to_nat i) v.

(* Vec::resize(n, TreeHash::default()) *)
Definition hresize (c : hcache) (n : N) : hcache :=
  firstn (N.to_nat n) c ++ repeat HDefault (N.to_nat n - length c).

(* (0..n).map(LeafIndex::unchecked) *)
Definition leaf_range (n : N) : list N := map N.of_nat (seq 0 (N.to_nat n)).

Section Cache.
  Variable pay : N -> N.

  (* nodes.borrow_as_leaf(l).ok() / nodes.borrow_as_parent(n).ok() *)
  Definition leaf_of (t : tree) (l : N) : option (N * N) :=
    match get t (2 * l) with Some (Leaf id) => Some (id, pay (2 * l)) | _ => None end.
  Definition parent_of (t : tree) (n : N) : option (N * list N) :=
    match get t n with Some (Par um) => Some (pay n, um) | _ => None end.

  Definition hash_for_leaf (l : N) (leaf : option (N * N)) : hterm := HLeaf l leaf.
  (* unmerged_leaves.retain(|u| !filtered.contains(u)) *)
  Definition hash_for_parent (p : option (N * list N)) (filtered : list N) (lh rh : hterm) : hterm :=
    HPar (match p with Some (x, um) => Some (x, filter (fun u => negb (mem u filtered)) um) | None => None end) lh rh.

  Definition push_parent (q : list N) (n num_leaves : N) : res (list N) :=
    bind (parent_sibling n num_leaves) (fun ps =>
    ret (match ps with Some ps => q ++ [ParentSibling_parent ps] | None => q end)).

  (* the first loop: each listed leaf below num_leaves is hashed and its parent queued *)
  Fixpoint leaf_pass (t : tree) (filtered : list N) (num_leaves : N) (ls : list N) (c : hcache) (q : list N)
    : res (hcache * list N) :=
    match ls with
    | [] => Ok (c, q)
    | l :: ls' =>
        if l <? num_leaves then
          let leaf := if negb (mem l filtered) then leaf_of t l else None in
          bind (hset c (2 * l) (hash_for_leaf l leaf)) (fun c' =>
          bind (push_parent q (2 * l) num_leaves) (fun q' =>
          leaf_pass t filtered num_leaves ls' c' q'))
        else leaf_pass t filtered num_leaves ls' c q
    end.

  (* the second loop: while let Some(n) = node_queue.pop_front() *)
  Fixpoint queue_pass (fuel : nat) (t : tree) (filtered : list N) (num_leaves : N) (q : list N) (c : hcache)
    : res hcache :=
    match q with
    | [] => Ok c
    | n :: q' =>
        match fuel with
        | O => OutOfFuel
        | S f =>
            bind (left_unchecked n) (fun ln => bind (hidx c ln) (fun lh =>
            bind (right_unchecked n) (fun rn => bind (hidx c rn) (fun rh =>
            bind (hset c n (hash_for_parent (parent_of t n) filtered lh rh)) (fun c' =>
            bind (push_parent q' n num_leaves) (fun q'' =>
            queue_pass f t filtered num_leaves q'' c'))))))
        end
    end.

  (* fn tree_hash(hashes, nodes, leaves_to_update, filtered_leaves, num_leaves): every queue entry is one of
     at most 32 ancestors of a listed leaf *)
  Definition tree_hash (c : hcache) (t : tree) (leaves_to_update : option (list N)) (filtered : list N)
    (num_leaves : N) : res hcache :=
    let ls := match leaves_to_update with Some ls => ls | None => leaf_range num_leaves end in
    bind (u64_mul num_leaves 2) (fun x => bind (u64_sub x 1) (fun len =>
    let c0 := hresize c len in
    bind (leaf_pass t filtered num_leaves ls c0 []) (fun cq =>
    queue_pass (33 * S (length ls)) t filtered num_leaves (snd cq) (fst cq)))).

  (* the trailing leaves the cache does not reach yet: (0..num_leaves).rev().map_while(|l| current.get(2*l).is_none()) *)
  Fixpoint uncached_from (fuel : nat) (c : hcache) (l : N) : list N :=
    match fuel with
    | O => []
    | S f => if l =? 0 then [] else
             if N.of_nat (length c) <=? 2 * (l - 1) then (l - 1) :: uncached_from f c (l - 1) else []
    end.
  Definition uncached (c : hcache) (num_leaves : N) : list N := uncached_from (S (N.to_nat num_leaves)) c num_leaves.

  (* TreeKemPublic::update_hashes *)
  Definition update_hashes (c : hcache) (t : tree) (updated : list N) : res hcache :=
    let num_leaves := total_leaf_count t in
    tree_hash c t (Some (updated ++ uncached c num_leaves)) [] num_leaves.

  (* TreeKemPublic::initialize_hashes *)
  Definition initialize_hashes (c : hcache) (t : tree) : res hcache :=
    match c with
    | [] => tree_hash c t None [] (total_leaf_count t)
    | _ => Ok c
    end.

  (* the hash of the subtree below (k, j) computed from scratch (RFC 9420 7.8) *)
  Fixpoint thash (t : tree) (filtered : list N) (k : nat) (j : N) : hterm :=
    match k with
    | O => hash_for_leaf j (if negb (mem j filtered) then leaf_of t j else None)
    | S k' => hash_for_parent (parent_of t (node (N.of_nat k) j)) filtered
                (thash t filtered k' (2 * j)) (thash t filtered k' (2 * j + 1))
    end.
End Cache.
