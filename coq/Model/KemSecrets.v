(* The chain of path secrets of a commit (tree_kem/kem.rs encap / decap, path_secret.rs
   PathSecretGenerator): the committer draws one secret and derives the next one for every
   non-filtered node of its direct path, the commit secret is the one after the last; a
   receiver starts from the secret of the common ancestor.  Secrets are terms over an abstract
   derivation function.  Definitions only. *)
From Coq Require Import NArith List Bool.
Import ListNotations.

Section Secrets.
  Variable sec : Type.
  Variable derive : sec -> sec.      (* DeriveSecret(path_secret, "path") *)

  (* committer: per level of its direct path the node secret (None when filtered), and the commit secret *)
  Fixpoint committer_chain (flt : list bool) (cur : sec) : list (option sec) * sec :=
    match flt with
    | [] => ([], cur)
    | true :: r => let '(ns, cs) := committer_chain r cur in (None :: ns, cs)
    | false :: r => let '(ns, cs) := committer_chain r (derive cur) in (Some cur :: ns, cs)
    end.

  (* receiver: [start] is the secret it decrypted for the node at the head of [flt] (non-filtered) *)
  Definition receiver_chain (flt : list bool) (start : sec) : list (option sec) * sec := committer_chain flt start.

  (* first secret at or after position i *)
  Definition secret_at (ns : list (option sec)) (i : nat) : option sec := nth i ns None.
End Secrets.
