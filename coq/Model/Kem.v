(* TreeKEM: who the fresh path secrets are encrypted to (tree_kem/kem.rs encap /
   encrypt_copath_node_resolution), over the tree model.  Definitions only. *)
From Coq Require Import NArith List Bool.
From MlsV Require Import Res TreeMathGen Tree.
Import ListNotations.
Local Open Scope N_scope.

Definition mem (x : N) (l : list N) : bool := existsb (N.eqb x) l.

(* excluded = leaves added by this very commit, as node indices 2*l *)
Definition not_excluded (excl : list N) (x : N) : bool := negb (mem x (map (fun l => 2 * l) excl)).

(* per unfiltered position of the committer's direct path: (path node, recipients) where the
   recipients are the resolution of the copath node minus the excluded leaves *)
Fixpoint recipients_of (t : tree) (path copath : list N) (excl : list N) : res (list (N * list N)) :=
  match path, copath with
  | p :: pr, c :: cr =>
      bind (resolution_of t c) (fun r =>
      bind (recipients_of t pr cr excl) (fun rest =>
        match r with
        | [] => ret rest                                   (* filtered: no secret for this node *)
        | _ => ret ((p, filter (not_excluded excl) r) :: rest)
        end))
  | _, _ => ret []
  end.

Definition encap_recipients (t : tree) (sender : N) (excl : list N) : res (list (N * list N)) :=
  bind (path_nodes t sender) (fun path =>
  bind (copath_nodes t sender) (fun copath => recipients_of t path copath excl)).
