(* The commit life cycle of one member (group/commit.rs commit_internal, group/mod.rs
   apply_pending_commit / apply_detached_commit / clear_pending_commit /
   process_incoming_message).  A member's state is abstracted to the list of commits it has
   applied (its epoch is the length of that list); a commit is identified by a token and by
   the history it was created on.  Definitions only. *)
From Coq Require Import NArith List Bool.
Import ListNotations.
Local Open Scope N_scope.

Fixpoint list_eqb (a b : list N) : bool :=
  match a, b with
  | [], [] => true
  | x :: a', y :: b' => (x =? y) && list_eqb a' b'
  | _, _ => false
  end.

Record mstate := {
  hist : list N;                       (* applied commits, oldest first *)
  pend : option (N * list N);          (* pending commit: token, history it was built on *)
  frozen : bool                        (* a re-init has been committed *)
}.

Inductive mop :=
| OBuild (c : N) (detached : bool) (reinit : bool)   (* Group::commit / commit_detached *)
| OClear
| OApplyPending
| OApplyDetached (c : N) (base : list N) (reinit : bool)
| OReceive (c : N) (base : list N) (reinit : bool).  (* a commit message created on history [base] *)

Inductive mres := ROk | RExistingPending | RPendingNotFound | RInvalidEpoch | RUsedAfterReInit | RRejected.

Definition epoch_of (s : mstate) : N := N.of_nat (length (hist s)).

Definition advance (s : mstate) (c : N) (reinit : bool) : mstate :=
  {| hist := hist s ++ [c]; pend := None; frozen := reinit |}.

Definition step (s : mstate) (o : mop) : mres * mstate :=
  match o with
  | OBuild c detached reinit =>
      match pend s with
      | Some _ => (RExistingPending, s)
      | None => if frozen s then (RUsedAfterReInit, s)
                else (ROk, if detached then s else {| hist := hist s; pend := Some (c, hist s); frozen := frozen s |})
      end
  | OClear => (ROk, {| hist := hist s; pend := None; frozen := frozen s |})
  | OApplyPending =>
      match pend s with
      | None => (RPendingNotFound, s)
      | Some (c, base) =>
          (* apply_detached_commit on the stored successor; the epoch check of the repaired code *)
          if N.of_nat (length base) =? epoch_of s then (ROk, advance s c false) else (RInvalidEpoch, s)
      end
  | OApplyDetached c base reinit =>
      if N.of_nat (length base) =? epoch_of s then (ROk, advance s c reinit) else (RInvalidEpoch, s)
  | OReceive c base reinit =>
      match pend s with
      | Some (pc, pbase) =>
          if pc =? c then   (* own commit echoed back: message hash equals the pending one *)
            (if N.of_nat (length pbase) =? epoch_of s then (ROk, advance s c reinit) else (RInvalidEpoch, s))
          else if negb (N.of_nat (length base) =? epoch_of s) then (RInvalidEpoch, s)
          else if negb (list_eqb base (hist s)) then (RRejected, s)      (* authentication fails: other history *)
          else if frozen s then (RUsedAfterReInit, s)
          else (ROk, advance s c reinit)
      | None =>
          if negb (N.of_nat (length base) =? epoch_of s) then (RInvalidEpoch, s)
          else if negb (list_eqb base (hist s)) then (RRejected, s)      (* authentication fails: other history *)
          else if frozen s then (RUsedAfterReInit, s)
          else (ROk, advance s c reinit)
      end
  end.

Definition run (s : mstate) (ops : list mop) : mstate := fold_left (fun s o => snd (step s o)) ops s.
Definition init_state : mstate := {| hist := []; pend := None; frozen := false |}.

(* the pending commit, when there is one, was built on the current history *)
Definition PendInv (s : mstate) : Prop := forall c b, pend s = Some (c, b) -> b = hist s.
