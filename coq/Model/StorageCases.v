(* Evaluators for the correspondence checks of C19 / C06 / C15. *)
From Coq Require Import NArith List Bool.
From MlsV Require Import Storage.
Import ListNotations.
Local Open Scope N_scope.

Definition enc_opt (o : option N) : N := match o with Some d => d + 1 | None => 0 end.

(* provider level: a sequence of writes; after each one: ok?, state, max, probed epochs *)
Fixpoint run_writes (b : backend) (s : gstore) (probe : list N) (ws : list (N * list rec * list rec)) : list N :=
  match ws with
  | [] => []
  | (snap, ins, upd) :: t =>
      let '(ok, s') := match st_write b s snap ins upd with SOk s1 => (1, s1) | SErr _ => (0, s) end in
      ok :: enc_opt (g_snap s') :: enc_opt (st_max b s') :: map (fun id => enc_opt (st_epoch b s' id)) probe
         ++ run_writes b s' probe t
  end.

(* repository level *)
Inductive rop := RInsert (id data : N) | RGet (id : N) | RWrite (snap : N) (kp : bool).

(* per op: result code (0 ok / 1 err), for RGet additionally found?, and the number of
   storage calls the op made (schedule entries consumed) *)
Fixpoint run_repo (b : backend) (r : repo) (ops : list (rop * list bool)) : list N :=
  match ops with
  | [] => []
  | (o, f) :: t =>
      let n0 := N.of_nat (length f) in
      match o with
      | RInsert id d =>
          let '(res, f') := repo_insert b r (id, d) (f ++ repeat false 8) in
          let used := N.of_nat (length f + 8 - length f') in
          match res with
          | SOk r' => 0 :: used :: run_repo b r' t
          | SErr _ => 1 :: used :: run_repo b r t
          end
      | RGet id =>
          let '(res, f') := repo_get b r id (f ++ repeat false 8) in
          let used := N.of_nat (length f + 8 - length f') in
          match res with
          | SOk (o', r') => 0 :: used :: enc_opt o' :: run_repo b r' t
          | SErr _ => 1 :: used :: 0 :: run_repo b r t
          end
      | RWrite snap kp =>
          let '(res, f') := repo_write b r snap kp (f ++ repeat false 8) in
          let used := N.of_nat (length f + 8 - length f') in
          let r' := repo_after_write b r snap kp (f ++ repeat false 8) in
          (match res with SOk _ => 0 | SErr _ => 1 end) :: used :: enc_opt (repo_load r')
             :: run_repo b r' t
      end
  end.

Definition repo_empty : repo := {| pend_ins := []; pend_upd := []; store := gempty |}.

Fixpoint list_eqb (a b : list N) : bool :=
  match a, b with
  | [], [] => true
  | x :: a', y :: b' => N.eqb x y && list_eqb a' b'
  | _, _ => false
  end.
