(* rs2v admission could not translate the current source *)
Translation_failed.
