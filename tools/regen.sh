#!/bin/bash
# regenerate every coq/Gen/*.v from /repo's current working tree (the checks do this themselves on
# every run; this script is for keeping the committed copies clean)
set -e
cd "$(dirname "$0")/.."
T=./translator/target/release/rs2v
grep -o 'rs2v [a-z]* /repo coq/Gen/[A-Za-z]*\.v' setup.sh | while read _ mode repo out; do $T $mode $repo $out; done
git status --short coq/Gen | head
