#!/usr/bin/env python3
"""Regenerate /verif/MANIFEST.json from the table below and validate it."""
import json, os, subprocess
V = os.path.dirname(os.path.dirname(os.path.abspath(__file__)))
HOOK_COMMITS = subprocess.run(["git", "-C", "/repo", "log", "--format=%H %s"], capture_output=True, text=True).stdout.splitlines()
HOOK_COMMITS = [l.split()[0] for l in HOOK_COMMITS if " verif hooks" in l]

COMMON_NOTE = ("Trusted: Coq 8.16.1 kernel + vm_compute (no native_compute); no axioms (Print Assumptions of every pinned theorem is scanned on each run); "
               "the rs2v translator for Gen/*.v; the mlsh harness and python orchestrator for the correspondence. ")

CHECKS = {
 "C20": dict(
   category="proof",
   text="14 pinned Coq theorems (Props/C20.v) about the Gallina image of math.rs/node.rs, regenerated from /repo by the translator on every run: root, children, parent, sibling, direct path + copath, LCA level, subtree leaf range, in-tree test and the 2^24 leaf-index bound equal the in-order complete binary tree for EVERY tree of up to 2^30 leaves (no bound on the size explored). Tie: regeneration + the generated Gallina evaluated by vm_compute against the Rust functions on ~39k (quick) exhaustive/sampled queries.",
   design_ref="DESIGN.md section 6 C20",
   note=COMMON_NOTE + "Hand-modelled: nothing (tree math is translated). The python copy of the tree spec is used only to search for a failing input.",
   technique="Coq proof over translated source (rs2v) + vm_compute correspondence"),
 "C12": dict(
   category="proof",
   text="Coq theorems (Props/C12.v) over a generic codec model (descriptor universe with structs, enums with default arms, vectors/maps with the zero-progress guard, options, dependent fields): round trip for every well-formed descriptor and value, exact encoded length, decoding consumes a prefix and never runs out of fuel, only minimal varints, length prefixes stay in bounds, canonical decoding (decode then encode gives back the bytes consumed) for every type without a hash map, unique decoding. The descriptor table of all ~135 derive'd wire/state types is regenerated from /repo on every run and re-proved well-formed and canonical. Tie: regeneration + the model decoding (vm_compute) the same ~5k valid and malformed byte strings as the Rust decoders.",
   design_ref="DESIGN.md section 6 C12",
   note=COMMON_NOTE + "Hand-modelled: the semantics of mls-rs-codec primitives and of the derive macro (Model/Codec.v) and the hand-written codecs (templates in the translator). Heap use is measured by a counting allocator, not proved. Known finding F7b (hash-map state types re-encode in a different order).",
   technique="Coq proof over generic codec model + translated type table + vm_compute correspondence"),
 "C13": dict(
   category="proof",
   text="Coq theorems (Props/C13.v): the derivations written in the shape of the code (key schedule order, u16-truncated KDFLabel length, PSK loop with running index, on-demand secret tree with node consumption over the translated tree math, ratchet with generation counter) compute exactly the RFC 9420 formulas written from the RFC text - for every hash/KDF (every suite), every input, every tree size up to 2^30 leaves and every order of leaf consumption. Tie: the RFC functions, instantiated with Gallina SHA-256/384/512 + HMAC + HKDF (FIPS known answers checked), are evaluated by vm_compute on the inputs given to the library through the hooks and must give identical bytes (all 12 epoch secrets, welcome secret, PSK chain, exporter, per-generation key and nonce, transcript hashes, confirmation and membership tags) on three providers and seven suites.",
   design_ref="DESIGN.md section 6 C13",
   note=COMMON_NOTE + "Hand-modelled: Model/KeyScheduleCode.v (shape of key_schedule.rs, psk/secret.rs, secret_tree.rs) and Model/KeyScheduleRFC.v (RFC text). Gallina SHA-2/HMAC/HKDF are trusted as the reference (validated by known answers).",
   technique="Coq proof (code-shaped = RFC) + byte-exact vm_compute correspondence with Gallina SHA-2/HKDF"),
 "C05": dict(
   category="proof",
   text="Coq theorems (Props/C05.v) over the ratchet state machine (generation counter, key history, 1024 window in u32 arithmetic, one ratchet per leaf and content kind): for EVERY sequence of receive requests no generation is accepted twice (replay refused), a refused request leaves the ratchet unchanged, every not-yet-delivered generation inside the window is accepted in any order, the window is exactly 1024; for EVERY interleaving of sends by any members no (leaf, kind, generation) - hence no key/nonce pair - is handed out twice and application/handshake never share one. Tie: the model's accept/reject per request is compared (vm_compute) with the library's SecretTree driven directly and with whole groups under permuted, duplicated deliveries and save/reload.",
   design_ref="DESIGN.md section 6 C05",
   note=COMMON_NOTE + "Hand-modelled: Model/Ratchet.v from secret_tree.rs. Idealisation: distinct (leaf, kind, generation) give distinct keys (KDF collision-freeness; the key values themselves are C13). The (key, nonce) pairs actually passed to aead_seal are checked for duplicates on the implementation.",
   technique="Coq proof over ratchet state machine + vm_compute correspondence"),
 "C19": dict(
   category="proof",
   text="Coq theorems (Props/C19.v) over models of both storage providers and of the repository: for every retention R >= 1 and every write sequence with contiguous epoch ids (the invariant the repository is proved to maintain) the in-memory and SQLite providers hold identical records, lookups and maxima; after a write exactly the last R ids are stored; a past epoch is readable exactly when it was entered since the last write or retained at the last write; the late-sender decision accepts exactly when the sender's leaf still holds the same key. Tie: both real providers are driven directly and compared step by step with their models (vm_compute), groups on both providers receive late messages of every age after random write patterns (model predicts readable / EpochNotFound), vacated / reused leaf scenarios.",
   design_ref="DESIGN.md section 6 C19",
   note=COMMON_NOTE + "Hand-modelled: Model/Storage.v (providers: relational meaning of the SQL statements in one transaction; repository). SQLite itself is trusted.",
   technique="Coq proof over storage/repository model + vm_compute correspondence"),
 "C06": dict(
   category="proof",
   text="Coq theorems (Props/C06.v): the regenerated Snapshot type round-trips through the codec for every value (every field that is stored is read back); for every sequence of repository operations and every cut point, loading returns exactly the last successfully written snapshot, on both providers; a failed write changes nothing; the providers expose the same history. Tie / search: generated histories on both providers with save+reload after random rounds (with cached proposals, own pending updates, a pending commit) and a crash point (save, unsaved epoch, reload): the complete observation including the hash of the encoded snapshot must be identical, and the reloaded member must stay in lockstep.",
   design_ref="DESIGN.md section 6 C06",
   note=COMMON_NOTE + "Process death is emulated by dropping all in-memory objects and re-opening the SQLite file. Fields of Group that are not in the Snapshot are covered only by the observation comparison. Known finding F8 (SQLite accepts retention 0).",
   technique="Coq proof (codec round trip of the stored type + repository crash theorem) + reload differential"),
 "C15": dict(
   category="proof",
   text="Coq theorems (Props/C15.v) over the repository model with an explicit fault schedule (one boolean per storage call): a failing store write, epoch read or max-id read returns an error and leaves the repository unchanged; the key package delete comes after the state is stored and the pending epochs forgotten, so the retry writes nothing twice and ends in the fault-free state. Tie / search: fault enumeration on the implementation: for generated histories every storage call of every operation (group state, key package and PSK stores) is failed once: error returned, complete snapshot unchanged, retry succeeds, same final state and stored history as the fault-free run.",
   design_ref="DESIGN.md section 6 C15",
   note=COMMON_NOTE + "That group-level operations leave the Group unchanged on a storage error is established on the implementation by exhaustive single-fault injection, not by a theorem about a Group model. Three defects found this way were repaired (fix: commits); known finding F2d (encrypted message key consumed before processing succeeds).",
   technique="Coq proof over repository fault model + exhaustive single-fault injection"),
 "C08": dict(
   category="proof",
   text="Coq theorems (Props/C08.v) over a model of the tree array and of the commit operations written in the shape of tree_kem/mod.rs / node.rs on the translated tree math: for EVERY tree and operation sequence leaves stay on even and parents on odd indices, the tree never ends in a blank node, a new leaf takes the leftmost blank slot or extends the tree by one leaf; every commit (proposals, then the optional path) preserves WF3 (an unmerged leaf listed at a parent is a non-blank leaf below it) and WF5 (every non-blank parent has a member in each of its two subtrees), hence a node of a committer's path with an empty copath resolution is blank. Tie: the model's tree after every commit of generated histories (growth, shrink, regrowth, interior blanks, unmerged leaves, filtered path nodes) equals every member's exported tree node by node; the tree hash of every exported tree is recomputed from its bytes inside Coq by an RFC 9420 7.8 implementation over Gallina SHA-256 (independent of tree_hash.rs) and equals the hash in the group context. PARTIAL: parent-hash chain validity and unmerged-leaf consistency are not theorems; every exported tree is instead validated by the library's own observer / joiner validation.",
   design_ref="DESIGN.md section 6 C08",
   note=COMMON_NOTE + "Hand-modelled: Model/Tree.v, Model/TreeHashRFC.v. Parent-hash validity: no theorem; verified on sampled exported trees by an independent Gallina implementation of RFC 9420 7.9.2 (original sibling tree hash recomputed from scratch) and by the library's validator on every exported tree.",
   technique="Coq proof over tree-operation model + in-Coq RFC tree hash recomputation + node-by-node correspondence"),
 "C02": dict(
   category="proof",
   text="Coq theorems (Props/C02.v): the unmerged-leaf invariant (every unmerged leaf listed at a parent is a non-blank leaf below it) holds in the one-member tree and is preserved by every commit of the tree model (removes, updates, adds, trim, path update) for every tree and operation list; under it every HPKE recipient of a fresh path secret (model of encap / encrypt_copath_node_resolution) is a non-blank node of the new tree inside a copath resolution of the committer, never a leaf added by the same commit, and a removed (blanked) leaf receives nothing; admission model of check_metadata + epoch lookup: a party whose newest epoch is e accepts no commit, proposal or application message of a later epoch or of another group. Tie: the keys recorded by a recording crypto provider for every commit of generated histories equal encap_recipients evaluated in Coq on the new tree plus exactly the init keys of the added key packages; removed members and a member replaced by its own external commit are fed all later traffic: everything refused with the verdict the admission model predicts, epoch and secrets unchanged.",
   design_ref="DESIGN.md section 6 C02",
   note=COMMON_NOTE + "Hand-modelled: Model/Tree.v, Model/Kem.v, Model/Admission.v. Cryptographic secrecy (that a party without the key cannot decrypt) is not a theorem: the theorems are about who is encrypted to and what is admitted.",
   technique="Coq proof (tree invariant + recipient theorem + admission) + recorded-HPKE-recipient correspondence"),
 "C09": dict(
   category="proof",
   text="Coq theorems (Props/C09.v) over a transcription of the private-key bookkeeping (provisional_private_tree, encap, decap, update_secrets, update_leaf) on key tokens: the invariant PrivOK (every stored key sits at a non-blank node of the member's direct path and is that node's key) is preserved by the proposal step, by decap for every receiver / committer pair (positions from the common ancestor up; nothing below touched; filtered nodes cleared), established by encap for the committer and by update_secrets for a joiner, for every tree, member, filter list and key assignment; the COMPLETENESS invariant (for every non-blank ancestor a member holds the private key or is listed there as unmerged leaf) is proved over the tree model with its unmerged lists: preserved by the proposals for every member that stays, by the path for every receiver and the committer, established for every joiner; the committer's leaf and every non-filtered path node carry fresh keys. Tie: for every commit of generated histories and every member (committer, each receiver, each joiner) the positions holding a key afterwards are computed by the Coq model and compared with the real TreeKemPrivate. Implementation oracles: every stored key opens an HPKE ciphertext sealed to its node's key (probe per key per observation), no key for a blank node, all non-blank committer path nodes carry new keys, replaced leaf keys are gone. PARTIAL: 'filtered path node is blank' is not a theorem (validated on the implementation).",
   design_ref="DESIGN.md section 6 C09",
   note=COMMON_NOTE + "Hand-modelled: Model/Priv.v. A private key is identified with its public key token; the HPKE probe in the harness is what ties tokens to real key pairs.",
   technique="Coq proof (PrivOK invariant) + per-member key-position correspondence + HPKE seal/open probes"),
 "C11": dict(
   category="proof",
   text="Coq theorems (Props/C11.v) over a state machine of the commit life cycle of a member (build, build detached, clear, apply pending, apply detached, receive own / foreign commit, re-init) on the list of applied commits: building keeps the epoch; a second pending commit is refused and changes nothing; clear restores the ability to commit; every operation appends at most one commit (epoch +0/+1, never back); an error changes nothing; the pending commit always belongs to the current history (invariant over every operation sequence); applying the pending commit = receiving it on the same history; a foreign commit discards the pending one; commits are accepted only in their epoch; a stale detached commit is refused and one built on a prefix of the history is applied only on exactly that history; after a re-init nothing more is accepted. Tie: random races of three members on the library against the same operation list run through the model in Coq: result class, epoch, pending flag of every operation; same model history <=> same context / authenticator / tree.",
   design_ref="DESIGN.md section 6 C11",
   note=COMMON_NOTE + "Hand-modelled: Model/Pending.v. Idealisation: a commit built on another history of equal length fails authentication. Defect F6 (stale detached commit applied) found and repaired (fix: e60fc971).",
   technique="Coq proof over life-cycle state machine + race correspondence"),
 "C03": dict(
   category="proof",
   text="Coq theorems (Props/C03.v): coverage - the bytes that are signed (AuthenticatedContentTBS in SignContent) determine protocol version, wire format, the whole FramedContent (group id, epoch, sender, authenticated data, content) and for member senders the receiver's GroupContext; the MACed bytes (TBM) additionally determine signature and confirmation tag; a PrivateMessage is determined by its content AAD, encrypted sender data and ciphertext; with unforgeable signature and MAC (hypotheses of the theorem) an accepted public message carries a content its sender signed for the receiver's own group context. All over the type table regenerated from the source on every run. Tie: membership tags of all member public messages recomputed in Coq from wire bytes (model TBM + Gallina HMAC-SHA-256) equal the tags in the messages, flipped copies are refused by the model, the real signatures verify over the bytes the model says are signed. Search oracle, exhaustive on the implementation: every single-bit flip and truncation of public/encrypted commits and proposals, application messages, Welcomes, GroupInfos, trees; byte-range splices; replays into later epochs; cross-group deliveries; insider commits (short/long update path, foreign path key, wrong parent hash, wrong confirmation tag re-MACed): always an error, never a panic; genuine messages reported with the true sender, payload and authenticated data.",
   design_ref="DESIGN.md section 6 C03",
   note=COMMON_NOTE + "Hand-modelled: Model/Framing.v (layout of TBS/TBM/SignContent/AADs over generated types). Unforgeability of signatures/MAC are hypotheses of the acceptance theorems. Defect F1 (short update path -> panic in decap) found with the insider hook and repaired (fix: 9969c420).",
   technique="Coq proof (field coverage / authenticity under ideal primitives) + in-Coq MAC recomputation + exhaustive corruption sweeps"),
 "C04": dict(
   category="proof",
   text="Coq theorems (Props/C04.v): a checker for 'no failure point is reachable after a mutation of the member's state' over event lists with branches and loops is proved sound for every list (Model/Effects.v, operational semantics `runs`); it is applied to the failure-point / mutation order that the translator EXTRACTS FROM THE RUST SOURCE on every run (rs2v effects: Group::process_incoming_message with check_metadata, verify_plaintext_authentication, process_proposal, process_commit, apply_update_path, update_key_schedule, apply_pending_commit, insert_past_epoch inlined; commit_internal; apply_pending_commit): processing a public message or the content of a decrypted one, building a commit and applying the pending commit are transactional. Dynamic oracle: the encoded Snapshot is compared before/after every rejected variant of exhaustive corruption sweeps of every message kind, of late-failing insider messages (wrong confirmation tag + valid membership tag on commits with the receiver's own identity update, a removal, a re-init; missing PSK), replays, failing builds; the genuine message and the member's own traffic are still accepted afterwards. KNOWN FINDING F2d: decryption of a PrivateMessage consumes the message key before the AEAD open and content checks (reported statically and dynamically).",
   design_ref="DESIGN.md section 6 C04",
   note=COMMON_NOTE + "Translated: Gen/ProcessEffects.v (syntactic extraction; rules in translator/src/effects.rs; state_repo.insert/get_epoch_mut assumed atomic). Defects F2a (signer swapped early) and F2b (pending_reinit set early) found and repaired (fix: 4d33d663, c353bee5).",
   technique="Coq proof (sound transactionality checker over source-extracted effect order) + exhaustive before/after state comparison"),
 "C10": dict(
   category="proof",
   text="Coq theorems (Props/C10.v) over a model of the proposal rules of apply_proposals_from_member and of the three conflict passes of batch_edit, each with the two strategies of the code (committer: drop offending by-reference proposals, fail on offending by-value ones; receiver: fail on any offender): every stage is lawful (result is a sublist that passes; passing is closed under sublists; a passing list is returned unchanged), hence for EVERY context and proposal list whatever the committer keeps is accepted unchanged by a receiver, a receiver applies all or nothing, and only by-reference proposals are ever dropped. Tie: 60 (thorough 600) generated 'messy' epochs (repeated / conflicting updates, removals, adds, PSKs known/unknown to the committer, multiple group-context-extensions, re-init among others, valid and invalid by-value parts): build failure / applied / unused of the library equal the model evaluated in Coq; every other member accepts the commit and reports the same applied / unused lists as the committer.",
   design_ref="DESIGN.md section 6 C10",
   note=COMMON_NOTE + "Hand-modelled: Model/Filter.v (attributes instead of real proposals; validity verdicts of key packages / leaf nodes / extensions are inputs). External-sender and new-member proposals are in the model's sender table but not generated by the correspondence run. Defect F11 found and repaired (fix: 4000eabf).",
   technique="Coq proof (stage laws => strategy agreement) + randomized conflicting-proposal correspondence"),
 "C16": dict(
   category="proof",
   text="Coq theorems (Props/C16.v): the arithmetic of the observer's epoch window, translated from ExternalGroup::min_epoch_available on every run, never panics for any u64 epoch / jitter and is the saturating difference; with it the admission model lets ciphertexts of the last `jitter` epochs through, refuses older ones and always contains the current epoch; handshake admission of the observer equals a member's. Tie / oracle: generated histories with public handshake traffic; a new observer joins after every epoch (jitter unset, 0, 1, 3, 1000; tree in the extension or out of band); all observers are fed all proposals, commits and current + old ciphertexts: context / tree / roster equal the members' after every commit, ciphertext admission equals the model evaluated in Coq, reload at random points, corrupted and replayed commits refused, proposals issued by an external-sender observer accepted and committed by the members, never a panic.",
   design_ref="DESIGN.md section 6 C16",
   note=COMMON_NOTE + "Translated: Gen/WindowGen.v. That the observer's public state equals the members' is established on the implementation (the observer shares MessageProcessor::process_commit), not by a separate theorem. Defect F4 (window subtraction underflow) repaired (fix: c959fc8f).",
   technique="Coq proof over translated window arithmetic + admission model; observer-vs-member differential on generated histories"),
 "C17": dict(
   category="proof",
   text="Coq theorems (Props/C17.v) over a model of check_that_subgroup_is_a_subset on the tree model (members = identities of the occupied leaves): for every pair of trees a re-initialized group is accepted exactly when it has the same members as the old one and a branch exactly when its members are among the old ones, independently of blank leaves; the parameter checks of join are exactly version, cipher suite, (re-init) group id, extensions and epoch 1; the rule as it was before the repair (tree node counts) refuses a legitimate re-init (witness). Frozen old group: C11_frozen_after_reinit. Tie / oracle: old groups with blank interior leaves; successor creation with equal / smaller / larger member set and a replaced identity, branch with equal / smaller / larger set: each verdict equals the model evaluated in Coq on the exported old tree; accepted groups are joined by exactly their members who share one epoch-1 state with the announced group id; parties without the old state, left-out members cannot join; the old group refuses every commit after the re-init.",
   design_ref="DESIGN.md section 6 C17",
   note=COMMON_NOTE + "Hand-modelled: Model/Subgroup.v. The cryptographic link (resumption PSK in the key schedule) is C13/C18 material; here it is exercised (intruders fail) but not restated as a theorem. Defect F5 repaired (fix: 5a692f47).",
   technique="Coq proof (membership rule over tree model) + creation/join differential on trees with blanks"),
 "C18": dict(
   category="proof",
   text="Coq theorems (Props/C18.v): over abstract collision-free KDFs (hypotheses of the theorems) the RFC 9420 8.4 PSK chain is injective - the PSK secret determines every value, every id (with its nonce) and the order of a list of any length below 2^16 - and so is the epoch secret built on it (also in joiner secret and group context); the chain of Model/KeyScheduleRFC.v, which C13 compares byte for byte with the library, is this chain over HKDF; resolution model of psk/resolver.rs + state_repo.rs: a member that cannot resolve one id resolves nothing, a resumption PSK of another group comes from storage only. Tie / oracle: commits with 1-3 external PSKs (by value / by reference, any order) against members holding the committer's value, another value or nothing; resumption PSKs of earlier epochs against members with retention 1/2/6 and different join epochs; a resumption PSK of another group under different write patterns; joiners with / without the PSKs: acceptance equals the resolution model evaluated in Coq, acceptors share the new epoch, refusers are unchanged, the later arrival of the PSK makes the same commit acceptable.",
   design_ref="DESIGN.md section 6 C18",
   note=COMMON_NOTE + "Hand-modelled: Model/PskIdeal.v. Collision-freeness of the KDF is a hypothesis (section variable). Defect F9 (foreign-group resumption PSK served from this group's unwritten epochs) repaired (fix: 02b5e24c).",
   technique="Coq proof (injectivity of the PSK chain under ideal KDF; resolution model) + PSK-knowledge differential"),
 "C07": dict(
   category="proof",
   text="Coq theorems (Props/C07.v): the joiner's key package store - the package used is deleted by the first write of the new group and only then, a last-resort package stays, other packages are untouched, a Welcome for a package that is not in the store produces no group, hence single use; the path secret handed to a joiner sits at the common ancestor with the committer (same ancestor there, different ones below) and update_secrets fills exactly the joiner's keys (PrivOK). Tie / oracle: every joiner of generated histories (Welcome with the tree in the extension or out of band, several joiners per commit, interior free slots, with / without path, encrypted / public handshake; external commits) is compared field by field with the members right after joining, sends and commits at once; its key package store before / after the first write equals the store model evaluated in Coq; Welcomes for another key package, with a wrong tree, external commits from a stale GroupInfo produce no accepted group. KNOWN FINDING F10: re-joining with the stored state of an earlier membership (next commit refused with InvalidEpoch).",
   design_ref="DESIGN.md section 6 C07",
   note=COMMON_NOTE + "Hand-modelled: Model/Join.v, Model/Priv.v. That the joiner's group state equals the members' is decided on the implementation (no separate theorem beyond the key positions); PSK joiners are C18.",
   technique="Coq proof (key package store, joiner key positions) + joiner-vs-member differential"),
 "C01": dict(
   category="proof",
   text="Coq theorems (Props/C01.v): TreeKEM secret agreement - for every filter list, whoever enters the committer's chain of path secrets at a non-filtered position with that position's secret reproduces the rest of the chain and ends in the committer's commit secret (model of encap / decap / PathSecretGenerator over an abstract derivation function), so all receivers at every distance agree with the committer and with each other; secrets sit exactly at non-filtered positions; proposal agreement (what the committer keeps is applied unchanged by every receiver); the epoch advances by exactly one accepted commit. decryption side (Model/Decap.v: find_resolved_pos / find_ciphertext_pos and a structural specification of resolutions proved equal to the stack algorithm): the receiver's position in the committer's path is never filtered, whatever ciphertext position decap selects was sealed by the committer to a node whose key the receiver holds, and a member whose private state is complete (C09's invariant, proved for members, receivers, committer and joiners) always finds its ciphertext. PARTIAL: the pieces are separate models tied to the code one by one; there is no single end-to-end 'all members agree' theorem over one group model. Search oracle: directed hole histories (full tree of 8-16 leaves, removals, re-keying path commits, adds with path into the holes) and random histories with every operation kind (by-value / by-reference adds, updates, removes, PSK, group-context-extension, custom proposals, identity changes, path / no-path commits, external-commit joins and resyncs, growth and shrink with interior blanks), members on different crypto providers in one group, cipher suites 1-3, every commit option, shuffled delivery: after every commit all members are compared pairwise on context, tree, roster, transcript hash, authenticator and an exported secret, epoch +1, all-to-all decryption at the end.",
   design_ref="DESIGN.md section 6 C01",
   note=COMMON_NOTE + "Hand-modelled: Model/KemSecrets.v; restates theorems of C10 / C11. The equality of the members' states is established on the implementation by exhaustive pairwise comparison over generated histories, not by an end-to-end theorem.",
   technique="Coq proof (path-secret chain agreement, proposal agreement, epoch step) + mixed-provider random-history differential"),
 "C14": dict(
   category="proof",
   text="Coq theorems (Props/C14.v) fix the REFERENCE the three foreign-code providers are compared with: for every input the Gallina SHA-2 digest has the suite's length and consists of bytes, HMAC / HKDF-Extract give Nh bytes, HKDF-Expand gives exactly the requested length and asking for fewer bytes gives a prefix; the chain-validation model is sound (an accepted chain yields the leaf's key and a path of certificates valid at the validation time, each naming and signed by the next, every issuer a CA, ending in a trust anchor), complete for chains in issuer order, rejects every expired / not-yet-valid leaf, includes both ends of the validity period, ignores what follows the anchor, rejects a broken link, an empty chain and an empty trust store, and without a validation time only drops the time checks. PARTIAL by nature: that OpenSSL / AWS-LC / RustCrypto compute these functions is not a theorem (foreign code); it is decided by the differential: every deterministic primitive on every provider of every suite 1-7 byte-identical (errors included) over empty / block-boundary / oversize inputs and equal to the Gallina reference evaluated in Coq; sign x verify and HPKE seal x open (base, PSK, exporter) matrices between all provider pairs with wrong data / signature / aad / info / psk; generated PKIs (16 mutation kinds + boundary sweep of every certificate position x notBefore/notAfter x -1/0/+1 s) against the model for verdict and returned key; mixed-provider groups on suites 1,2,3,5,7 with the agreement oracle of C01.",
   design_ref="DESIGN.md section 6 C14",
   note=COMMON_NOTE + "Hand-modelled: Model/X509.v (tokens for names and keys), Model/Sha2.v, Model/Hkdf.v. AEAD, signatures, KEM and HPKE have no Gallina reference and are compared between providers only. Known findings F14 (notAfter second), F15 (reordered intermediates), F25 (malformed Ed25519 secret keys).",
   technique="Coq proof (reference KDF shape, chain-validation model) + three-provider differential against the Gallina reference"),
}
NOT_YET = {}
props = [json.loads(l) for l in open(os.path.join(V, "properties.jsonl"))]
checks, na = [], []
for p in props:
    pid = p["id"]
    if pid in CHECKS:
        c = CHECKS[pid]
        checks.append({
            "property_id": pid,
            "quick_cmd": f"./check {pid} --tier quick",
            "thorough_cmd": f"./check {pid} --tier thorough",
            "evidence_file": f"/verif/evidence/{pid}.json",
            "replay_cmd_template": f"./check {pid} --replay {{path}}",
            "engine": "coq+mlsh",
            "level_claimed": {"category": c["category"], "text": c["text"], "design_ref": c["design_ref"]},
            "level_note": c["note"],
            "technique": c["technique"],
        })
    else:
        na.append({"property_id": pid, "reason": NOT_YET.get(pid, "check not built yet (framework under construction); not a limit of the technique")})
m = {
 "version": 1,
 "setup_cmd": "./setup.sh",
 "hooks": {
   "guard": "mls_rs_verif",
   "enable": "RUSTFLAGS=\"--cfg mls_rs_verif\" (set in /verif/harness/.cargo/config.toml); adds the module mls-rs/src/verif.rs",
   "baseline_off_cmd": "cd /repo && cargo test --workspace --no-fail-fast --offline",
   "source_commits": HOOK_COMMITS,
   "add_only": True,
 },
 "engines": [
   {"name": "coq", "path": "/verif/coq", "serves_properties": sorted(CHECKS), "kind_free_text": "Coq 8.16.1 development: Gen (translated), Model, Proofs, Props (pinned theorems)"},
   {"name": "rs2v", "path": "/verif/translator", "serves_properties": sorted(CHECKS), "kind_free_text": "syn-based Rust to Gallina translator, run on every check"},
   {"name": "mlsh", "path": "/verif/harness", "serves_properties": sorted(CHECKS), "kind_free_text": "Rust harness over the real library (path deps on /repo, --cfg mls_rs_verif)"},
 ],
 "checks": checks,
 "not_applicable": na,
 "notes": "See DESIGN.md. Every check rebuilds the harness from /repo's working tree, regenerates coq/Gen from the source, rebuilds the property's .vo and runs the correspondence.",
}
json.dump(m, open(os.path.join(V, "MANIFEST.json"), "w"), indent=1)
try:
    import jsonschema
    jsonschema.validate(m, json.load(open("/root/.vp/MANIFEST.schema.json")))
    print("MANIFEST valid;", len(checks), "checks,", len(na), "not yet claimed")
except ImportError:
    print("jsonschema not available; written without validation")
