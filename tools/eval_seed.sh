#!/bin/sh
# usage: tools/eval_seed.sh <patch.diff> <check> [<check> ...]
# Applies a seeded change to /repo, runs the quick tier of the given checks, prints the verdict
# lines, and undoes the change (always).  Evidence files written meanwhile are restored.
P="$1"; shift
cd /verif
git -C /repo apply "$P" || { echo "patch does not apply"; exit 2; }
mkdir -p /tmp/eval_ev && cp evidence/*.json /tmp/eval_ev/
for c in "$@"; do
  ./check "$c" --tier quick > /tmp/eval_$c.log 2>&1
  echo "== $c rc=$?"; grep -E 'VIOLATION|KNOWN-FINDING|: ok in|FAIL' /tmp/eval_$c.log | cut -c1-400
done
git -C /repo checkout -- .
cp /tmp/eval_ev/*.json evidence/
./tools/regen.sh >/dev/null 2>&1
git -C /repo status --short | head -3
