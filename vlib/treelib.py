"""Helpers shared by the tree checks: observation -> Coq tree term, commit effects."""
NAMES = [chr(ord("A") + i) for i in range(26)]


def tok(name):
    return NAMES.index(name) + 1


def coq_tree(tree):
    out = []
    for n in tree:
        if n == "_":
            out.append("None")
        elif "L" in n:
            out.append(f"Some (Leaf {tok(n['L'])})")
        else:
            out.append("Some (Par [" + "; ".join(str(x) for x in n["u"]) + "])")
    return "[" + "; ".join(out) + "]"


def commit_effect(detail, committer_idx, committer_name, has_path):
    """(removes, updates, adds, path) for the Coq model from an applied-proposals list."""
    removes = [d["idx"] for d in detail if d["k"] == "remove"]
    updates = [(d["by"], tok(d["id"])) for d in detail if d["k"] == "update"]
    adds = [tok(d["id"]) for d in detail if d["k"] == "add"]
    path = f"Some ({committer_idx}, {tok(committer_name)})" if has_path else "None"
    rem = "[" + "; ".join(str(r) for r in removes) + "]"
    upd = "[" + "; ".join(f"({i}, {t})" for i, t in updates) + "]"
    add = "[" + "; ".join(str(a) for a in adds) + "]"
    return rem, upd, add, path


def placement_oracle(before, detail, after):
    """The two sentences of C08 about placement, decided directly on the implementation's trees:
    every leaf added by the commit sits in the leftmost slot that was blank when it was added
    (removes first, then adds in the order of the commit, the tree growing when no slot is blank),
    and the tree does not end in a blank node.  Returns a list of descriptions of what fails."""
    out = []
    if after and after[-1] == "_":
        out.append("the tree ends in a blank node")
    occupied = [n != "_" for n in before[0::2]]
    for d in detail:
        if d["k"] == "remove" and d["idx"] < len(occupied):
            occupied[d["idx"]] = False
    where = {n["L"]: i for i, n in enumerate(after[0::2]) if isinstance(n, dict) and "L" in n}
    for d in detail:
        if d["k"] != "add":
            continue
        slot = occupied.index(False) if False in occupied else len(occupied)
        if slot == len(occupied):
            occupied.append(True)
        else:
            occupied[slot] = True
        if d["id"] in where and where[d["id"]] != slot:
            out.append(f"new member {d['id']} was placed in leaf {where[d['id']]}, the leftmost blank leaf was {slot}")
    return out


def ext_commit_placements(script, recs):
    """External commits of a history, decided on the implementation's trees: the joiner's leaf is the
    leftmost slot that is blank once the leaf it removes (a re-join) has been blanked.  Yields
    descriptions of what fails plus the number of external commits looked at."""
    ops = script["ops"]
    out, seen = [], 0
    prev, pend = None, None
    for r in recs:
        if r.get("crash"):
            break
        if r.get("op") == "ext_commit" and r.get("ok") and prev is not None:
            pend = (ops[r["i"]]["who"], bool(ops[r["i"]].get("remove_self")), prev, r["i"])
        if "obs" in r and len(r["obs"]) > 1:
            cur = r["obs"]
            if pend is not None:
                who, rem, before_obs, opi = pend
                pend = None
                bs = [o for n, o in before_obs.items() if n != who and o and o.get("group") and not o.get("observer")]
                if bs:
                    e0 = max(o["epoch"] for o in bs)
                    before = next(o["tree"] for o in bs if o["epoch"] == e0)
                    afters = [o for n, o in cur.items() if o and o.get("group") and not o.get("observer") and o["epoch"] == e0 + 1]
                    if afters:
                        seen += 1
                        after = afters[0]["tree"]
                        occupied = [x != "_" for x in before[0::2]]
                        old = [k for k, x in enumerate(before[0::2]) if isinstance(x, dict) and x.get("L") == who]
                        if rem:
                            for k in old:
                                occupied[k] = False
                        slot = occupied.index(False) if False in occupied else len(occupied)
                        now = [k for k, x in enumerate(after[0::2]) if isinstance(x, dict) and x.get("L") == who]
                        if rem and len(now) == 1 and now[0] != slot:
                            out.append({"what": f"external joiner {who} was placed in leaf {now[0]}, the leftmost blank leaf was {slot}", "op": opi, "before": before, "after": after})
                        if not rem and not old and len(now) == 1 and now[0] != slot:
                            out.append({"what": f"external joiner {who} was placed in leaf {now[0]}, the leftmost blank leaf was {slot}", "op": opi, "before": before, "after": after})
            prev = cur
    return out, seen


def commits_of(script, recs):
    """Walk the records of a HistGen history: yield one entry per applied commit:
    dict(before=<committer's tree before>, info=<commit description>, commit_rec=<record of the
    commit op>, committer=<name>, after_obs=<dict member -> observation after the round>,
    before_obs=<dict member -> observation before>)."""
    ops = script["ops"]
    pending = {}
    prev = None
    lastc = None
    out = []
    for r in recs:
        if r.get("crash"):
            break
        if r.get("op") == "commit" and r.get("ok"):
            pending[ops[r["i"]]["id"]] = (r, ops[r["i"]]["who"])
        if r.get("op") == "apply" and r.get("ok"):
            who = r["who"]
            cands = [v for v in pending.values() if v[1] == who]
            if cands:
                lastc = (cands[-1], r["info"])
        if r.get("op") == "deliver" and r.get("ok") and (r.get("info") or {}).get("kind") == "commit":
            mid = ops[r["i"]]["msg"]
            if mid in pending and pending[mid][1] == r["who"]:
                lastc = (pending[mid], r["info"])
        if "obs" in r and len(r["obs"]) > 1:
            cur = r["obs"]
            if prev is not None and lastc is not None:
                (crec, cwho), info = lastc
                if cwho in prev and prev[cwho] and prev[cwho].get("group"):
                    out.append({"before": prev[cwho]["tree"], "info": info, "commit_rec": crec, "committer": cwho,
                                "after_obs": cur, "before_obs": prev, "op": r["i"]})
            prev = cur
            lastc = None
    return out
