"""C19 - late messages: exact retention window, never a wrong sender.

Decision: theorems of coq/Props/C19.v over Model/Storage.v (providers + repository).
Tie: (a) both shipped providers are driven directly (mlsh store) with write sequences and
compared, observation by observation, with their models evaluated in Coq; (b) groups with
retention R in {1,2,3,5} on both providers receive application messages of every age after
random write patterns: the repository model (run in Coq on the member's insert / write / get
sequence) predicts which late messages can still be decrypted; (c) late messages whose
sender's leaf was vacated or reused are compared with the late-sender decision function."""
import json
import re
import os
from concurrent.futures import ThreadPoolExecutor

from .common import *
from .histlib import run_scripts

I64 = (1 << 63) - 1


def recs(l):
    return "[" + "; ".join(f"({i}, {d})" for i, d in l) + "]"


def gen_write_seq(rng, contiguous):
    ws = []
    nxt = rng.choice([0, 0, 1, 5, I64 - 3]) if not contiguous else rng.choice([0, 0, 1, 7])
    stored = []
    snap = 100
    for _ in range(2 + rng.below(6)):
        n = rng.below(4)
        ins = []
        for _ in range(n):
            if not contiguous and rng.chance(1, 6):
                nxt += rng.below(3)            # gap
            if not contiguous and rng.chance(1, 10) and stored:
                ins.append((rng.choice(stored), 900 + rng.below(50)))   # duplicate id
                continue
            ins.append((nxt, 1000 + nxt % 1000))
            stored.append(nxt)
            nxt += 1
        upd = []
        for _ in range(rng.below(3)):
            if stored and rng.chance(3, 4):
                upd.append((rng.choice(stored), 2000 + rng.below(500)))
            elif not contiguous:
                upd.append((nxt + 5, 2999))       # update of an absent id
        snap += 1
        ws.append((snap, ins, upd))
    return ws


def _default_retention():
    """DEFAULT_EPOCH_RETENTION_LIMIT of the two providers, read from the source (what `new()` uses)."""
    out = {}
    for st, path in (("mem", "/repo/mls-rs/src/storage_provider/in_memory/group_state_storage.rs"), ("sqlite", "/repo/mls-rs-provider-sqlite/src/group_state.rs")):
        try:
            m = re.search(r"const DEFAULT_EPOCH_RETENTION_LIMIT\s*:\s*\w+\s*=\s*(\d+)", open(path).read())
            out[st] = int(m.group(1)) if m else 3
        except OSError:
            out[st] = 3
    return out


DEFAULT_RETENTION = _default_retention()


def late_script(rng, name, storage, R, n_epochs):
    """A commits n_epochs times; B sends one message per epoch; C saves at random epochs and
    only at the end receives B's old messages."""
    members = [{"name": "A"}, {"name": "B"}, {"name": "C", "storage": storage, "retention": R}]
    ops = [{"op": "create", "who": "A"}, {"op": "kp", "who": "B", "id": "kB"}, {"op": "kp", "who": "C", "id": "kC"},
           {"op": "commit", "who": "A", "id": "c0", "add": ["kB", "kC"]}, {"op": "apply", "who": "A"},
           {"op": "join", "who": "B", "welcome_any": "c0"}, {"op": "join", "who": "C", "welcome_any": "c0"}]
    model = []          # repository ops of C
    epoch = 1
    msgs = []
    for e in range(n_epochs):
        mid = f"m{epoch}"
        ops.append({"op": "app", "who": "B", "id": mid, "data": "%04x" % epoch})
        msgs.append((mid, epoch))
        if rng.chance(1, 3):
            ops.append({"op": "save", "who": "C"})
            model.append(("w", epoch))
        if rng.chance(1, 6):
            # an early late delivery: reads an old epoch (becomes a pending update)
            old = rng.choice(msgs)
            if old[1] < epoch and not old[0].endswith("x"):
                ops.append({"op": "deliver", "to": "C", "msg": old[0]})
                model.append(("g", old[1], len(ops) - 1))
                msgs.remove(old)
        cid = f"c{epoch}"
        ops.append({"op": "opts", "who": "A", "path_required": True})
        ops.append({"op": "commit", "who": "A", "id": cid})
        ops.append({"op": "apply", "who": "A"})
        ops.append({"op": "deliver", "to": "B", "msg": cid})
        ops.append({"op": "deliver", "to": "C", "msg": cid})
        model.append(("i", epoch))
        epoch += 1
    if rng.chance(1, 2):
        ops.append({"op": "save", "who": "C"})
        model.append(("w", epoch))
    if any(m[0] == "w" for m in model) and rng.chance(1, 3):
        ops.append({"op": "load", "who": "C"})
        # a reload drops whatever was not written: the model restarts from the store
        model.append(("reload",))
    for mid, e in rng.shuffle(msgs):
        ops.append({"op": "deliver", "to": "C", "msg": mid})
        model.append(("g", e, len(ops) - 1))
    return {"name": name, "suite": 1, "members": members, "ops": ops}, model, epoch


def sender_script(rng, name, variant):
    """B sends in epoch 1; then B is removed (variant 'vacated'), removed and its leaf reused by
    D ('reused'), or nothing happens ('control'); C receives B's message late.
    'blank_left*': five members, B (leaf 1) is removed first, so the epoch in which D (leaf 3)
    sends has a blank leaf to the left of the sender; afterwards nothing happens to D
    ('blank_left') or D is removed ('blank_left_vacated'); C receives D's message late."""
    if variant.startswith("blank_left"):
        members = [{"name": n, "retention": 5} for n in "ABCDE"]
        ops = [{"op": "create", "who": "A"}] + [{"op": "kp", "who": n, "id": "k" + n} for n in "BCDE"]
        ops += [{"op": "commit", "who": "A", "id": "c0", "add": ["kB", "kC", "kD", "kE"]}, {"op": "apply", "who": "A"}]
        ops += [{"op": "join", "who": n, "welcome_any": "c0"} for n in "BCDE"]
        ops += [{"op": "commit", "who": "A", "id": "cb", "remove_names": ["B"]}, {"op": "apply", "who": "A"}]
        ops += [{"op": "deliver", "to": n, "msg": "cb"} for n in "CDE"]
        snd = rng.choice(["D", "E"])
        ops += [{"op": "app", "who": snd, "id": "late", "data": "aa"}, {"op": "observe", "who": "C", "observe": "C"}]
        if variant == "blank_left_vacated":
            ops += [{"op": "commit", "who": "A", "id": "c1", "remove_names": [snd]}, {"op": "apply", "who": "A"}, {"op": "deliver", "to": "C", "msg": "c1"}]
        else:
            ops += [{"op": "commit", "who": "A", "id": "c1"}, {"op": "apply", "who": "A"}, {"op": "deliver", "to": "C", "msg": "c1"}]
        if rng.chance(1, 2):
            ops.append({"op": "save", "who": "C"})
        ops.append({"op": "observe", "who": "C", "observe": "C"})
        ops.append({"op": "deliver", "to": "C", "msg": "late"})
        return {"name": name, "suite": 1, "members": members, "ops": ops, "sender_leaf": 3 if snd == "D" else 4}
    members = [{"name": n, "retention": 5} for n in "ABCD"]
    ops = [{"op": "create", "who": "A"}, {"op": "kp", "who": "B", "id": "kB"}, {"op": "kp", "who": "C", "id": "kC"},
           {"op": "commit", "who": "A", "id": "c0", "add": ["kB", "kC"]}, {"op": "apply", "who": "A"},
           {"op": "join", "who": "B", "welcome_any": "c0"}, {"op": "join", "who": "C", "welcome_any": "c0"},
           {"op": "app", "who": "B", "id": "late", "data": "aa"}, {"op": "observe", "who": "C", "observe": "C"}]
    if variant in ("vacated", "reused"):
        ops += [{"op": "commit", "who": "A", "id": "c1", "remove_names": ["B"]}, {"op": "apply", "who": "A"}, {"op": "deliver", "to": "C", "msg": "c1"}]
    else:
        ops += [{"op": "commit", "who": "A", "id": "c1"}, {"op": "apply", "who": "A"}, {"op": "deliver", "to": "C", "msg": "c1"}]
    if variant == "reused":
        ops += [{"op": "kp", "who": "D", "id": "kD"}, {"op": "commit", "who": "A", "id": "c2", "add": ["kD"]}, {"op": "apply", "who": "A"},
                {"op": "deliver", "to": "C", "msg": "c2"}, {"op": "join", "who": "D", "welcome_any": "c2"}]
    if rng.chance(1, 2):
        ops.append({"op": "save", "who": "C"})
    ops.append({"op": "observe", "who": "C", "observe": "C"})
    ops.append({"op": "deliver", "to": "C", "msg": "late"})
    return {"name": name, "suite": 1, "members": members, "ops": ops, "sender_leaf": 1}


def two_group_script(rng, name, storage, R):
    """The member's storage holds TWO groups (the normal deployment): the main group stays in a low epoch
    while a branch group of the same members runs far ahead and is written after every epoch.  The
    retention window of the main group is its own: its late messages stay readable."""
    members = [{"name": "A"}, {"name": "B"}, {"name": "C", "storage": storage, "retention": R}]
    ops = [{"op": "create", "who": "A", "gid": "a1a1"}, {"op": "kp", "who": "B", "id": "kB"}, {"op": "kp", "who": "C", "id": "kC"},
           {"op": "commit", "who": "A", "id": "c0", "add": ["kB", "kC"]}, {"op": "apply", "who": "A"},
           {"op": "join", "who": "B", "welcome_any": "c0"}, {"op": "join", "who": "C", "welcome_any": "c0"}]
    n_main = min(R, 2 + rng.below(2))
    late = []
    for e in range(1, n_main + 1):
        ops.append({"op": "app", "who": "B", "id": f"m{e}", "data": "%02x" % e})
        late.append(f"m{e}")
        ops += [{"op": "commit", "who": "A", "id": f"c{e}"}, {"op": "apply", "who": "A"}, {"op": "deliver", "to": "B", "msg": f"c{e}"}, {"op": "deliver", "to": "C", "msg": f"c{e}"}]
    ops.append({"op": "save", "who": "C"})
    # the branch group
    ops += [{"op": "kp", "who": "B", "id": "kB2"}, {"op": "kp", "who": "C", "id": "kC2"},
            {"op": "branch", "who": "A", "id": "bc", "gid": "b2b2", "kps": ["kB2", "kC2"]},
            {"op": "join_subgroup", "who": "B", "welcome_any": "bc", "tree": "bc.tree"}, {"op": "join_subgroup", "who": "C", "welcome_any": "bc", "tree": "bc.tree"}]
    for n in "ABC":
        ops.append({"op": "swap", "who": n})
    for k in range(n_main + R + 2 + rng.below(3)):
        ops += [{"op": "commit", "who": "A", "id": f"h{k}"}, {"op": "apply", "who": "A"}, {"op": "deliver", "to": "B", "msg": f"h{k}"}, {"op": "deliver", "to": "C", "msg": f"h{k}"}]
        if rng.chance(3, 4):
            ops.append({"op": "save", "who": "C"})
    ops.append({"op": "save", "who": "C"})
    for n in "ABC":
        ops.append({"op": "swap", "who": n})
    checks = []
    for m in rng.shuffle(late):
        ops.append({"op": "deliver", "to": "C", "msg": m})
        checks.append(len(ops) - 1)
    return {"name": name, "suite": 1, "members": members, "ops": ops}, checks


def coq_eval(name, defs, expr):
    text = ("From Coq Require Import NArith List Bool.\nFrom MlsV Require Import Storage StorageCases StorageProofs.\nImport ListNotations.\nLocal Open Scope N_scope.\n"
            + defs + f"\nEval vm_compute in ({expr}).\n")
    return coq_eval_cases(name, text, timeout=900)


def main(run, args):
    rng = Rng(run.seed)
    run.assumptions += [
        "Model/Storage.v is hand-written from in_memory/group_state_storage.rs, mls-rs-provider-sqlite/src/group_state.rs (relational meaning of its SQL, one transaction) and group/state_repo.rs",
        "SQLite itself (durability, transactions) is trusted",
    ]
    broken = []
    proofs_ok, log = prove(run, "C19", extra_targets=["Model/StorageCases.vo"])
    if not proofs_ok:
        broken.append(("proof", "Props/C19.v does not check; " + "; ".join(run.notes[-1:])))
    hok, herr = build_harness()
    if not hok:
        run.violation("harness build failed", herr, failing_input_found=False)
        return
    quick = run.tier == "quick"
    failing, mism = [], []
    # ---------------- (a) providers driven directly
    seqs = []
    for i in range(60 if quick else 600):
        R = rng.choice([1, 2, 3, 5])
        contiguous = i % 3 != 0
        ws = gen_write_seq(rng, contiguous)
        ids = sorted({i_ for _, ins, upd in ws for i_, _ in ins + upd})
        probe = sorted(set(ids + [x + 1 for x in ids[:2]] + [0]))[:14]
        seqs.append((R, contiguous, ws, probe))
    lines = []
    for R, cont, ws, probe in seqs:
        for be in ("mem", "sqlite"):
            lines.append(json.dumps({"backend": be, "retention": R, "probe": probe, "ops": [{"w": [s, [list(x) for x in ins], [list(x) for x in upd]]} for s, ins, upd in ws]}))
    rc, out, err = sh([MLSH, "store"], input="\n".join(lines) + "\n", timeout=600)
    answers = [json.loads(l) for l in out.splitlines()]
    if rc != 0 or len(answers) != len(lines):
        run.violation("mlsh store failed", err[-1500:], failing_input_found=False)
        return

    def flat(ans):
        o = []
        for st in ans["steps"]:
            o += [1 if st["ok"] else 0, 0 if st["state"] is None else st["state"] + 1, 0 if st["max"] is None else st["max"] + 1]
            o += [0 if (e is None or e == "err") else e + 1 for e in st["epochs"]]
        return o
    cases = []
    for k, (R, cont, ws, probe) in enumerate(seqs):
        am, asq = answers[2 * k], answers[2 * k + 1]
        fm, fs = flat(am), flat(asq)
        if cont and fm != fs:
            failing.append({"what": "in-memory and SQLite providers expose different stored history for the same writes", "retention": R, "writes": ws, "probe": probe, "mem": fm, "sqlite": fs})
        wtxt = "[" + "; ".join(f"({s}, {recs(ins)}, {recs(upd)})" for s, ins, upd in ws) + "]"
        cases.append((f"run_writes (Mem {R}) gempty {nlist(probe)} {wtxt}", fm, {"backend": "mem", "retention": R, "writes": ws}))
        cases.append((f"run_writes (Sql {R}) gempty {nlist(probe)} {wtxt}", fs, {"backend": "sqlite", "retention": R, "writes": ws}))
    # ---------------- (b) late messages in groups
    scripts, models = [], []
    for i in range(16 if quick else 120):
        R = rng.choice([1, 2, 3, 5])
        st = rng.choice(["mem", "sqlite"])
        cons = st
        if i % 4 == 3:
            # storage that was never configured (Default::default(), new(), the SQLite engine's own): the window is
            # the documented default of the provider, the same for every way of constructing it
            cons = ["mem_default", "mem_new", "sqlite_default"][(i // 4) % 3]
            st = "sqlite" if cons.startswith("sqlite") else "mem"
            R = DEFAULT_RETENTION[st]
        s, model, last = late_script(rng, f"c19-late-{i}", cons, R, 3 + rng.below(6))
        scripts.append(s)
        models.append((st, R, model))
    variants = ["vacated", "reused", "control", "blank_left", "blank_left_vacated"] * (2 if quick else 8)
    sscripts = [sender_script(rng, f"c19-sender-{i}", v) for i, v in enumerate(variants)]
    tg = [two_group_script(rng, f"c19-two-{i}", ["sqlite", "mem"][i % 2], rng.choice([2, 3, 5])) for i in range(4 if quick else 24)]
    tg_recs = run_scripts([x[0] for x in tg], timeout=1500)
    tg_n = 0
    for (sc, checks), rs in zip(tg, tg_recs):
        byi = {r["i"]: r for r in rs if "i" in r}
        bad = [r for r in rs if (r.get("ok") is False and r["i"] not in checks) or r.get("crash")]
        if bad:
            failing.append({"what": "valid operation failed (two groups in one storage)", "script": sc["name"], "record": bad[0], "op": sc["ops"][bad[0].get("i", 0)]})
            continue
        for k in checks:
            tg_n += 1
            if not byi.get(k, {}).get("ok"):
                failing.append({"what": "a late message of a retained epoch is not readable: the other group in the same storage, which is further ahead, took the epoch away", "script": sc["name"], "storage": sc["members"][2]["storage"], "retention": sc["members"][2]["retention"], "error": byi.get(k, {}).get("err"), "op": sc["ops"][k]})
    recs_all = run_scripts(scripts + sscripts, timeout=1500)
    late_cases = 0
    for (st, R, model), sc, rs in zip(models, scripts, recs_all[:len(scripts)]):
        byi = {r["i"]: r for r in rs if "i" in r}
        bad = [r for r in rs if r.get("ok") is False and r["op"] in ("create", "kp", "commit", "apply", "join", "save", "load", "app")]
        if bad or any(r.get("crash") for r in rs):
            failing.append({"what": "valid operation failed", "script": sc["name"], "record": (bad or [{}])[0]})
            continue
        # the member's repository op sequence for the Coq model; a reload restarts pending state
        ops_txt = []
        expected = []
        be = f"(Mem {R})" if st == "mem" else f"(Sql {R})"
        cur_epoch = None
        last_w = None
        for m in model:
            if m[0] == "w":
                last_w = m[1]
            if m[0] == "reload":
                cur_epoch = last_w
            if m[0] == "i":
                ops_txt.append(f"(RInsert {m[1]} {m[1]}, [])")
                expected += [0, None]
            elif m[0] == "w":
                ops_txt.append(f"(RWrite {m[1]} false, [])")
                expected += [0, None, None]
            elif m[0] == "reload":
                ops_txt.append("RELOAD")
            elif cur_epoch is not None and m[1] >= cur_epoch:
                # after a reload the member is back at the epoch of its last write: a message of
                # that epoch is a current-epoch message (no repository lookup), later ones cannot
                # be read yet
                rec = byi.get(m[2], {})
                if m[1] == cur_epoch and rec.get("ok") is not True:
                    failing.append({"what": "current-epoch message refused after reload", "script": sc["name"], "op": m[2], "error": rec.get("err")})
            else:
                rec = byi.get(m[2], {})
                late_cases += 1
                ok = rec.get("ok") is True
                if not ok and rec.get("err") not in ("EpochNotFound",):
                    failing.append({"what": "late application message failed with an unexpected error", "script": sc["name"], "op": m[2], "error": rec.get("err")})
                ops_txt.append(f"(RGet {m[1]}, [])")
                expected += [0, None, (m[1] + 1) if ok else 0]
        cases.append(("REPO", (be, ops_txt), expected, {"script": sc["name"], "storage": st, "retention": R, "model_ops": [list(m) for m in model]}))
    for sc, v, rs in zip(sscripts, variants, recs_all[len(scripts):]):
        last = [r for r in rs if r.get("op") == "deliver" and r.get("i") == len(sc["ops"]) - 1]
        obs = [r["obs"]["C"] for r in rs if r.get("op") == "observe" and "obs" in r]
        if not last or len(obs) < 2:
            failing.append({"what": "sender scenario did not run", "script": sc["name"]})
            continue
        accepted = last[0].get("ok") is True
        keys = lambda o: [(n["s"] if isinstance(n, dict) and "L" in n else None) for n in o["tree"][0::2]]
        old, cur = keys(obs[0]), keys(obs[-1])
        sl = sc.get("sender_leaf", 1)
        want = len(old) > sl and old[sl] is not None and len(cur) > sl and cur[sl] == old[sl]
        if accepted and not want:
            failing.append({"what": "late message attributed to a member that is not its sender", "script": sc["name"], "variant": v, "old_keys": old, "cur_keys": cur})
        if last[0].get("err") == "PANIC":
            failing.append({"what": "panic on a late message", "script": sc["name"]})
        o2 = "[" + "; ".join("None" if k is None else f"Some {k}" for k in old) + "]"
        c2 = "[" + "; ".join("None" if k is None else f"Some {k}" for k in cur) + "]"
        if want and not accepted:
            failing.append({"what": "late message of a member whose leaf is unchanged, from a retained epoch, is refused", "script": sc["name"], "variant": v, "error": last[0].get("err"), "sender_leaf": sl, "old_keys": old, "cur_keys": cur})
        cases.append((f"[if late_sender_ok {o2} {c2} {sl} then 1 else 0]", [1 if accepted else 0], {"script": sc["name"], "variant": v}))
    # ---------------- model evaluation
    coq_cases = 0
    if model_ready(proofs_ok):
        def build(c):
            if c[0] == "REPO":
                be, ops_txt = c[1]
                # split at reloads: after a reload the pending lists are empty, the store is kept
                parts, cur = [], []
                for o in ops_txt:
                    if o == "RELOAD":
                        parts.append(cur)
                        cur = []
                    else:
                        cur.append(o)
                parts.append(cur)
                if len(parts) == 1:
                    return f"run_repo {be} repo_empty [{'; '.join(parts[0])}]"
                return (f"(let r1 := run_repo_state {be} repo_empty [{'; '.join(parts[0])}] in "
                        f"run_repo {be} repo_empty [{'; '.join(parts[0])}] ++ run_repo {be} {{| pend_ins := []; pend_upd := []; store := store r1 |}} [{'; '.join(parts[1])}])")
            return c[0]
        defs = ("Fixpoint run_repo_state (b : backend) (r : repo) (ops : list (rop * list bool)) : repo :=\n"
                "  match ops with [] => r | (o, f) :: t => match o with\n"
                "  | RInsert id d => match fst (repo_insert b r (id, d) (f ++ repeat false 8)) with SOk r' => run_repo_state b r' t | SErr _ => run_repo_state b r t end\n"
                "  | RGet id => match fst (repo_get b r id (f ++ repeat false 8)) with SOk (_, r') => run_repo_state b r' t | SErr _ => run_repo_state b r t end\n"
                "  | RWrite s kp => run_repo_state b (repo_after_write b r s kp (f ++ repeat false 8)) t end end.\n")

        def shard(i, cs):
            exprs = "; ".join(build(c) for c in cs)
            return coq_eval(f"C19_cases_{i}", defs, "[" + exprs + "]")
        nsh = 16
        shards = [cases[i::nsh] for i in range(nsh) if cases[i::nsh]]
        with ThreadPoolExecutor(max_workers=16) as ex:
            results = list(ex.map(lambda x: shard(*x), enumerate(shards)))
        import re
        for si, (nums, logtxt) in enumerate(results):
            if nums is None:
                broken.append(("correspondence", "Coq evaluation of the storage model failed: " + logtxt[-600:]))
                continue
            # the printed value is a list of lists: re-split by the known expected lengths
            pos = 0
            for c in shards[si]:
                exp = c[1] if c[0] != "REPO" else c[2]
                got = nums[pos:pos + len(exp)]
                pos += len(exp)
                coq_cases += 1
                ok = len(got) == len(exp) and all(e is None or e == g for e, g in zip(exp, got))
                if not ok:
                    mism.append({"case": c[-1], "implementation": exp, "model": got})
            if pos != len(nums):
                broken.append(("correspondence", f"model output length {len(nums)} != expected {pos} in shard {si}"))
    run.obligation("correspondence storage models (vm_compute) = providers and repository behaviour", not mism and coq_cases > 0)
    run.cov.update({
        "evaluations": len(cases),
        "distinct_nontrivial": len({json.dumps(c[-1], default=str) for c in cases}),
        "rule": "provider level: write sequences (two thirds contiguous as the repository issues them, one third with gaps, duplicate ids, updates of absent ids and ids at the i64 boundary) on both providers with R in {1,2,3,5}, every stored id probed after every write; group level: 3-8 epochs, one message per epoch, saves at random epochs, optional reload, all old messages delivered at the end (and a few in between); late-sender scenarios (vacated / reused / control; the same with a blank leaf to the left of the sender in the sending epoch).",
        "samples": [cases[0][-1], cases[-1][-1]],
        "provider_sequences": len(seqs),
        "late_message_deliveries": late_cases,
        "sender_scenarios": len(sscripts),
        "two_group_late_deliveries": tg_n,
        "compared_with_model_in_coq": coq_cases,
    })
    if failing:
        run.violation("implementation violates the retention / late sender property", failing[:10])
    elif mism:
        run.violation("a late message is readable / unreadable against the retention rule, or a provider deviates from its model", mism[:6])
    elif broken:
        run.violation("proof obligation or tie no longer checks: " + broken[0][0], [b[1] for b in broken], failing_input_found=False)
