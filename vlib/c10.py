"""C10 - committer-side and receiver-side proposal validation agree.

Decision: theorems of coq/Props/C10.v over the rule pipeline with its two strategies
(Model/Filter.v): the committer's result is accepted unchanged by a receiver, a receiver never
drops, only by-reference proposals are dropped.
Tie: generated histories end in a 'messy' epoch: a random multiset of by-reference proposals
(updates - also two from one member and one from the committer -, removals - of the committer,
twice of one member, of a member that also updates -, adds - the same key package twice, a key
package of somebody who is already a member -, PSKs known / unknown to the committer, two
group-context-extension proposals, a re-init among others) plus by-value parts (valid and
invalid).  The model is evaluated in Coq on the same list: build failure / kept / dropped must
match the library's result (applied and unused proposals), every other member must accept
the commit and report the same applied and unused lists as the committer."""
import json
from collections import Counter
from concurrent.futures import ThreadPoolExecutor

from .common import *
from .histlib import HistGen, run_scripts
from .treelib import tok


def messy(rng, i, quick):
    n = rng.choice([4, 5, 6])
    g = HistGen(rng, n_pool=n + 3, name=f"c10-{i}")
    g.start()
    g.round(n_props=0, by_value_adds=n - 1, by_value_removes=0, app=False, encrypt=False)
    for r in range(rng.below(3)):
        g.round(app=False, encrypt=False, by_value_adds=0, allow=("update", "remove"))
    ops = g.ops
    members = list(g.in_group)
    outsiders = g.outsiders()
    ops.append({"op": "observe", "who": members[0], "observe": "all"})
    obs_i = len(ops) - 1
    c = rng.choice(members)
    for m in members:
        ops.append({"op": "opts", "who": m, "encrypt_controls": False, "path_required": False})
    props = []   # model-side description, in cache-insertion order
    tag = [0]

    seen_identical = set()

    def add(desc, op):
        # a member that sends the very same proposal twice produces the same bytes (deterministic
        # signature), hence the same proposal reference: one cache entry
        if desc["k"] in ("remove", "add", "reinit"):
            key = (desc["k"], desc.get("target") or desc.get("name"), op["who"])
            if key in seen_identical:
                return
            seen_identical.add(key)
        tag[0] += 1
        pid = f"q{tag[0]}"
        op = dict(op, id=pid)
        ops.append(op)
        for m in members:
            if m != op["who"]:
                ops.append({"op": "deliver", "to": m, "msg": pid})
        props.append(dict(desc, tag=tag[0], by_ref=True, proposer=op["who"]))

    kps = {}
    psk_known = {}
    nprops = 2 + rng.below(6)
    used_kinds = set()
    for _ in range(nprops):
        k = rng.choice(["update", "update", "remove", "remove", "add", "add", "psk", "gce", "reinit"] if not used_kinds else
                       ["update", "update", "remove", "remove", "add", "add", "psk", "gce"] + (["reinit"] if rng.chance(1, 6) else []))
        used_kinds.add(k)
        proposer = rng.choice(members)
        if k == "update":
            add({"k": "update", "who": proposer}, {"op": "propose", "who": proposer, "kind": "update"})
        elif k == "remove":
            t = rng.choice(members)
            add({"k": "remove", "target": t}, {"op": "propose", "who": proposer, "kind": "remove", "name": t})
        elif k == "add":
            mode = rng.below(4)
            if mode == 0 and kps:                 # the same key package again
                name = rng.choice(sorted(kps))
            elif mode == 1:                      # key package of somebody who is already a member
                name = rng.choice(members)
            else:
                name = rng.choice(outsiders)
            if name not in kps:
                kps[name] = f"kp_{name}"
                ops.append({"op": "kp", "who": name, "id": kps[name]})
            add({"k": "add", "name": name}, {"op": "propose", "who": proposer, "kind": "add", "kp": kps[name]})
        elif k == "psk":
            pid = "aa%02x" % (len(psk_known) + 1)
            known = rng.chance(2, 3)
            psk_known[pid] = known
            for m in members:
                if known or m != c:
                    ops.append({"op": "psk_insert", "who": m, "psk_id": pid, "value": "0102030405060708"})
            add({"k": "psk", "id": pid, "known": known}, {"op": "propose", "who": proposer, "kind": "psk", "psk_id": pid})
        elif k == "gce":
            add({"k": "gce"}, {"op": "propose", "who": proposer, "kind": "gce", "ext_data": "%02x" % tag[0]})
        elif k == "reinit":
            add({"k": "reinit"}, {"op": "propose", "who": proposer, "kind": "reinit", "new_gid": "ab%02x" % i})
    # by-value part
    byval = []
    cop = {"op": "commit", "who": c, "id": "cm", "add": [], "remove_names": [], "psk": []}
    if rng.chance(1, 2):
        mode = rng.below(5)
        if mode == 0:
            name = rng.choice(outsiders)
            if name not in kps:
                kps[name] = f"kp_{name}"
                ops.append({"op": "kp", "who": name, "id": kps[name]})
            cop["add"].append(kps[name])
            byval.append({"k": "add", "name": name})
        elif mode == 1:
            t = rng.choice([m for m in members if m != c])
            cop["remove_names"].append(t)
            byval.append({"k": "remove", "target": t})
        elif mode == 2:
            name = rng.choice(members)           # invalid: already a member
            if name not in kps:
                kps[name] = f"kp_{name}"
                ops.append({"op": "kp", "who": name, "id": kps[name]})
            cop["add"].append(kps[name])
            byval.append({"k": "add", "name": name})
        elif mode == 3:
            pid = "bb01"
            known = rng.chance(1, 2)
            for m in members:
                if known or m != c:
                    ops.append({"op": "psk_insert", "who": m, "psk_id": pid, "value": "1112131415161718"})
            cop["psk"].append(pid)
            byval.append({"k": "psk", "id": pid, "known": known})
        else:
            cop["gce"] = "0e0f"
            byval.append({"k": "gce"})
    for j, b in enumerate(byval):
        tag[0] += 1
        props.append(dict(b, tag=tag[0], by_ref=False, proposer=c))
    ops.append(cop)
    commit_i = len(ops) - 1
    deliveries = []
    for m in members:
        if m != c:
            ops.append({"op": "deliver", "to": m, "msg": "cm"})
            deliveries.append(len(ops) - 1)
    ops.append({"op": "apply", "who": c})
    apply_i = len(ops) - 1
    return g.script(), {"obs": obs_i, "commit": commit_i, "deliveries": deliveries, "apply": apply_i, "props": props, "committer": c, "members": members}


def dup_add(rng, i):
    """Directed: the same key package proposed by two different members (one of the two by-reference
    adds is dropped when it reaches the tree) followed by two or three further adds: the order of
    the surviving adds in the commit must be the order in which the committer applied them."""
    n = rng.choice([3, 4, 5])
    g = HistGen(rng, n_pool=n + 5, name=f"c10-dup-{i}")
    g.start()
    g.round(n_props=0, by_value_adds=n - 1, by_value_removes=0, app=False, encrypt=False)
    ops = g.ops
    members = list(g.in_group)
    outs = g.outsiders()
    ops.append({"op": "observe", "who": members[0], "observe": "all"})
    obs_i = len(ops) - 1
    c = rng.choice(members)
    for m in members:
        ops.append({"op": "opts", "who": m, "encrypt_controls": False, "path_required": rng.chance(1, 2), "tree_ext": True, "single_welcome": rng.chance(1, 2)})
    props, tag = [], 0
    d = outs[0]
    ops.append({"op": "kp", "who": d, "id": "kp_" + d})
    proposers = rng.shuffle(members)[:2]
    for p_ in proposers:
        tag += 1
        ops.append({"op": "propose", "who": p_, "kind": "add", "kp": "kp_" + d, "id": f"q{tag}"})
        for m in members:
            if m != p_:
                ops.append({"op": "deliver", "to": m, "msg": f"q{tag}"})
        props.append({"k": "add", "name": d, "tag": tag, "by_ref": True, "proposer": p_})
    extra_ref = rng.chance(1, 2)
    later = outs[1:3 + rng.below(2)]
    cop = {"op": "commit", "who": c, "id": "cm", "add": [], "remove_names": [], "psk": []}
    for k, name in enumerate(later):
        ops.append({"op": "kp", "who": name, "id": "kp_" + name})
        tag += 1
        if extra_ref and k == 0:
            p_ = rng.choice(members)
            ops.append({"op": "propose", "who": p_, "kind": "add", "kp": "kp_" + name, "id": f"q{tag}"})
            for m in members:
                if m != p_:
                    ops.append({"op": "deliver", "to": m, "msg": f"q{tag}"})
            props.append({"k": "add", "name": name, "tag": tag, "by_ref": True, "proposer": p_})
        else:
            cop["add"].append("kp_" + name)
            props.append({"k": "add", "name": name, "tag": tag, "by_ref": False, "proposer": c})
    ops.append(cop)
    commit_i = len(ops) - 1
    deliveries = []
    for m in members:
        if m != c:
            ops.append({"op": "deliver", "to": m, "msg": "cm"})
            deliveries.append(len(ops) - 1)
    ops.append({"op": "apply", "who": c})
    apply_i = len(ops) - 1
    for name in [d] + later:
        ops.append({"op": "join", "who": name, "welcome_any": "cm"})
    ops.append({"op": "observe", "who": c, "observe": "all"})
    return g.script(), {"obs": obs_i, "commit": commit_i, "deliveries": deliveries, "apply": apply_i, "props": props, "committer": c, "members": members,
                        "joins": list(range(apply_i + 1, apply_i + 2 + len(later))), "final": len(ops) - 1}


X, Y = 0xF011, 0xF012


def ext_messy(rng, i):
    """Validity that depends on which group context extensions are in force: a by-reference
    GroupContextExtensions proposal that some member may not support, next to adds whose key
    packages support only the old / only the new / both extension types."""
    caps = {"A": [X], "B": [X, Y], "C": [X], "D": [Y], "E": [X, Y], "F": [X]}
    all_y = rng.chance(1, 2)
    if all_y:
        caps["A"] = [X, Y]
        caps["C"] = [X, Y]
    members_cfg = [{"name": n, "exts": caps[n]} for n in "ABCDEF"]
    ops = [{"op": "create", "who": "A", "ctx_ext_types": [X]}, {"op": "kp", "who": "B", "id": "kB"}, {"op": "kp", "who": "C", "id": "kC"},
           {"op": "commit", "who": "A", "id": "c0", "add": ["kB", "kC"]}, {"op": "apply", "who": "A"}, {"op": "join", "who": "B", "welcome_any": "c0"}, {"op": "join", "who": "C", "welcome_any": "c0"}]
    members = ["A", "B", "C"]
    ops.append({"op": "observe", "who": "A", "observe": "all"})
    obs_i = len(ops) - 1
    c = rng.choice(members)
    for m in members:
        ops.append({"op": "opts", "who": m, "encrypt_controls": False, "path_required": False})
    props, tag = [], [0]

    def add(desc, op):
        tag[0] += 1
        pid = f"q{tag[0]}"
        op = dict(op, id=pid)
        ops.append(op)
        for m in members:
            if m != op["who"]:
                ops.append({"op": "deliver", "to": m, "msg": pid})
        props.append(dict(desc, tag=tag[0], by_ref=True, proposer=op["who"]))

    new_exts = rng.choice([[Y], [X, Y]])
    gce_by_value = rng.chance(1, 4)
    gce_ok = all(set(new_exts) <= set(caps[m]) for m in members)
    if not gce_by_value:
        add({"k": "gce", "ok": gce_ok}, {"op": "propose", "who": "B", "kind": "gce", "ext_types": new_exts, "ext_data": "01"})
    in_force = new_exts if gce_ok else [X]
    for name in rng.shuffle(["D", "E", "F"])[:1 + rng.below(3)]:
        ops.append({"op": "kp", "who": name, "id": "kp_" + name})
        add({"k": "add", "name": name, "kp_ok": set(in_force) <= set(caps[name])}, {"op": "propose", "who": rng.choice(members), "kind": "add", "kp": "kp_" + name})
    if rng.chance(1, 2):
        u = rng.choice([m for m in members if m != c])
        add({"k": "update", "who": u}, {"op": "propose", "who": u, "kind": "update"})
    cop = {"op": "commit", "who": c, "id": "cm", "add": [], "remove_names": [], "psk": []}
    if gce_by_value:
        cop["gce"] = "01"
        cop["ext_types"] = new_exts
        tag[0] += 1
        props.append({"k": "gce", "ok": gce_ok, "tag": tag[0], "by_ref": False, "proposer": c})
    ops.append(cop)
    commit_i = len(ops) - 1
    deliveries = []
    for m in members:
        if m != c:
            ops.append({"op": "deliver", "to": m, "msg": "cm"})
            deliveries.append(len(ops) - 1)
    ops.append({"op": "apply", "who": c})
    return {"name": f"c10-x{i}", "suite": 1, "members": members_cfg, "ops": ops}, {"obs": obs_i, "commit": commit_i, "deliveries": deliveries, "apply": len(ops) - 1, "props": props, "committer": c, "members": members}


def descriptor(p, idx):
    if p["k"] == "update":
        return ("update", idx[p["who"]])
    if p["k"] == "remove":
        return ("remove", idx[p["target"]])
    if p["k"] == "add":
        return ("add", p["name"])
    return (p["k"],)


def impl_descriptors(info):
    out = []
    for d in info.get("detail", []):
        if d["k"] == "add":
            out.append(("add", d["id"]))
        elif d["k"] == "update":
            out.append(("update", d["by"]))
        elif d["k"] == "remove":
            out.append(("remove", d["idx"]))
        else:
            out.append((d["k"],))
    return Counter(out)


def main(run, args):
    rng = Rng(run.seed)
    run.assumptions += [
        "a proposal is abstracted to the attributes the rules look at; key package / leaf node / extension validity verdicts are inputs of the model (always 'valid' in the generated cases except identity clashes, which the model derives itself)",
        "both sides are assumed to look at the same tree and the same PSK store content (C18 treats divergent stores)",
    ]
    broken = []
    proofs_ok, log = prove(run, "C10", extra_targets=["Model/FilterCases.vo"])
    if not proofs_ok:
        broken.append(("proof", "Props/C10.v does not check; " + "; ".join(run.notes[-1:])))
    hok, herr = build_harness()
    if not hok:
        run.violation("harness build failed", herr, failing_input_found=False)
        return
    quick = run.tier == "quick"
    items = [messy(rng, i, quick) for i in range(60 if quick else 600)] + [ext_messy(rng, i) for i in range(24 if quick else 200)] + [dup_add(rng, i) for i in range(16 if quick else 120)]
    recs = run_scripts([x[0] for x in items], timeout=3000)
    failing, mism = [], []
    cases = []
    stats = {"commits_built": 0, "builds_refused": 0, "dropped_by_ref": 0, "receivers": 0, "kinds": Counter()}
    for (sc, meta), rs in zip(items, recs):
        if any(r.get("crash") for r in rs):
            failing.append({"what": "history interpreter crashed", "script": sc["name"]})
            continue
        byi = {r["i"]: r for r in rs if "i" in r}
        pre = [r for r in rs if r.get("ok") is False and r["i"] < meta["commit"]]
        if pre:
            # a proposal could not even be created (e.g. removal of an unknown leaf): not the commit's business
            failing.append({"what": "setup of the messy epoch failed", "script": sc["name"], "record": pre[0], "op": sc["ops"][pre[0]["i"]]})
            continue
        ob = byi[meta["obs"]]["obs"]
        cobs = ob[meta["committer"]]
        idx = {n: i for i, n in cobs["roster"]}
        leaves = "[" + "; ".join(f"({i}, {tok(n)})" for i, n in cobs["roster"]) + "]"
        terms = []
        for p in meta["props"]:
            snd = f"(SMember {idx[p['proposer']]})"
            if p["k"] == "update":
                body = "(BUpdate true)"
            elif p["k"] == "remove":
                body = f"(BRemove {idx[p['target']]})"
            elif p["k"] == "add":
                body = f"(BAdd {tok(p['name'])} {'false' if p.get('kp_ok') is False else 'true'})"
            elif p["k"] == "psk":
                body = f"(BPsk {1000 + p['tag']} true true {'true' if p['known'] else 'false'})"
            elif p["k"] == "gce":
                body = f"(BGce {'false' if p.get('ok') is False else 'true'})"
            else:
                body = "(BReinit true)"
            terms.append(f"mk {p['tag']} {body} {snd} {'true' if p['by_ref'] else 'false'}")
            stats["kinds"][p["k"]] += 1
        cases.append((f"filter_case {{| committer := {idx[meta['committer']]}; leaves := {leaves} |}} IgnoreByRef [" + "; ".join(terms) + "]", sc, meta, byi, idx))
    # ---- model
    coq_out = {}
    if model_ready(proofs_ok) and cases:
        nsh = min(16, len(cases))
        shards = [list(range(len(cases)))[s::nsh] for s in range(nsh)]

        def shard(si, ids):
            text = ("From Coq Require Import NArith List Bool.\nFrom MlsV Require Import Filter FilterCases.\nImport ListNotations.\nLocal Open Scope N_scope.\n"
                    "Eval vm_compute in List.concat (map (fun l => N.of_nat (List.length l) :: l) [" + ";\n".join(cases[k][0] for k in ids) + "]).\n")
            return coq_eval_cases(f"C10_cases_{si}", text, timeout=900)
        with ThreadPoolExecutor(max_workers=16) as ex:
            results = list(ex.map(lambda x: shard(*x), enumerate(shards)))
        for ids, (nums, logtxt) in zip(shards, results):
            if nums is None:
                broken.append(("correspondence", "Coq evaluation of the rule model failed: " + (logtxt or "")[-600:]))
                continue
            pos = 0
            for k in ids:
                n = nums[pos]
                coq_out[k] = nums[pos + 1:pos + 1 + n]
                pos += 1 + n
    n_cmp = 0
    for k, (expr, sc, meta, byi, idx) in enumerate(cases):
        cr = byi.get(meta["commit"], {})
        ctx = {"script": sc["name"], "committer": meta["committer"], "proposals": meta["props"], "roster": sorted(idx.items(), key=lambda x: x[1])}
        if cr.get("err") == "PANIC":
            failing.append(dict(ctx, what="PANIC while building a commit"))
            continue
        out = coq_out.get(k)
        built = bool(cr.get("ok"))
        if built:
            stats["commits_built"] += 1
        else:
            stats["builds_refused"] += 1
        # the library side must be self-consistent whatever the model says
        if built:
            ar = byi.get(meta["apply"], {})
            cinfo = ar.get("info") or {}
            capplied = impl_descriptors(cinfo)
            cunused = Counter(cinfo.get("unused", []))
            for di in meta["deliveries"]:
                r = byi.get(di, {})
                stats["receivers"] += 1
                who = sc["ops"][di]["to"]
                if r.get("err") == "PANIC":
                    failing.append(dict(ctx, what="PANIC while processing a commit", receiver=who))
                elif not r.get("ok"):
                    failing.append(dict(ctx, what="a commit the library built is REFUSED by a member that has seen all proposals", receiver=who, error=r.get("err")))
                else:
                    info = r["info"]
                    if info.get("effect") == "removed":
                        continue
                    if impl_descriptors(info) != capplied or Counter(info.get("unused", [])) != cunused:
                        failing.append(dict(ctx, what="a receiver reports other applied / unused proposals than the committer", receiver=who,
                                            committer_applied=sorted(capplied.elements()), receiver_applied=sorted(impl_descriptors(info).elements()),
                                            committer_unused=sorted(cunused.elements()), receiver_unused=info.get("unused")))
            if not ar.get("ok"):
                failing.append(dict(ctx, what="the committer cannot apply its own commit", error=ar.get("err")))
            # the members added by the commit can use its Welcome and end in the members' state
            for ji in meta.get("joins", []):
                r = byi.get(ji, {})
                if not r.get("ok"):
                    failing.append(dict(ctx, what="a member added by the commit cannot join with its Welcome (order of the adds?)", joiner=sc["ops"][ji]["who"], error=r.get("err")))
            if "final" in meta:
                fo = (byi.get(meta["final"], {}).get("obs") or {})
                cur = [(n_, o) for n_, o in fo.items() if o and o.get("group")]
                top = max((o["epoch"] for _, o in cur), default=None)
                states = {(o["ctx"], o["tree_bytes"], o["auth"]) for _, o in cur if o["epoch"] == top}
                if len(states) > 1:
                    failing.append(dict(ctx, what="members and joiners of the new epoch disagree"))
        if out is None:
            continue
        n_cmp += 1
        if out[0] == 0:
            if built:
                mism.append(dict(ctx, what="the library builds a commit that the rule model refuses (a by-value proposal breaks a rule)", applied=sorted(impl_descriptors((byi.get(meta["apply"], {}).get("info") or {})).elements())))
            continue
        kept = set(out[1:])
        if not built:
            mism.append(dict(ctx, what="the library refuses to build a commit that the rule model accepts", error=cr.get("err"), model_kept=sorted(kept)))
            continue
        exp_applied = Counter(descriptor(p, idx) for p in meta["props"] if p["tag"] in kept)
        exp_unused = Counter(p["k"] for p in meta["props"] if p["tag"] not in kept)
        stats["dropped_by_ref"] += sum(exp_unused.values())
        cinfo = byi.get(meta["apply"], {}).get("info") or {}
        if impl_descriptors(cinfo) != exp_applied:
            mism.append(dict(ctx, what="applied proposals differ from the rule model", library=sorted(impl_descriptors(cinfo).elements()), model=sorted(exp_applied.elements())))
        elif Counter(cinfo.get("unused", [])) != exp_unused:
            mism.append(dict(ctx, what="unused proposals differ from the rule model", library=cinfo.get("unused"), model=sorted(exp_unused.elements())))
    run.obligation("every built commit accepted by all members with identical applied / unused lists; library = rule model on every proposal multiset", not failing and not mism and n_cmp > 0)
    stats["kinds"] = dict(stats["kinds"])
    run.cov.update({
        "evaluations": n_cmp + stats["receivers"],
        "distinct_nontrivial": len({c[0] for c in cases}),
        "rule": "histories of 4-6 members with 0-2 ordinary epochs, then one messy epoch: 2-7 by-reference proposals drawn from updates (any member, repeats, the committer), removals (any target incl. committer and updaters), adds (fresh, repeated key package, existing member), PSKs (known / unknown to the committer), group context extensions, re-init, plus an optional by-value part (valid add / remove / gce / psk, add of an existing member, unknown PSK); a case = one commit attempt.",
        "samples": [{"proposals": cases[0][2]["props"]}] if cases else [],
        "stats": stats,
        "histories": len(items),
    })
    if failing:
        run.violation("committer and receivers disagree on a commit", failing[:8])
    elif mism:
        # the model is the RFC 9420 12.2 rule set: the proposal list on which the library decides
        # otherwise IS the failing input
        run.violation("the library commits / drops / refuses a proposal set against the RFC 9420 rules (rule model)", mism[:6])
    elif broken:
        run.violation("proof obligation or tie no longer checks: " + broken[0][0], [b[1] for b in broken], failing_input_found=False)
