"""Scripted group histories: generator, runner (mlsh hist) and record helpers."""
import json
import subprocess

from .common import MLSH, ENV


def run_scripts(scripts, timeout=1800, shards=16):
    """Run scripts through `mlsh hist` (sharded over processes). Returns per script the list of
    records (dicts), in script order."""
    from concurrent.futures import ThreadPoolExecutor
    shards = max(1, min(shards, len(scripts)))
    groups = [scripts[i::shards] for i in range(shards)]

    def one(group):
        inp = "".join(json.dumps(s) + "\n" for s in group)
        p = subprocess.run([MLSH, "hist"], input=inp, capture_output=True, text=True, timeout=timeout, env=ENV)
        out, cur = [], None
        for line in p.stdout.splitlines():
            try:
                r = json.loads(line)
            except ValueError:
                continue
            if "begin" in r:
                cur = []
            elif "end" in r:
                out.append(cur)
                cur = None
            elif cur is not None:
                cur.append(r)
        if cur is not None:          # process died in the middle of a script
            cur.append({"crash": True, "stderr": p.stderr[-500:]})
            out.append(cur)
        while len(out) < len(group):
            out.append([{"crash": True, "stderr": p.stderr[-500:]}])
        return out

    with ThreadPoolExecutor(max_workers=shards) as ex:
        res = list(ex.map(one, groups))
    merged = [None] * len(scripts)
    for gi, g in enumerate(res):
        for k, recs in enumerate(g):
            merged[gi + k * shards] = recs
    return merged


NAMES = [chr(ord("A") + i) for i in range(26)]


class HistGen:
    """Generator of mostly-valid histories. It tracks who is in the group (assuming that the
    valid operations it emits succeed) but never predicts leaf indices or bytes: removals are
    by identity name, joiners try every Welcome of the commit."""

    def __init__(self, rng, n_pool=8, storage=None, retention=3, suite=1, providers=None, name="h"):
        self.rng = rng
        self.pool = NAMES[:n_pool]
        self.members_cfg = []
        for n in self.pool:
            self.members_cfg.append({
                "name": n,
                "provider": (providers or ["openssl"])[rng.below(len(providers or ["openssl"]))],
                "storage": storage or "mem",
                "retention": retention,
            })
        self.suite = suite
        self.name = name
        self.ops = []
        self.in_group = []        # names, in no particular order
        self.removed = []         # names of members that were removed (still hold their old group)
        self.kp_n = 0
        self.msg_n = 0
        self.epoch = 0
        self.commit_ids = []
        self.app_ids = []
        self.busy = set()         # members with an outstanding proposal about their own leaf
        self.allow_rejoin = False  # re-adding a removed member that kept its storage (finding F10)

    def fresh(self, pfx):
        self.msg_n += 1
        return f"{pfx}{self.msg_n}"

    def outsiders(self):
        return [n for n in self.pool if n not in self.in_group and (self.allow_rejoin or n not in self.removed)]

    def start(self, creator=None, opts=None):
        c = creator or self.pool[0]
        self.ops.append({"op": "create", "who": c})
        self.in_group = [c]
        if opts:
            self.ops.append(dict({"op": "opts", "who": c}, **opts))
        return c

    def script(self, **extra):
        s = {"name": self.name, "suite": self.suite, "members": self.members_cfg, "ops": self.ops}
        s.update(extra)
        return s

    def set_opts(self, who, **opts):
        self.ops.append(dict({"op": "opts", "who": who}, **opts))

    def round_explicit(self, committer, n_adds=0, remove_names=(), path_required=True, tree_ext=True, encrypt=False, observe="all", new_id=False):
        """One epoch change with everything chosen by the caller: the committer, the members removed
        by value and the number of outsiders added by value, in one commit."""
        self.set_opts(committer, path_required=path_required, tree_ext=tree_ext, single_welcome=True, encrypt_controls=encrypt)
        adds, kps = [], []
        for _ in range(n_adds):
            cand = [o for o in self.outsiders() if o not in adds]
            if not cand:
                break
            j = cand[0]
            kp = self.fresh("kp")
            self.ops.append({"op": "kp", "who": j, "id": kp})
            kps.append(kp)
            adds.append(j)
        cid = self.fresh("c")
        self.ops.append(dict({"op": "commit", "who": committer, "id": cid, "add": kps, "remove_names": list(remove_names)}, **({"new_id": True} if new_id else {})))
        for m in self.in_group:
            if m != committer:
                self.ops.append({"op": "deliver", "to": m, "msg": cid})
        self.ops.append({"op": "apply", "who": committer})
        for j in adds:
            jo = {"op": "join", "who": j, "welcome_any": cid}
            if not tree_ext:
                jo["tree"] = cid + ".tree"
            self.ops.append(jo)
        for t in remove_names:
            self.in_group.remove(t)
            self.removed.append(t)
        self.in_group += adds
        self.epoch += 1
        self.commit_ids.append(cid)
        if observe:
            self.ops.append({"op": "observe", "who": committer, "observe": observe})
        return {"commit": cid, "committer": committer, "adds": adds, "removes": list(remove_names)}

    def round(self, n_props=None, allow=("add", "remove", "update"), by_value_adds=None, by_value_removes=None,
              committer=None, echo=None, observe="all", app=True, path_required=None, tree_ext=None,
              single_welcome=None, encrypt=None, join_tree_oob=None):
        """One epoch change: proposals by reference, a commit, delivery to everybody, joins."""
        rng = self.rng
        if not self.in_group:
            return None
        committer = committer or rng.choice(self.in_group)
        opts = {}
        if path_required is None:
            path_required = rng.chance(1, 3)
        if tree_ext is None:
            tree_ext = rng.chance(2, 3)
        if single_welcome is None:
            single_welcome = rng.chance(1, 2)
        if encrypt is None:
            encrypt = rng.chance(1, 3)
        opts = {"path_required": path_required, "tree_ext": tree_ext, "single_welcome": single_welcome, "encrypt_controls": encrypt}
        self.set_opts(committer, **opts)
        targeted = {committer} | set(self.busy)
        self.busy = set()
        adds, removes_now = [], []
        n_props = rng.below(4) if n_props is None else n_props
        prop_ids = []
        for _ in range(n_props):
            kind = rng.choice(list(allow))
            others = [m for m in self.in_group if m != committer]
            if kind == "add" and self.outsiders() and len(self.in_group) + len(adds) < len(self.pool):
                cand = [o for o in self.outsiders() if o not in adds]
                if not cand:
                    continue
                j = rng.choice(cand)
                kp = self.fresh("kp")
                self.ops.append({"op": "kp", "who": j, "id": kp})
                proposer = rng.choice(self.in_group)
                pid = self.fresh("p")
                self.set_opts(proposer, encrypt_controls=encrypt)
                self.ops.append({"op": "propose", "who": proposer, "kind": "add", "kp": kp, "id": pid})
                prop_ids.append((pid, proposer))
                adds.append(j)
            elif kind == "remove" and others:
                cand = [m for m in others if m not in targeted]
                if not cand or len(self.in_group) - len(removes_now) <= 2:
                    continue
                t = rng.choice(cand)
                proposer = rng.choice([m for m in self.in_group if m != t and m not in removes_now])
                pid = self.fresh("p")
                self.set_opts(proposer, encrypt_controls=encrypt)
                self.ops.append({"op": "propose", "who": proposer, "kind": "remove", "name": t, "id": pid})
                prop_ids.append((pid, proposer))
                targeted.add(t)
                removes_now.append(t)
            elif kind == "update" and others:
                cand = [m for m in others if m not in targeted]
                if not cand:
                    continue
                u = rng.choice(cand)
                pid = self.fresh("p")
                self.set_opts(u, encrypt_controls=encrypt)
                self.ops.append({"op": "propose", "who": u, "kind": "update", "id": pid})
                prop_ids.append((pid, u))
                targeted.add(u)
        # deliver proposals to every member (the proposer caches its own)
        for pid, proposer in prop_ids:
            for m in rng.shuffle(self.in_group):
                if m != proposer:
                    self.ops.append({"op": "deliver", "to": m, "msg": pid})
        # by-value parts
        bv_adds = []
        n_bva = (rng.below(3) if by_value_adds is None else by_value_adds)
        for _ in range(n_bva):
            cand = [o for o in self.outsiders() if o not in adds]
            if not cand:
                break
            j = rng.choice(cand)
            kp = self.fresh("kp")
            self.ops.append({"op": "kp", "who": j, "id": kp})
            bv_adds.append(kp)
            adds.append(j)
        bv_rem = []
        n_bvr = (rng.below(2) if by_value_removes is None else by_value_removes)
        for _ in range(n_bvr):
            cand = [m for m in self.in_group if m not in targeted]
            if not cand or len(self.in_group) - len(removes_now) <= 2:
                break
            t = rng.choice(cand)
            targeted.add(t)
            removes_now.append(t)
            bv_rem.append(t)
        cid = self.fresh("c")
        self.ops.append({"op": "commit", "who": committer, "id": cid, "add": bv_adds, "remove_names": bv_rem})
        receivers = [m for m in self.in_group if m != committer]
        for m in rng.shuffle(receivers):
            self.ops.append({"op": "deliver", "to": m, "msg": cid})
        if echo is None:
            echo = rng.chance(1, 3)
        if echo:
            self.ops.append({"op": "deliver", "to": committer, "msg": cid})
        else:
            self.ops.append({"op": "apply", "who": committer})
        oob = (not tree_ext) if join_tree_oob is None else join_tree_oob
        for j in adds:
            jo = {"op": "join", "who": j, "welcome_any": cid}
            if oob:
                jo["tree"] = cid + ".tree"
            self.ops.append(jo)
        for t in removes_now:
            self.in_group.remove(t)
            self.removed.append(t)
        self.in_group += adds
        self.epoch += 1
        self.commit_ids.append(cid)
        if app and len(self.in_group) >= 2:
            s = rng.choice(self.in_group)
            aid = self.fresh("a")
            self.ops.append({"op": "app", "who": s, "id": aid, "data": "%02x%02x" % (self.epoch % 256, rng.below(256))})
            for m in self.in_group:
                if m != s:
                    self.ops.append({"op": "deliver", "to": m, "msg": aid})
            self.app_ids.append(aid)
        if observe:
            self.ops.append({"op": "observe", "who": committer, "observe": observe})
        return {"commit": cid, "committer": committer, "adds": adds, "removes": removes_now, "opts": opts}


def block_join_history(rng, i, name, quick=True, suite=1, providers=None):
    """Directed history: a full tree of 8-16 leaves; one commit with a path removes a whole aligned block
    of leaves (i even) or the committer's sibling leaf plus the neighbouring pair (i odd) and adds FEWER
    members than it removed, so that the joiners' direct paths run over filtered nodes below, at and
    above the common ancestor with the committer; then members all over the tree commit with a path.
    Returns (HistGen, marks) with marks = [(op index of the observation, epoch)]."""
    n = rng.choice([8, 9, 12, 16])
    g = HistGen(rng, n_pool=n + 4, name=name, suite=suite, providers=providers)
    g.start()
    marks = []
    g.round(app=False, n_props=0, by_value_adds=n - 1, by_value_removes=0, path_required=rng.chance(1, 2), echo=False)
    marks.append((len(g.ops) - 1, g.epoch))
    order = list(g.in_group)                       # leaf k holds order[k]
    if i % 2 == 0:
        size = rng.choice([2, 2, 4])
        b = rng.choice([x for x in range(0, n - size, size)])
        block = list(range(b, b + size))
        cidx = rng.choice([k for k in range(n) if k not in block])
        g.round_explicit(order[cidx], n_adds=1 + rng.below(size - 1) if size > 2 else 1, remove_names=[order[k] for k in block], tree_ext=rng.chance(1, 2))
    else:
        q = rng.below((n - 1) // 4 if (n - 1) // 4 > 0 else 1)
        cidx = 4 * q + rng.below(2)
        gone = [k for k in (cidx ^ 1, 4 * q + 2, 4 * q + 3) if k < n]
        g.round_explicit(order[cidx], n_adds=1, remove_names=[order[k] for k in gone], tree_ext=rng.chance(1, 2))
    marks.append((len(g.ops) - 1, g.epoch))
    for _ in range(3 if quick else 5):
        g.round_explicit(rng.choice(g.in_group), n_adds=0, remove_names=[])
        marks.append((len(g.ops) - 1, g.epoch))
    g.round_explicit(g.in_group[-1], n_adds=0, remove_names=[])      # the member on the far right
    marks.append((len(g.ops) - 1, g.epoch))
    g.round_explicit(order[-1] if order[-1] in g.in_group else g.in_group[0], n_adds=0, remove_names=[])
    marks.append((len(g.ops) - 1, g.epoch))
    return g, marks


def double_update_history(rng, i, name, quick=True, suite=1, providers=None):
    """Directed history: a member sends TWO Update proposals in one epoch; the committer has (i % 3 == 0) only
    the first, (== 1) only the second, (== 2) both in its cache, and commits by reference.  The updating member
    must follow the commit with the leaf key of whichever Update was committed, then everybody commits once.
    Returns (HistGen, marks) like block_join_history."""
    n = rng.choice([3, 4, 5, 6])
    g = HistGen(rng, n_pool=n + 1, name=name, suite=suite, providers=providers)
    g.start()
    marks = []
    g.round(app=False, n_props=0, by_value_adds=n - 1, by_value_removes=0, path_required=True, echo=False)
    marks.append((len(g.ops) - 1, g.epoch))
    order = list(g.in_group)
    for rep in range(2):
        u = rng.choice(order)
        c = rng.choice([m for m in order if m != u])
        p1, p2 = g.fresh("p"), g.fresh("p")
        v = (i + rep) % 3
        g.ops.append({"op": "propose", "who": u, "kind": "update", "id": p1})
        for m in g.in_group:
            if m != u and (v != 1 or m != c):
                g.ops.append({"op": "deliver", "to": m, "msg": p1})
        g.ops.append({"op": "propose", "who": u, "kind": "update", "id": p2})
        for m in g.in_group:
            if m != u and (v != 0 or m != c):
                g.ops.append({"op": "deliver", "to": m, "msg": p2})
        g.round_explicit(c, n_adds=0, remove_names=[], path_required=rng.chance(1, 2))
        marks.append((len(g.ops) - 1, g.epoch))
        g.round_explicit(u, n_adds=0, remove_names=[])
        marks.append((len(g.ops) - 1, g.epoch))
    g.round_explicit(rng.choice(order), n_adds=0, remove_names=[])
    marks.append((len(g.ops) - 1, g.epoch))
    return g, marks


def rejoin_history(rng, i, name, suite=1, providers=None):
    """A member re-joins by an external commit that removes its old leaf while an EARLIER leaf is blank:
    the new leaf belongs in the leftmost blank slot, the old leaf's direct path is blanked."""
    n = rng.choice([4, 5, 6, 8])
    g = HistGen(rng, n_pool=n + 1, suite=suite, providers=providers, name=name)
    g.start()
    g.round(app=False, n_props=0, by_value_adds=n - 1, by_value_removes=0, path_required=True, echo=False)
    order = list(g.in_group)
    mover = order[rng.choice(list(range(n // 2, n)))]             # somebody in the right half
    g.round_explicit(mover, n_adds=0, remove_names=[])             # the others learn keys of its path
    victim = order[rng.below(n // 2)]                              # an early leaf becomes blank
    g.round_explicit(rng.choice([m for m in g.in_group if m not in (victim, mover)]), n_adds=0, remove_names=[victim])
    w = rng.choice([m for m in g.in_group if m != mover])
    gi = g.fresh("gi")
    g.ops.append({"op": "group_info", "who": w, "id": gi, "ext_commit": True, "tree_ext": True})
    xc = g.fresh("xc")
    g.ops.append({"op": "ext_commit", "who": mover, "gi": gi, "id": xc, "remove_self": True})
    for m in g.in_group:
        if m != mover:
            g.ops.append({"op": "deliver", "to": m, "msg": xc})
    g.epoch += 1
    g.ops.append({"op": "observe", "who": w, "observe": "all"})
    g.round_explicit(rng.choice(g.in_group), n_adds=0, remove_names=[])
    return g, mover


def shrink_regrow_history(rng, i, name, quick=True, suite=1, providers=None):
    """The right half of the tree is emptied by ONE commit (two or more removals at once, so that the
    node vector is truncated across a power of two), some traffic happens on the small tree, then the
    group grows back over the old boundary: by an add with or without a path, or by an external commit.
    Everybody - in particular the members added AFTER the shrink and the member that joins on
    regrowth - must agree with the members that lived through the shrink."""
    n = rng.choice([6, 7, 10, 12])
    g = HistGen(rng, n_pool=n + 4, suite=suite, providers=providers, name=name)
    g.start()
    marks = []
    a = g.round(app=False, n_props=0, by_value_adds=n - 1, by_value_removes=0, path_required=rng.chance(1, 2), echo=False)
    marks.append((len(g.ops) - 1, g.epoch))
    order = [g.pool[0]] + a["adds"]
    cap = 4 if n <= 7 else 8
    victims, keep = order[cap:], order[:cap]
    if i % 3 == 1 and cap == 4:
        # first make a hole on the left so that a member can be added BETWEEN shrink and regrowth
        hole = keep[1]
        g.round_explicit(keep[0], n_adds=0, remove_names=[hole])
        marks.append((len(g.ops) - 1, g.epoch))
        keep = [k for k in keep if k != hole]
    g.round_explicit(rng.choice(keep), n_adds=0, remove_names=victims, tree_ext=rng.chance(1, 2))
    marks.append((len(g.ops) - 1, g.epoch))
    if i % 3 == 1 and cap == 4:
        g.round_explicit(rng.choice(keep), n_adds=1, remove_names=[])      # lands in the hole, tree stays small
        marks.append((len(g.ops) - 1, g.epoch))
    if rng.chance(1, 2):
        g.round_explicit(rng.choice(keep), n_adds=0, remove_names=[])
        marks.append((len(g.ops) - 1, g.epoch))
    # regrowth
    for r in range(2):
        g.round(app=False, n_props=0, by_value_adds=1 + rng.below(2), by_value_removes=0, path_required=rng.chance(1, 2), echo=False)
        marks.append((len(g.ops) - 1, g.epoch))
    g.round_explicit(g.in_group[-1], n_adds=0, remove_names=[])
    marks.append((len(g.ops) - 1, g.epoch))
    return g, marks


def failed_apply_history(rng, i, name, quick=True, suite=1, providers=None):
    """A member saves, builds a commit with a path, and the first storage call of applying it fails
    (the archive of the ended epoch asks the storage for its newest epoch).  The member must still be
    exactly the member of the old epoch - tree, private keys, pending commit -: it is observed, then
    either retries, or clears the commit and follows the commit of somebody else that won the race;
    afterwards it commits itself.  Ops that are meant to fail carry `may_fail`."""
    n = rng.choice([3, 4, 5, 6, 8])
    g = HistGen(rng, n_pool=n + 1, suite=suite, providers=providers, name=name)
    g.start()
    g.round(app=False, n_props=0, by_value_adds=n - 1, by_value_removes=0, path_required=True)
    if rng.chance(1, 2):
        g.round_explicit(rng.choice(g.in_group), n_adds=0, remove_names=[])
    a = rng.choice(g.in_group)
    b = rng.choice([m for m in g.in_group if m != a])
    g.ops.append({"op": "save", "who": a})
    ca = g.fresh("c")
    g.ops.append({"op": "commit", "who": a, "id": ca, "add": [], "remove_names": []})
    retry = (i % 3 == 0)
    if not retry:
        cb = g.fresh("c")
        g.ops.append({"op": "commit", "who": b, "id": cb, "add": [], "remove_names": []})
    g.ops.append({"op": "apply", "who": a, "fail_at": [0], "may_fail": True})
    g.ops.append({"op": "observe", "who": a, "observe": [a]})
    if retry:
        for m in g.in_group:
            if m != a:
                g.ops.append({"op": "deliver", "to": m, "msg": ca})
        g.ops.append({"op": "apply", "who": a})
    else:
        g.ops.append({"op": "clear", "who": a})
        for m in g.in_group:
            if m != b:
                g.ops.append({"op": "deliver", "to": m, "msg": cb})
        g.ops.append({"op": "apply", "who": b})
    g.epoch += 1
    g.ops.append({"op": "observe", "who": a, "observe": "all"})
    g.round_explicit(a, n_adds=0, remove_names=[])
    g.round_explicit(rng.choice([m for m in g.in_group if m != a]), n_adds=0, remove_names=[])
    return g, a


def errs(records):
    return [r for r in records if r.get("ok") is False or r.get("crash")]
