"""C05 - message keys are single-use.

Decision: theorems of coq/Props/C05.v over the ratchet state machine Model/Ratchet.v (every
request / send sequence).
Tie: correspondence on (a) the library's SecretTree driven directly (hooks: mlsh ks stree) with
request sequences containing duplicates, reordering and gaps of 1023/1024/1025 generations;
(b) whole groups (mlsh hist): application and encrypted handshake traffic delivered permuted
and duplicated, across save/reload - the model predicts accept/reject per delivery.
Search oracle on the implementation: the (key, nonce) pairs handed to aead_seal by all members
are pairwise distinct; no ciphertext is accepted twice."""
import json
import os
from concurrent.futures import ThreadPoolExecutor

from .common import *
from .histlib import run_scripts, NAMES

CODE = {"KeyMissing": 1, "InvalidFutureGeneration": 2}


def gen_requests(rng, nleaves, big):
    """A request sequence for one secret tree."""
    reqs = []
    keys = [(rng.below(nleaves), rng.chance(1, 3)) for _ in range(1 + rng.below(3))]
    sent = {k: 0 for k in keys}
    pool = []
    for k in keys:
        n = 3 + rng.below(12)
        pool += [(k, g) for g in range(n)]
    pool = rng.shuffle(pool)
    for k, g in pool:
        reqs.append((k, g))
        if rng.chance(1, 5):
            reqs.append((k, g))            # replay
        if rng.chance(1, 8) and reqs:
            reqs.append(rng.choice(reqs))  # replay of something older
    if big:
        k = keys[0]
        base = max(g for kk, g in reqs if kk == k) + 1
        edge = rng.choice([1023, 1024, 1025, 1026, 2000])
        reqs.append((k, base + edge))
        reqs.append((k, base + edge))
        reqs.append((k, base + 5))
        reqs.append((k, base + edge + 1024))
        reqs.append((k, base + edge + 1026))
        # generations skipped long ago stay retrievable: the window bounds each jump, not the age
        # of a stored key (a hole followed by several in-window jumps that carry the ratchet far away)
        reqs.append((k, base + edge + 1024 + 700))
        reqs.append((k, base + edge + 1024 + 1500))
        for old in (base + 7, base + edge - 1, base + edge + 3, base + edge + 1024 + 2, base + 7):
            reqs.append((k, old))
    return reqs


def traffic_script(rng, name, storage, n_msgs, big=False):
    """A, B, C in a group; senders encrypt application messages (and encrypted proposals);
    receivers get them permuted, duplicated, with reloads in between."""
    members = [{"name": n, "storage": storage, "retention": 3} for n in "ABC"]
    ops = [{"op": "create", "who": "A"}, {"op": "kp", "who": "B", "id": "kB"}, {"op": "kp", "who": "C", "id": "kC"},
           {"op": "commit", "who": "A", "id": "c1", "add": ["kB", "kC"]}, {"op": "apply", "who": "A"},
           {"op": "join", "who": "B", "welcome_any": "c1"}, {"op": "join", "who": "C", "welcome_any": "c1"}]
    for m in "ABC":
        ops.append({"op": "opts", "who": m, "encrypt_controls": True})
        ops.append({"op": "save", "who": m})
    sends = []      # (msg id, sender, kind, generation)
    gens = {}
    for i in range(n_msgs):
        s = rng.choice("AB") if not big else "A"
        kind = "app"
        g = gens.get((s, kind), 0)
        gens[(s, kind)] = g + 1
        mid = f"m{i}"
        ops.append({"op": "app", "who": s, "id": mid, "data": "%04x" % i})
        sends.append((mid, s, kind, g))
    deliveries = []  # (receiver, msg id, sender, kind, gen)
    for r in "ABC":
        mine = [x for x in sends if x[1] != r]
        if big:
            # far-ahead first, then the window edge, then a few normal ones
            order = [mine[-1], mine[1024], mine[1025], mine[3], mine[3], mine[0], mine[1023], mine[-1]] if len(mine) > 1026 else mine
        else:
            order = rng.shuffle(mine)
            for _ in range(1 + len(mine) // 4):
                order.insert(rng.below(len(order) + 1), rng.choice(mine))
        for j, (mid, s, kind, g) in enumerate(order):
            if not big and rng.chance(1, 7):
                ops.append({"op": "save", "who": r})
                ops.append({"op": "load", "who": r})
            ops.append({"op": "deliver", "to": r, "msg": mid})
            deliveries.append((len(ops) - 1, r, mid, s, kind, g))
    return {"name": name, "suite": 1, "members": members, "ops": ops}, deliveries


def coq_shard(i, cases):
    def rk(k):
        return f"(({k[0]}, {'true' if k[1] else 'false'}), {k[2]})"
    items = ";\n".join("([" + "; ".join(rk((k[0], k[1], g)) for k, g in reqs) + "], " + nlist(exp) + ")" for reqs, exp in cases)
    text = ("From Coq Require Import NArith List.\nFrom MlsV Require Import Res Ratchet TreeMathCases.\nImport ListNotations.\nLocal Open Scope N_scope.\n"
            f"Definition cases : list (list (rkey * N) * list N) := [\n{items}\n].\n"
            "Fixpoint mm (i : N) (cs : list (list (rkey * N) * list N)) : list N :=\n"
            "  match cs with [] => [] | (r, e) :: t => if list_eqb (run_requests [] r) e then mm (i + 1) t else i :: mm (i + 1) t end.\n"
            "Eval vm_compute in (mm 0 cases).\n")
    return coq_eval_cases(f"C05_cases_{i}", text, timeout=900)


def main(run, args):
    rng = Rng(run.seed)
    run.assumptions += [
        "distinct (leaf, kind, generation) triples give distinct keys: collision-freeness of the KDF (the key VALUES are C13's business)",
        "Model/Ratchet.v is hand-written from secret_tree.rs get_message_key / next_message_key",
        "randomness quality of the reuse guard is out of scope",
    ]
    broken = []
    proofs_ok, log = prove(run, "C05", extra_targets=["Model/TreeMathCases.vo"])
    if not proofs_ok:
        broken.append(("proof", "Props/C05.v does not check; " + "; ".join(run.notes[-1:])))
    hok, herr = build_harness()
    if not hok:
        run.violation("harness build failed", herr, failing_input_found=False)
        return
    quick = run.tier == "quick"
    # ---------- (a) secret tree driven directly
    trees = []
    for i in range(40 if quick else 400):
        depth = rng.choice([0, 1, 2, 3, 5])
        reqs = gen_requests(rng, 1 << depth, big=(i % 4 == 0))
        trees.append((depth, rng.bytes(32), reqs))
    lines = [json.dumps({"op": "stree", "suite": 1, "provider": rng.choice(["openssl", "rustcrypto"]), "leaf_count": 1 << d, "enc": enc.hex(),
                         "reqs": [[k[0], k[1], g] for k, g in reqs]}) for d, enc, reqs in trees]
    rc, out, err = sh([MLSH, "ks"], input="\n".join(lines) + "\n", timeout=900)
    answers = [json.loads(l) for l in out.splitlines()]
    if rc != 0 or len(answers) != len(lines):
        run.violation("mlsh ks failed", err[-1500:], failing_input_found=False)
        return
    failing = []
    cases = []
    kinds = {0: 0, 1: 0, 2: 0, 3: 0}
    for (d, enc, reqs), ans in zip(trees, answers):
        if "keys" not in ans:
            failing.append({"what": "secret tree request sequence panicked", "leaf_count": 1 << d, "requests": [[k[0], k[1], g] for k, g in reqs], "answer": ans})
            continue
        codes = []
        seen_keys = {}
        accepted = set()
        for (k, g), a in zip(reqs, ans["keys"]):
            if isinstance(a, dict):
                codes.append(CODE.get(a["err"], 3))
            else:
                codes.append(0)
                if (k, g) in accepted:
                    failing.append({"what": "generation handed out twice (replay accepted)", "leaf_count": 1 << d, "requests": [[kk[0], kk[1], gg] for kk, gg in reqs], "at": [k[0], k[1], g]})
                accepted.add((k, g))
                pair = (a[1], a[0])
                if pair in seen_keys and seen_keys[pair] != (k, g):
                    failing.append({"what": "same (key, nonce) for two different messages", "first": seen_keys[pair], "second": [k[0], k[1], g]})
                seen_keys[pair] = (k, g)
            kinds[codes[-1]] = kinds.get(codes[-1], 0) + 1
        cases.append((reqs, codes))
    # ---------- (b) whole groups
    scripts, delivs = [], []
    for i in range(6 if quick else 40):
        s, dv = traffic_script(rng, f"c05-{i}", rng.choice(["mem", "sqlite"]), 6 + rng.below(14))
        scripts.append(s)
        delivs.append(dv)
    s, dv = traffic_script(rng, "c05-big", "mem", 1100 if quick else 2200, big=True)
    scripts.append(s)
    delivs.append(dv)
    # directed: late messages of several PRIOR epochs (already written to storage), read newest epoch first
    # between two writes, then every one of them delivered again - with the state kept in memory and after a
    # write + reload: a ciphertext is accepted once, whatever the order in which the old epochs are touched
    prior_expect = {}
    for i in range(6 if quick else 40):
        storage = ["mem", "sqlite"][i % 2]
        members = [{"name": n, "storage": storage, "retention": 5} for n in "ABC"]
        ops = [{"op": "create", "who": "A"}, {"op": "kp", "who": "B", "id": "kB"}, {"op": "kp", "who": "C", "id": "kC"},
               {"op": "commit", "who": "A", "id": "c0", "add": ["kB", "kC"]}, {"op": "apply", "who": "A"},
               {"op": "join", "who": "B", "welcome_any": "c0"}, {"op": "join", "who": "C", "welcome_any": "c0"}]
        n_ep = 3 + rng.below(2)
        for e in range(1, n_ep + 1):
            for x in "ab":
                ops.append({"op": "app", "who": "B", "id": f"m{e}{x}", "data": "%02x" % e})
            ops += [{"op": "opts", "who": "A", "path_required": True}, {"op": "commit", "who": "A", "id": f"c{e}"}, {"op": "apply", "who": "A"},
                    {"op": "deliver", "to": "B", "msg": f"c{e}"}, {"op": "deliver", "to": "C", "msg": f"c{e}"}]
        ops.append({"op": "save", "who": "C"})
        eps = list(range(n_ep, 0, -1)) if i % 3 != 2 else rng.shuffle(list(range(1, n_ep + 1)))
        oks, fails = set(), set()
        for e in eps:
            ops.append({"op": "deliver", "to": "C", "msg": f"m{e}a"})
            oks.add(len(ops) - 1)
        for e in rng.shuffle(eps):
            ops.append({"op": "deliver", "to": "C", "msg": f"m{e}a"})
            fails.add(len(ops) - 1)
        if i % 2 == 1:
            # the write fails once (transient storage fault) and is retried: what the first attempt did not
            # store must still be stored by the retry, or the consumed keys of the prior epochs come back
            ops.append({"op": "save", "who": "C", "fail_at": [0], "may_fail": True})
            for e in rng.shuffle(eps)[:2]:
                ops.append({"op": "deliver", "to": "C", "msg": f"m{e}a"})
                fails.add(len(ops) - 1)
        ops += [{"op": "save", "who": "C"}, {"op": "load", "who": "C"}]
        for e in rng.shuffle(eps):
            ops.append({"op": "deliver", "to": "C", "msg": f"m{e}a"})
            fails.add(len(ops) - 1)
        for e in eps:
            ops.append({"op": "deliver", "to": "C", "msg": f"m{e}b"})
            oks.add(len(ops) - 1)
        name = f"c05-prior-{i}"
        prior_expect[name] = (oks, fails)
        scripts.append({"name": name, "suite": 1, "members": members, "ops": ops})
        delivs.append([])
    recs = run_scripts(scripts, timeout=1500)
    for sc, rs in zip(scripts, recs):
        if sc["name"] in prior_expect:
            oks, fails = prior_expect[sc["name"]]
            byi = {r["i"]: r for r in rs if "i" in r}
            for k in sorted(fails):
                if byi.get(k, {}).get("ok") is not False:
                    failing.append({"what": "a message of a prior epoch that had been read is accepted a second time (the same ciphertext was accepted twice by one receiver)", "script": sc["name"], "op": sc["ops"][k], "ops": sc["ops"][max(0, k - 10):k + 1]})
            for k in sorted(oks):
                if byi.get(k, {}).get("ok") is not True:
                    failing.append({"what": "a message of a retained prior epoch is refused at its first delivery", "script": sc["name"], "op": sc["ops"][k], "record": byi.get(k)})
    group_deliveries = 0
    for sc, dv, rs in zip(scripts, delivs, recs):
        if any(r.get("crash") for r in rs):
            failing.append({"what": "history interpreter crashed", "script": sc["name"]})
            continue
        byi = {r["i"]: r for r in rs if "i" in r}
        # setup must have worked
        bad_setup = [r for r in rs if r.get("ok") is False and r["op"] in ("create", "kp", "commit", "apply", "join", "save", "load", "app") and not sc["ops"][r["i"]].get("may_fail")]
        if bad_setup:
            failing.append({"what": "valid operation failed", "script": sc["name"], "record": bad_setup[0]})
            continue
        # model input: per receiver the request sequence (leaf of sender, app kind, generation)
        leaf = {"A": 0, "B": 1, "C": 2}
        per_recv = {}
        for (i, r, mid, s_, kind, g) in dv:
            per_recv.setdefault(r, []).append(((leaf[s_], False), g, i))
        for r, seq in per_recv.items():
            reqs = [(k, g) for k, g, _ in seq]
            codes = []
            accepted = set()
            for (k, g, i) in seq:
                rec = byi.get(i, {})
                group_deliveries += 1
                if rec.get("err") == "PANIC":
                    failing.append({"what": "panic while processing an application message", "script": sc["name"], "op": i})
                if rec.get("ok"):
                    codes.append(0)
                    if (k, g) in accepted:
                        failing.append({"what": "the same ciphertext was accepted twice by one receiver", "script": sc["name"], "receiver": r, "op": i})
                    accepted.add((k, g))
                else:
                    codes.append(CODE.get(rec.get("err"), 3))
            cases.append((reqs, codes))
        # nonce reuse oracle over the whole script
        seen = {}
        for rrec in rs:
            for ev in rrec.get("aead", []):
                if ev[0] == "s":
                    pair = (ev[1], ev[2])
                    if pair in seen:
                        failing.append({"what": "two aead_seal calls used the same (key, nonce)", "script": sc["name"], "ops": [seen[pair], rrec["i"]]})
                    seen[pair] = rrec["i"]
    # ---------- model
    mism = []
    coq_cases = 0
    if model_ready(proofs_ok):
        nsh = min(16, max(1, len(cases)))
        shards = [cases[i::nsh] for i in range(nsh)]
        with ThreadPoolExecutor(max_workers=16) as ex:
            results = list(ex.map(lambda x: coq_shard(*x), enumerate(shards)))
        for si, (nums, log) in enumerate(results):
            if nums is None:
                broken.append(("correspondence", "Coq evaluation of the ratchet model failed: " + log[-600:]))
                continue
            coq_cases += len(shards[si])
            for idx in nums:
                reqs, codes = shards[si][idx]
                mism.append({"requests": [[k[0], k[1], g] for k, g in reqs][:60], "implementation": codes[:60]})
    run.obligation("correspondence ratchet model (vm_compute) = implementation accept/reject on all request sequences", not mism and coq_cases > 0)
    run.cov.update({
        "evaluations": sum(len(r) for r, _ in cases),
        "distinct_nontrivial": len({json.dumps([r, c]) for r, c in cases}),
        "rule": "request sequences over 1-3 ratchets of a secret tree: every generation once in random order, replays, gaps of 1023/1024/1025/1026 generations and beyond; group traffic of three members with permuted and duplicated deliveries and save/reload between deliveries, one script crossing the 1024 window. A case = one receiver-side request sequence; every request is compared.",
        "samples": [{"requests": [[k[0], k[1], g] for k, g in cases[0][0]][:12], "codes": cases[0][1][:12]}],
        "request_outcomes": {"accepted": kinds.get(0, 0), "key_missing": kinds.get(1, 0), "future": kinds.get(2, 0), "other": kinds.get(3, 0)},
        "sequences": len(cases),
        "group_deliveries": group_deliveries,
        "compared_with_model_in_coq": coq_cases,
    })
    if failing:
        run.violation("implementation violates single-use of message keys", failing[:10])
    elif mism:
        # the model's accept/reject IS the property (accepted iff inside the window and not yet
        # delivered), so a disagreeing request sequence is a concrete failing input
        run.violation("a delivery is accepted / refused against the single-use and 1024-window rule", mism[:6])
    elif broken:
        run.violation("proof obligation or tie no longer checks: " + broken[0][0], [b[1] for b in broken], failing_input_found=False)
