"""C16 - an external observer tracks exactly the members' public state.

Decision: theorems of coq/Props/C16.v (window arithmetic translated from the source never
panics and is the saturating difference; admission of ciphertexts inside the window;
handshake admission identical to a member's).
Tie / search oracle: generated histories with public handshake messages; observers are started
from a GroupInfo at every epoch (tree in the extension or out of band) with max_epoch_jitter
unset / 0 / 1 / 3 / far larger than the epoch, are fed every proposal and commit and the
application ciphertexts (current and old epochs); after every commit their group context, tree
and roster must equal the members'; ciphertext admission must equal the admission model
evaluated in Coq; snapshot / restore at random points; corrupted and replayed handshake messages
must be refused without changing the observer; proposals issued by an observer that is an
external sender must be accepted and committed by the members.  Never a panic."""
import json
from concurrent.futures import ThreadPoolExecutor

from .common import *
from .histlib import HistGen, run_scripts

JITTERS = [None, 0, 1, 3, 1000]


def gen(rng, i, quick):
    g = HistGen(rng, n_pool=7, name=f"c16-{i}", storage="mem")
    ext = "Z"
    g.members_cfg.append({"name": ext, "provider": "openssl", "storage": "mem", "retention": 3})
    g.ops.append({"op": "create", "who": g.pool[0], "ext_senders": [ext]})
    g.in_group = [g.pool[0]]
    observers = {}     # name -> dict(jitter, epoch_started)
    checks = []        # (op index of observe, epoch)
    ct_cases = []      # (op index, observer, jitter, obs epoch, msg epoch)
    bad_cases = []     # (op index, observer, what)
    ext_props = []
    apps = []          # (id, epoch)
    nrounds = 6 if quick else 10
    sender_obs = None
    for r in range(nrounds):
        n0 = len(g.ops)
        if r == 0:
            info = g.round(n_props=0, by_value_adds=3, by_value_removes=0, encrypt=False, app=True, observe=None)
        else:
            info = g.round(encrypt=False, app=True, observe=None)
        if not info:
            continue
        new_ops = g.ops[n0:]
        hs = [o["id"] for o in new_ops if o["op"] in ("propose", "commit")]
        app_ids = [o["id"] for o in new_ops if o["op"] == "app"]
        for a in app_ids:
            apps.append((a, g.epoch))
        # every observer follows
        for on, od in observers.items():
            for mid in hs:
                g.ops.append({"op": "obs_deliver", "who": on, "to": on, "msg": mid})
            # ciphertexts: the current one and an old one
            for (a, ep) in ([apps[-1]] if apps else []) + ([rng.choice(apps)] if apps else []):
                g.ops.append({"op": "obs_deliver", "who": on, "to": on, "msg": a})
                ct_cases.append((len(g.ops) - 1, on, od["jitter"], g.epoch, ep))
            if rng.chance(1, 4):
                g.ops.append({"op": "obs_reload", "who": on, "jitter": od["jitter"]})
        # corrupted / replayed handshake for one observer
        if observers and rng.chance(1, 2):
            on = rng.choice(sorted(observers))
            cid = info["commit"]
            bid = g.fresh("bad")
            g.ops.append({"op": "mutate", "who": g.in_group[0], "src": cid, "id": bid, "how": "flip", "bit": 8 * (40 + rng.below(60)) + rng.below(8)})
            g.ops.append({"op": "obs_deliver", "who": on, "to": on, "msg": bid, "observe": on})
            bad_cases.append((len(g.ops) - 1, on, "corrupted copy of an already applied commit"))
            g.ops.append({"op": "obs_deliver", "who": on, "to": on, "msg": cid, "observe": on})
            bad_cases.append((len(g.ops) - 1, on, "replay of the commit of the previous epoch"))
        # a new observer joins here
        on = f"O{r}"
        jit = JITTERS[(i + r) % len(JITTERS)]
        w = rng.choice(g.in_group)
        gid = g.fresh("gi")
        in_ext = rng.chance(1, 2)
        g.ops.append({"op": "group_info", "who": w, "id": gid, "ext_commit": False, "tree_ext": in_ext})
        oj = {"op": "obs_join", "who": on, "gi": gid}
        if jit is not None:
            oj["jitter"] = jit
        if not in_ext:
            oj["tree"] = gid + ".tree"
        if sender_obs is None:
            oj["signer_of"] = ext
            sender_obs = on
        g.ops.append(oj)
        observers[on] = {"jitter": jit}
        # the external sender proposes: removal of somebody / addition of an outsider
        if sender_obs and sender_obs in observers and r >= 1 and rng.chance(2, 3) and len(g.in_group) > 3:
            pid = g.fresh("xp")
            outs = g.outsiders()
            if outs and rng.chance(1, 2):
                kp = g.fresh("kp")
                g.ops.append({"op": "kp", "who": outs[0], "id": kp})
                g.ops.append({"op": "obs_propose", "who": sender_obs, "kind": "add", "kp": kp, "id": pid})
                xp = ("add", outs[0])
            else:
                t = rng.choice([m for m in g.in_group])
                g.ops.append({"op": "obs_propose", "who": sender_obs, "kind": "remove", "name": t, "id": pid})
                xp = ("remove", t)
            for m in g.in_group:
                g.ops.append({"op": "deliver", "to": m, "msg": pid})
            for on2 in observers:
                if on2 != sender_obs:
                    g.ops.append({"op": "obs_deliver", "who": on2, "to": on2, "msg": pid})
            # committed by somebody who is not the target
            c = rng.choice([m for m in g.in_group if not (xp[0] == "remove" and m == xp[1])])
            cid = g.fresh("c")
            g.ops.append({"op": "opts", "who": c, "encrypt_controls": False, "tree_ext": True})
            g.ops.append({"op": "commit", "who": c, "id": cid})
            ext_props.append((len(g.ops) - 1, xp))
            for m in g.in_group:
                if m != c:
                    g.ops.append({"op": "deliver", "to": m, "msg": cid})
            g.ops.append({"op": "apply", "who": c})
            for on2 in observers:
                g.ops.append({"op": "obs_deliver", "who": on2, "to": on2, "msg": cid})
            if xp[0] == "add":
                g.ops.append({"op": "join", "who": xp[1], "welcome_any": cid})
                g.in_group.append(xp[1])
            else:
                g.in_group.remove(xp[1])
                g.removed.append(xp[1])
            g.epoch += 1
        g.ops.append({"op": "observe", "who": g.in_group[0], "observe": "all"})
        checks.append((len(g.ops) - 1, g.epoch))
    return g.script(), {"checks": checks, "ct": ct_cases, "bad": bad_cases, "ext": ext_props, "observers": observers}


def server_script(rng, i):
    """The stateless-server pattern of ExternalGroup: the observer persists every proposal it
    sees (cached_proposal), is restored from a snapshot taken BEFORE them, re-inserts them
    (insert_proposal) and then processes the commit that references them.  Proposals of a
    member, of the external sender and of a new member (external add request)."""
    names = ["A", "B", "C", "D"]
    members = [{"name": n} for n in names + ["N", "M", "Z"]]
    ops = [{"op": "create", "who": "A", "ext_senders": ["Z"]}]
    for n in names[1:]:
        ops.append({"op": "kp", "who": n, "id": "k" + n})
    ops += [{"op": "commit", "who": "A", "id": "c0", "add": ["k" + n for n in names[1:]]}, {"op": "apply", "who": "A"}]
    for n in names[1:]:
        ops.append({"op": "join", "who": n, "welcome_any": "c0"})
    for n in names:
        ops.append({"op": "opts", "who": n, "encrypt_controls": False, "tree_ext": True, "path_required": rng.chance(1, 2)})
    ops.append({"op": "group_info", "who": "A", "id": "gi0", "ext_commit": True, "tree_ext": True})
    ops.append({"op": "obs_join", "who": "S", "gi": "gi0"})
    ops.append({"op": "obs_join", "who": "X", "gi": "gi0", "signer_of": "Z"})
    checks = []
    epoch = 1
    for r in range(2):
        ops.append({"op": "obs_snapshot", "who": "S", "id": f"snap{r}"})
        pids = []
        kinds = rng.shuffle(["member_update", "member_remove", "external_add", "newmember_add"])[:2 + rng.below(3)]
        if "member_remove" in kinds and "external_add" in kinds and r == 1:
            kinds.remove("member_remove")
        live = [n for n in names]
        for k in kinds:
            pid = f"q{r}{len(pids)}"
            if k == "member_update":
                ops.append({"op": "propose", "who": "B", "kind": "update", "id": pid})
                src = "B"
            elif k == "member_remove":
                ops.append({"op": "propose", "who": "C", "kind": "remove", "name": "D", "id": pid})
                src = "C"
            elif k == "external_add":
                ops.append({"op": "kp", "who": "M", "id": f"kM{r}"})
                ops.append({"op": "obs_propose", "who": "X", "kind": "add", "kp": f"kM{r}", "id": pid})
                src = None
            else:
                ops.append({"op": "group_info", "who": "A", "id": f"gin{r}", "ext_commit": True, "tree_ext": True})
                ops.append({"op": "ext_add", "who": "N", "gi": f"gin{r}", "id": pid})
                src = None
            pids.append(pid)
            for m in live:
                if m != src:
                    ops.append({"op": "deliver", "to": m, "msg": pid})
            ops.append({"op": "obs_deliver", "who": "S", "to": "S", "msg": pid})
            if k != "external_add":
                ops.append({"op": "obs_deliver", "who": "X", "to": "X", "msg": pid})
        # the server forgets what it held in memory and re-inserts what it persisted
        ops.append({"op": "obs_restore", "who": "S", "snap": f"snap{r}"})
        for pid in rng.shuffle(pids):
            ops.append({"op": "obs_insert", "who": "S", "msg": pid})
        ops.append({"op": "commit", "who": "A", "id": f"cs{r}"})
        for m in live:
            if m != "A":
                ops.append({"op": "deliver", "to": m, "msg": f"cs{r}"})
        ops.append({"op": "apply", "who": "A"})
        ops.append({"op": "obs_deliver", "who": "S", "to": "S", "msg": f"cs{r}"})
        ops.append({"op": "obs_deliver", "who": "X", "to": "X", "msg": f"cs{r}"})
        epoch += 1
        ops.append({"op": "observe", "who": "A", "observe": "all"})
        checks.append((len(ops) - 1, epoch))
        break
    ops = [o for o in ops if o is not None]
    return {"name": f"c16-srv{i}", "suite": 1, "members": members, "ops": ops}, {"checks": checks, "ct": [], "bad": [], "ext": [], "observers": {"S": {"jitter": None}}}


def nocache_script(rng, i):
    """An observer that is an external sender and was built with cache_proposals(false): it keeps
    no proposal it merely sees, but it knows what it proposed itself, so it follows every commit
    that references only its own proposals (by reference) or carries proposals by value."""
    names = ["A", "B", "C", "D", "E"]
    members = [{"name": n} for n in names + ["M0", "M1", "M2", "Z"]]
    # half of the time the service has rotated its key: its credential is listed twice in the external
    # senders extension, old key first, and the observer signs with the new one (second entry)
    rotated = (i % 2 == 1)
    if rotated:
        members += [{"name": "Zold", "identity_name": "Z"}]
    ops = [{"op": "create", "who": "A", "ext_senders": (["Zold", "Z"] if rotated else ["Z"])}]
    for n in names[1:]:
        ops.append({"op": "kp", "who": n, "id": "k" + n})
    ops += [{"op": "commit", "who": "A", "id": "c0", "add": ["k" + n for n in names[1:]]}, {"op": "apply", "who": "A"}]
    for n in names[1:]:
        ops.append({"op": "join", "who": n, "welcome_any": "c0"})
    for n in names:
        ops.append({"op": "opts", "who": n, "encrypt_controls": False, "tree_ext": True, "path_required": rng.chance(1, 2)})
    ops.append({"op": "group_info", "who": "A", "id": "gi0", "ext_commit": True, "tree_ext": True})
    ops.append({"op": "obs_join", "who": "X", "gi": "gi0", "signer_of": "Z", "no_cache": True})
    live = list(names)
    checks, ext = [], []
    epoch = 1
    for r in range(3):
        pid = f"xq{r}"
        if rng.chance(1, 2) or len(live) <= 3:
            ops.append({"op": "kp", "who": f"M{r}", "id": f"kM{r}"})
            ops.append({"op": "obs_propose", "who": "X", "kind": "add", "kp": f"kM{r}", "id": pid})
            xp = ("add", f"M{r}")
        else:
            t = rng.choice(live[1:])
            ops.append({"op": "obs_propose", "who": "X", "kind": "remove", "name": t, "id": pid})
            xp = ("remove", t)
        for m in live:
            ops.append({"op": "deliver", "to": m, "msg": pid})
        c = rng.choice([m for m in live if not (xp[0] == "remove" and m == xp[1])])
        cid = f"cx{r}"
        ops.append({"op": "opts", "who": c, "encrypt_controls": False, "tree_ext": True})
        ops.append({"op": "commit", "who": c, "id": cid})
        ext.append((len(ops) - 1, xp))
        for m in live:
            if m != c:
                ops.append({"op": "deliver", "to": m, "msg": cid})
        ops.append({"op": "apply", "who": c})
        ops.append({"op": "obs_deliver", "who": "X", "to": "X", "msg": cid})
        if xp[0] == "add":
            ops.append({"op": "join", "who": xp[1], "welcome_any": cid})
            ops.append({"op": "opts", "who": xp[1], "encrypt_controls": False, "tree_ext": True})
            live.append(xp[1])
        else:
            live.remove(xp[1])
        epoch += 1
        if rng.chance(1, 3):
            ops.append({"op": "obs_reload", "who": "X"})
        ops.append({"op": "observe", "who": live[0], "observe": "all"})
        checks.append((len(ops) - 1, epoch))
    return {"name": f"c16-nc{i}", "suite": 1, "members": members, "ops": ops}, {"checks": checks, "ct": [], "bad": [], "ext": ext, "observers": {"X": {"jitter": None}}}


def main(run, args):
    rng = Rng(run.seed)
    run.assumptions += [
        "the observer is fed public handshake messages only (encrypted handshake traffic cannot be followed by a non-member, by design)",
        "Gen/WindowGen.v is translated from ExternalGroup::min_epoch_available; the admission model is hand-written from check_metadata",
    ]
    broken = []
    build_translator()
    ok1, m1 = regen("window", "WindowGen.v")
    run.obligation("translate the observer's epoch-window arithmetic", ok1)
    if not ok1:
        run.notes.append("window translation failed: " + m1)
    proofs_ok = False
    if ok1:
        proofs_ok, log = prove(run, "C16", extra_targets=[])
    if not proofs_ok:
        broken.append(("proof", "Props/C16.v does not check; " + "; ".join(run.notes[-1:])))
    hok, herr = build_harness()
    if not hok:
        run.violation("harness build failed", herr, failing_input_found=False)
        return
    quick = run.tier == "quick"
    items = [gen(rng, i, quick) for i in range(20 if quick else 150)] + [server_script(rng, i) for i in range(8 if quick else 60)] + [nocache_script(rng, i) for i in range(6 if quick else 40)]
    recs = run_scripts([x[0] for x in items], timeout=3000)
    failing = []
    stats = {"observer_comparisons": 0, "ciphertexts": 0, "refused_by_window": 0, "bad_handshake": 0, "external_proposals_committed": 0, "reloads": 0, "jitter_gt_epoch": 0}
    adm = []
    for (sc, meta), rs in zip(items, recs):
        if any(r.get("crash") for r in rs):
            failing.append({"what": "history interpreter crashed", "script": sc["name"], "stderr": [r.get("stderr") for r in rs if r.get("crash")][:1]})
            continue
        byi = {r["i"]: r for r in rs if "i" in r}
        panics = [r for r in rs if r.get("err") == "PANIC"]
        if panics:
            failing.append({"what": "PANIC", "script": sc["name"], "record": panics[0], "op": sc["ops"][panics[0]["i"]]})
            continue
        special = {k for k, *_ in meta["ct"]} | {k for k, *_ in meta["bad"]}
        bad = [r for r in rs if r.get("ok") is False and r["i"] not in special]
        if bad:
            o = sc["ops"][bad[0]["i"]]
            what = "an observer refused a message the members accepted" if o["op"] == "obs_deliver" else ("a proposal issued by the observer as external sender was refused" if o.get("msg", "").startswith("xp") else "operation failed in a valid history")
            failing.append({"what": what, "script": sc["name"], "record": bad[0], "op": o, "before": sc["ops"][max(0, bad[0]["i"] - 4):bad[0]["i"]]})
            continue
        stats["reloads"] += sum(1 for o in sc["ops"] if o["op"] == "obs_reload")
        for (k, ep) in meta["checks"]:
            obs = byi[k]["obs"]
            mem = [o for n, o in obs.items() if o and o.get("group") and not o.get("observer") and o["epoch"] == ep]
            if not mem:
                continue
            ref = mem[0]
            for n, o in obs.items():
                if o and o.get("observer"):
                    stats["observer_comparisons"] += 1
                    if o["epoch"] != ep or o["ctx"] != ref["ctx"] or o["tree_bytes"] != ref["tree_bytes"] or sorted(map(tuple, o["roster"])) != sorted(map(tuple, ref["roster"])):
                        failing.append({"what": "an observer's public state differs from the members'", "script": sc["name"], "observer": n, "observer_epoch": o["epoch"], "members_epoch": ep,
                                        "ctx_equal": o["ctx"] == ref["ctx"], "tree_equal": o["tree_bytes"] == ref["tree_bytes"]})
        for (k, on, jit, oep, mep) in meta["ct"]:
            r = byi.get(k, {})
            stats["ciphertexts"] += 1
            if jit is not None and jit > oep:
                stats["jitter_gt_epoch"] += 1
            code = 0 if r.get("ok") else (3 if r.get("err") == "InvalidEpoch" else 9)
            adm.append((f"obs_ct {('(Some ' + str(jit) + ')') if jit is not None else 'None'} {oep} {mep}", code, {"script": sc["name"], "op": sc["ops"][k], "observer": on, "jitter": jit, "observer_epoch": oep, "message_epoch": mep, "library": r.get("err") or "ok"}))
            if not r.get("ok"):
                stats["refused_by_window"] += 1
        for (k, on, what) in meta["bad"]:
            r = byi.get(k, {})
            stats["bad_handshake"] += 1
            if r.get("ok") is not False:
                failing.append({"what": "the observer accepted an invalid handshake message: " + what, "script": sc["name"], "op": sc["ops"][k], "result": r.get("info")})
        for (k, xp) in meta["ext"]:
            r = byi.get(k, {})
            # the commit right after the external proposal must apply it
            nxt = [x for x in rs if x.get("op") == "apply" and x.get("i", 0) > k]
            if nxt:
                kinds = [d["k"] for d in (nxt[0].get("info") or {}).get("detail", [])]
                if xp[0] in kinds:
                    stats["external_proposals_committed"] += 1
                else:
                    failing.append({"what": "a proposal issued by the observer as external sender was not committed", "script": sc["name"], "proposal": xp, "applied": kinds, "unused": (nxt[0].get("info") or {}).get("unused")})
    mism = []
    coq_cases = 0
    if model_ready(proofs_ok) and adm:
        text = ("From Coq Require Import NArith List Bool.\nFrom MlsV Require Import Admission.\nImport ListNotations.\nLocal Open Scope N_scope.\n"
                "Definition obs_ct (j : option N) (e m : N) : N :=\n"
                "  match check_metadata {| av_version_ok := true; av_gid := 1; av_epoch := e; av_min := match j with Some x => Some (min_epoch_saturating e x) | None => None end; av_stored := [] |} 1 m CtApplication true with\n"
                "  | AOk => 0 | AInvalidEpoch => 3 | _ => 8 end.\n"
                "Eval vm_compute in [" + ";\n".join(a[0] for a in adm) + "].\n")
        nums, logtxt = coq_eval_cases("C16_cases", text, timeout=900)
        if nums is None or len(nums) != len(adm):
            broken.append(("correspondence", "Coq evaluation of the window model failed: " + (logtxt or "")[-500:]))
        else:
            for (expr, code, ctx), v in zip(adm, nums):
                coq_cases += 1
                if v != code:
                    (failing if (v == 0 and code == 3) else mism).append(dict(ctx, what="a ciphertext of an epoch inside the window was refused" if v == 0 else "window model and library disagree", model=v))
    run.obligation("observers equal the members after every commit; window admission = model; invalid handshake refused; external-sender proposals committed; no panic", not failing and not mism and stats["observer_comparisons"] > 0 and coq_cases > 0)
    if stats["jitter_gt_epoch"] < 5 or stats["external_proposals_committed"] < 3 or stats["refused_by_window"] < 3:
        broken.append(("generator", f"degenerate histories: {stats}"))
    run.cov.update({
        "evaluations": stats["observer_comparisons"] + stats["ciphertexts"] + stats["bad_handshake"],
        "distinct_nontrivial": stats["observer_comparisons"],
        "rule": "histories of up to 7 members and 6 (thorough 10) epochs with public handshake messages (adds, removes, updates by reference and by value); a new observer joins after every epoch (jitter cycling through unset, 0, 1, 3, 1000; tree in the extension or out of band); all observers receive all proposals, commits, the newest and one random older ciphertext; reload of 1/4 of the observers per epoch; corrupted and replayed commits; the first observer is an external sender and proposes adds / removals that a member commits.",
        "samples": [],
        "stats": stats,
        "window_cases_in_coq": coq_cases,
        "histories": len(items),
    })
    if failing:
        run.violation("an observer lost track of the group, panicked, or refused / accepted the wrong traffic", failing[:8])
    elif mism:
        run.violation("window model and implementation disagree", mism[:6], failing_input_found=False)
    elif broken:
        run.violation("proof obligation or tie no longer checks: " + broken[0][0], [b[1] for b in broken], failing_input_found=False)
