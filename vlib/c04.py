"""C04 - a rejected message leaves the group exactly as it was.

Decision: theorems of coq/Props/C04.v: the sound checker of Model/Effects.v applied to the
failure-point / mutation order EXTRACTED FROM THE SOURCE (translator, every run) of message
processing, commit building and pending-commit application.
Search oracle (implementation): the complete encoded member state (Snapshot) is compared
before / after EVERY rejected variant of exhaustive corruption sweeps (bit flips, truncations,
splices of every message kind), of wrong-epoch / wrong-group / replayed messages, of
late-failing messages (insider copies with a wrong confirmation tag and a valid membership tag
of commits that carry the receiver's own identity update, a re-init, adds / removes, PSKs; a
commit whose PSK the receiver lacks), of failing commit / proposal builds; after a rejection the
genuine message must still be accepted and what the member sends must be accepted by its peers.
Known finding F2d (message key consumed before a PrivateMessage has been opened) is matched by
its exact signature: state changed / genuine refused with KeyMissing only for a PrivateMessage
variant that fails after the sender data opened."""
import json
import re

from .common import *
from .histlib import HistGen, run_scripts


def sweep_script(rng, i, quick):
    n = rng.choice([4, 5, 6])
    g = HistGen(rng, n_pool=n + 1, name=f"c04-{i}", storage=rng.choice(["mem", "sqlite"]))
    g.start()
    g.round(n_props=0, by_value_adds=n - 1, by_value_removes=0, app=False, encrypt=False)
    for r in range(1 + rng.below(2)):
        g.round(app=True, encrypt=rng.chance(1, 2), by_value_adds=0)
    ops = g.ops
    members = list(g.in_group)
    snd = rng.choice(members)
    others = [m for m in members if m != snd]
    rcv = rng.shuffle(others)[:2]
    stride = 1 if (i == 0 or not quick) else rng.choice([5, 7, 11])
    sweeps = []
    aid = g.fresh("a")
    ops.append({"op": "app", "who": snd, "id": aid, "data": "c0ffee"})
    aid2 = g.fresh("a")
    ops.append({"op": "app", "who": snd, "id": aid2, "data": "c0ffef"})
    for r in rcv:
        for mode in ("bits", "trunc", "splice"):
            ops.append({"op": "sweep", "who": r, "msg": aid, "kind": mode, "stride": stride if mode == "bits" else 2, "other": aid2, "seed": i, "count": 80, "genuine_every": 7})
            sweeps.append((len(ops) - 1, "private", r))
    for enc in (False, True):
        ops.append({"op": "opts", "who": snd, "encrypt_controls": enc})
        pid = g.fresh("p")
        ops.append({"op": "propose", "who": snd, "kind": "update", "id": pid})
        o2 = others[-1]
        pid2 = g.fresh("p")
        ops.append({"op": "opts", "who": o2, "encrypt_controls": enc})
        ops.append({"op": "propose", "who": o2, "kind": "gce", "id": pid2, "ext_data": "0a0b"})
        for r in rcv:
            if r == o2:
                continue
            for mode in ("bits", "trunc", "splice"):
                ops.append({"op": "sweep", "who": r, "msg": pid, "kind": mode, "stride": stride if mode == "bits" else 2, "other": pid2, "seed": i, "count": 80, "genuine_every": 7})
                sweeps.append((len(ops) - 1, "private" if enc else "public", r))
        for r in others:
            ops.append({"op": "deliver", "to": r, "msg": pid})
        for r in members:
            if r != o2:
                ops.append({"op": "deliver", "to": r, "msg": pid2})
    for enc in (False, True):
        c = snd
        ops.append({"op": "opts", "who": c, "encrypt_controls": enc, "path_required": True})
        cid = g.fresh("c")
        ops.append({"op": "commit", "who": c, "id": cid})
        for r in rcv:
            for mode in ("bits", "trunc"):
                ops.append({"op": "sweep", "who": r, "msg": cid, "kind": mode, "stride": stride if mode == "bits" else 2, "genuine_every": 7})
                sweeps.append((len(ops) - 1, "private" if enc else "public", r))
        ops.append({"op": "clear", "who": c})
    return g.script(), sweeps


def late_script(rng, i):
    """Failures at the END of commit processing (after signature / membership verification):
    insider copies with a wrong confirmation tag, a missing PSK; failing builds."""
    names = ["A", "B", "C", "D"]
    storage = rng.choice(["mem", "sqlite"])
    members = [{"name": n, "storage": storage, "retention": 3} for n in names + ["X"]]
    ops = [{"op": "create", "who": "A"}]
    for n in names[1:]:
        ops.append({"op": "kp", "who": n, "id": "k" + n})
    ops += [{"op": "commit", "who": "A", "id": "c0", "add": ["k" + n for n in names[1:]]}, {"op": "apply", "who": "A"}]
    for n in names[1:]:
        ops.append({"op": "join", "who": n, "welcome_any": "c0"})
    for n in names:
        ops.append({"op": "opts", "who": n, "path_required": True, "encrypt_controls": False})
    checks = []     # (op index of failing delivery, member, what, genuine op index or None, follow-up op index)
    k = [0]

    def fresh(p):
        k[0] += 1
        return f"{p}{k[0]}"

    def late_fail(build_ops, committer, victim, forger, what, bits=(270,)):
        """committer builds a commit (ops given), a forged copy fails late at `victim`, then the genuine one is processed by all."""
        cid = fresh("c")
        for o in build_ops:
            ops.append(o)
        ops.append({"op": "commit", "who": committer, "id": cid, **{kk: vv for kk, vv in (build_ops[-1].get("_commit") or {}).items()}} if False else {"op": "commit", "who": committer, "id": cid})
        for b in bits:
            fid = fresh("f")
            ops.append({"op": "remac", "who": forger, "src": cid, "id": fid, "bit": b, "from_end": True})
            ops.append({"op": "deliver", "to": victim, "msg": fid, "snap_before": True, "observe": victim})
            fail_i = len(ops) - 1
            # what the victim sends after the rejection is accepted by a peer
            aid = fresh("a")
            ops.append({"op": "propose", "who": victim, "kind": "gce", "id": aid, "ext_data": "aa"})
            peer = [n for n in names if n not in (victim,)][0]
            ops.append({"op": "deliver", "to": peer, "msg": aid})
            checks.append((fail_i, victim, what, None, len(ops) - 1))
        gen = []
        for n in names:
            if n != committer:
                ops.append({"op": "deliver", "to": n, "msg": cid})
                gen.append(len(ops) - 1)
        ops.append({"op": "apply", "who": committer})
        for (fi, v, w, _, fu) in list(checks):
            pass
        return gen

    # 1. the victim's own identity update is committed by somebody else
    ops.append({"op": "propose", "who": "B", "kind": "update_id", "id": "pu"})
    for n in ("A", "C", "D"):
        ops.append({"op": "deliver", "to": n, "msg": "pu"})
    g1 = late_fail([], "A", "B", "C", "commit covering the receiver's own identity update, wrong confirmation tag", bits=(270, 300))
    # the victim's messages in the new epoch verify under its NEW key
    ops.append({"op": "app", "who": "B", "id": "ab", "data": "bb"})
    ops.append({"op": "deliver", "to": "A", "msg": "ab"})
    # 2. a commit with adds and removes
    ops.append({"op": "propose", "who": "C", "kind": "remove", "name": "D", "id": "pr"})
    for n in ("A", "B", "D"):
        ops.append({"op": "deliver", "to": n, "msg": "pr"})
    names_before = list(names)
    g2 = late_fail([], "A", "B", "C", "commit with a removal, wrong confirmation tag")
    names3 = ["A", "B", "C"]
    # 3. a commit with an external PSK that the victim does not hold
    for n in ("A", "C"):
        ops.append({"op": "psk_insert", "who": n, "psk_id": "aa01", "value": "0102030405060708"})
    ops.append({"op": "commit", "who": "A", "id": "cp", "psk": ["aa01"]})
    ops.append({"op": "deliver", "to": "B", "msg": "cp", "snap_before": True, "observe": "B"})
    miss_i = len(ops) - 1
    ops.append({"op": "psk_insert", "who": "B", "psk_id": "aa01", "value": "0102030405060708"})
    ops.append({"op": "deliver", "to": "B", "msg": "cp"})
    checks.append((miss_i, "B", "commit with a PSK the receiver lacks", len(ops) - 1, None))
    ops.append({"op": "deliver", "to": "C", "msg": "cp"})
    ops.append({"op": "apply", "who": "A"})
    # 4. failing builds leave the builder unchanged and able to commit
    builds = []
    ops.append({"op": "commit", "who": "A", "id": "cb1", "remove": [9], "snap_before": True, "observe": "A"})
    builds.append(len(ops) - 1)
    ops.append({"op": "commit", "who": "A", "id": "cb2", "psk": ["ffff"], "snap_before": True, "observe": "A"})
    builds.append(len(ops) - 1)
    ops.append({"op": "propose", "who": "A", "kind": "remove", "index": 9, "id": "pb1", "snap_before": True, "observe": "A"})
    builds.append(len(ops) - 1)
    ops.append({"op": "commit", "who": "A", "id": "cok"})
    for n in ("B", "C"):
        ops.append({"op": "deliver", "to": n, "msg": "cok"})
    ops.append({"op": "apply", "who": "A"})
    # 4b. an EXTERNAL commit that fails at the very end (confirmation tag): the joiner uses an
    # external PSK for which the victim holds another value; then the value is corrected
    for n in ("A", "C", "X"):
        ops.append({"op": "psk_insert", "who": n, "psk_id": "aa02", "value": "2122232425262728"})
    ops.append({"op": "psk_insert", "who": "B", "psk_id": "aa02", "value": "3132333435363738"})
    ops.append({"op": "group_info", "who": "A", "id": "giX", "ext_commit": True, "tree_ext": True})
    ops.append({"op": "ext_commit", "who": "X", "gi": "giX", "id": "xc", "psk": ["aa02"]})
    ops.append({"op": "deliver", "to": "B", "msg": "xc", "snap_before": True, "observe": "B"})
    xi = len(ops) - 1
    ops.append({"op": "propose", "who": "B", "kind": "gce", "id": "pxb", "ext_data": "ab"})
    ops.append({"op": "deliver", "to": "A", "msg": "pxb"})
    ops.append({"op": "psk_insert", "who": "B", "psk_id": "aa02", "value": "2122232425262728"})
    ops.append({"op": "deliver", "to": "B", "msg": "xc"})
    checks.append((xi, "B", "external commit with a PSK for which the receiver holds another value", len(ops) - 1, None))
    for n in ("A", "C"):
        ops.append({"op": "deliver", "to": n, "msg": "xc"})
    # 5. a re-init commit, wrong confirmation tag: the victim must not be frozen
    ops.append({"op": "commit", "who": "A", "id": "cr", "reinit": True, "new_gid": "aabbcc"})
    ops.append({"op": "remac", "who": "C", "src": "cr", "id": "cr_bad", "bit": 270, "from_end": True})
    ops.append({"op": "deliver", "to": "B", "msg": "cr_bad", "snap_before": True, "observe": "B"})
    ri = len(ops) - 1
    ops.append({"op": "clear", "who": "A"})
    ops.append({"op": "commit", "who": "A", "id": "cn"})
    ops.append({"op": "deliver", "to": "B", "msg": "cn"})
    checks.append((ri, "B", "re-init commit with a wrong confirmation tag", len(ops) - 1, None))
    ops.append({"op": "deliver", "to": "C", "msg": "cn"})
    ops.append({"op": "apply", "who": "A"})
    # 6. wrong epoch / replay
    for mid in ("c0", "cok", "pu", "cp"):
        ops.append({"op": "deliver", "to": "B", "msg": mid, "snap_before": True, "observe": "B"})
        checks.append((len(ops) - 1, "B", f"replay of {mid} from an earlier epoch", None, None))
    ops.append({"op": "observe", "who": "A", "observe": "all"})
    return {"name": f"c04-late{i}", "suite": 1, "members": members, "ops": ops}, checks, builds, g1 + g2


def future_script(rng, i):
    """The FIRST message a member sees from a sender in an epoch is refused before anything is
    decrypted: its generation is more than the window ahead (the sender produced > 1024 messages
    the receiver never got).  The receiver must be exactly as before: the sender's earlier
    messages (generation 0, 1, ...) are still readable.  Current epoch and a stored past epoch."""
    names = ["A", "B", "C", "D"]
    members = [{"name": n, "retention": 3} for n in names]
    ops = [{"op": "create", "who": "A"}] + [{"op": "kp", "who": n, "id": "k" + n} for n in names[1:]]
    ops += [{"op": "commit", "who": "A", "id": "c0", "add": ["k" + n for n in names[1:]]}, {"op": "apply", "who": "A"}]
    ops += [{"op": "join", "who": n, "welcome_any": "c0"} for n in names[1:]]
    snd, rcv = rng.shuffle(names)[:2]
    checks, gens = [], []
    ops.append({"op": "app", "who": snd, "id": "g0", "data": "00"})
    ops.append({"op": "app", "who": snd, "id": "g1", "data": "01"})
    ops.append({"op": "app", "who": snd, "id": "far", "data": "ff", "burn": 1025 + rng.below(40)})
    past = rng.chance(1, 2)
    if past:
        c = rng.choice([n for n in names if n != snd])
        ops += [{"op": "opts", "who": c, "path_required": True}, {"op": "commit", "who": c, "id": "c1"}, {"op": "apply", "who": c}]
        ops += [{"op": "deliver", "to": n, "msg": "c1"} for n in names if n != c]
    # the encoded snapshot may differ after the refusal: looking for the sender's ratchet expands the
    # lazily derived secret tree (a parent secret is replaced by its two children, from which exactly the
    # same keys derive); everything else is compared field by field, and the sender's earlier messages
    # must still be readable
    ops.append({"op": "observe", "who": rcv, "observe": rcv})
    ops.append({"op": "deliver", "to": rcv, "msg": "far", "observe": rcv})
    checks.append((len(ops) - 1, rcv, "first message of a sender, generation beyond the window" + (" (past epoch)" if past else ""), len(ops) - 2, "fields"))
    for g in rng.shuffle(["g0", "g1"]):
        ops.append({"op": "deliver", "to": rcv, "msg": g})
        gens.append(len(ops) - 1)
    ops.append({"op": "deliver", "to": rcv, "msg": "far", "snap_before": True, "observe": rcv})
    checks.append((len(ops) - 1, rcv, "the same message again, after earlier generations were read", None, None))
    return {"name": f"c04-future{i}", "suite": 1, "members": members, "ops": ops}, checks, [], gens


def main(run, args):
    rng = Rng(run.seed)
    run.assumptions += [
        "the extraction of failure points and mutations is syntactic (translator/src/effects.rs): a mutation is an assignment rooted at self or at a &mut alias of it, a known mutator / *_mut() chain on such a root, or a non-inlined &mut self call; state_repo.insert / get_epoch_mut are taken as atomic (C15, C19)",
        "the dynamic comparison is on the encoded Snapshot (complete serialisable member state) plus the storage probes",
    ]
    broken = []
    build_translator()
    ok1, m1 = regen("effects", "ProcessEffects.v")
    run.obligation("extract failure points and mutations of message processing / commit building from the source", ok1)
    if not ok1:
        run.notes.append("effects extraction failed: " + m1)
    proofs_ok = False
    if ok1:
        proofs_ok, log = prove(run, "C04", extra_targets=[])
    static_bad = None
    # what the checker says on each extracted list (also when the proofs fail: names the site)
    text = ("From Coq Require Import NArith List String.\nFrom MlsV Require Import Effects ProcessEffects.\nImport ListNotations.\n"
            "Definition v2n (v : verdict) : list N := match v with Bad l => [1%N; l] | Good d => [0%N; if d then 1%N else 0%N] end.\n"
            "Eval vm_compute in List.concat (map v2n [chk ev_incoming false; chk ev_commit_build false; chk ev_apply_pending false; chk ev_decrypt false]).\n")
    sh(["make", "-j8", "Gen/ProcessEffects.vo", "Model/Effects.vo"], cwd=COQ, timeout=600)
    nums, logtxt = coq_eval_cases("C04_static", text, timeout=600)
    names = ["process_incoming_message (public path + content of a decrypted message)", "commit_internal", "apply_pending_commit", "process_ciphertext (decryption)"]
    verdicts = {}
    if nums and len(nums) == 8:
        for j, nm in enumerate(names):
            verdicts[nm] = ("bad", nums[2 * j + 1]) if nums[2 * j] == 1 else ("good", nums[2 * j + 1])
    else:
        broken.append(("static", "could not evaluate the checker on the extracted lists: " + (logtxt or "")[-400:]))
    run.cov["static_verdicts"] = {k: list(v) for k, v in verdicts.items()}
    kf = {k.get("id"): k for k in load_known_findings()}
    for nm, (v, x) in verdicts.items():
        if v == "bad":
            if nm.startswith("process_ciphertext"):
                if "F2d" in kf:
                    run.known_finding(f"F2d (static) decryption is not transactional: a failure point at line {x} of ciphertext_processor.rs / group/mod.rs is reachable after the message key has been taken out of the secret tree")
                else:
                    static_bad = (nm, x)
            else:
                static_bad = (nm, x)
    if not proofs_ok:
        broken.append(("proof", "Props/C04.v does not check; " + "; ".join(run.notes[-1:]) + (f"; the checker refuses {static_bad[0]}: a failure point at source line {static_bad[1]} is reachable after a mutation of the member's state" if static_bad else "")))
    hok, herr = build_harness()
    if not hok:
        run.violation("harness build failed", herr, failing_input_found=False)
        return
    quick = run.tier == "quick"
    sw = [sweep_script(rng, i, quick) for i in range(3 if quick else 20)]
    late = [late_script(rng, i) for i in range(3 if quick else 16)] + [future_script(rng, i) for i in range(4 if quick else 24)]
    recs = run_scripts([x[0] for x in sw] + [x[0] for x in late], timeout=3000)
    failing = []
    stats = {"variants": 0, "rejected_state_compared": 0, "genuine_after_rejection_ok": 0, "f2d_variants": 0, "late_failures": 0, "failed_builds": 0}
    f2d_seen = False
    for (sc, sweeps), rs in zip(sw, recs):
        if any(r.get("crash") for r in rs):
            failing.append({"what": "history interpreter crashed", "script": sc["name"]})
            continue
        byi = {r["i"]: r for r in rs if "i" in r}
        sidx = {k for k, _, _ in sweeps}
        bad = [r for r in rs if r.get("ok") is False and r["i"] not in sidx]
        if bad:
            failing.append({"what": "operation failed in the valid part of the history", "script": sc["name"], "record": bad[0], "op": sc["ops"][bad[0]["i"]]})
            continue
        for (k, wire, rcv) in sweeps:
            r = byi.get(k, {})
            info = r.get("info") or {}
            ctx = {"script": sc["name"], "op": sc["ops"][k], "wire": wire, "receiver": rcv}
            if not r.get("ok") or info.get("genuine") != "ok":
                failing.append(dict(ctx, what="sweep could not run / genuine message refused", error=r.get("err") or info.get("genuine")))
                continue
            nerr = sum((info.get("errors") or {}).values())
            stats["variants"] += info.get("n", 0)
            stats["rejected_state_compared"] += nerr - (info.get("errors") or {}).get("decode", 0)
            stats["genuine_after_rejection_ok"] += info.get("genuine_ok", 0)
            if info.get("panics"):
                failing.append(dict(ctx, what="PANIC while processing a corrupted message", variants=info["panics"][:5]))
            for c in info.get("state_changed") or []:
                if wire == "private" and c.get("err") in ("CryptoProviderError", "SerializationError", "InvalidSignature", "InvalidSender", "UnexpectedMessageType"):
                    stats["f2d_variants"] += 1
                    f2d_seen = True
                    continue
                failing.append(dict(ctx, what="the member's state CHANGED although the message was rejected", variant=c))
            for c in info.get("genuine_refused") or []:
                if wire == "private" and c.get("genuine_err") == "KeyMissing":
                    stats["f2d_variants"] += 1
                    f2d_seen = True
                    continue
                failing.append(dict(ctx, what="after a rejected copy the GENUINE message is refused", variant=c))
    for (sc, checks, builds, gens), rs in zip(late, recs[len(sw):]):
        if any(r.get("crash") for r in rs):
            failing.append({"what": "history interpreter crashed", "script": sc["name"]})
            continue
        byi = {r["i"]: r for r in rs if "i" in r}
        special = {c[0] for c in checks} | set(builds)
        bad = [r for r in rs if r.get("ok") is False and r["i"] not in special]
        if bad:
            failing.append({"what": "operation failed after a rejected message (genuine message refused, or the member's own traffic refused by a peer)", "script": sc["name"], "record": bad[0], "op": sc["ops"][bad[0]["i"]], "before": sc["ops"][max(0, bad[0]["i"] - 3):bad[0]["i"]]})
            continue
        for (k, who, what, gen_i, fu) in checks:
            r = byi.get(k, {})
            stats["late_failures"] += 1
            ctx = {"script": sc["name"], "op": sc["ops"][k], "case": what}
            if r.get("err") == "PANIC":
                failing.append(dict(ctx, what="PANIC"))
            elif r.get("ok") is not False:
                failing.append(dict(ctx, what="an invalid message was accepted", result=r.get("info")))
            elif fu == "fields":
                o = (r.get("obs") or {}).get(who) or {}
                b = (byi.get(gen_i, {}).get("obs") or {}).get(who) or {}
                keys = ("epoch", "ctx", "auth", "tree_bytes", "roster", "pending", "priv", "nprops", "reinit", "stored_epochs", "stored_state")
                if not b.get("group") or any(o.get(x) != b.get(x) for x in keys):
                    failing.append(dict(ctx, what="the member's state CHANGED although the message was rejected", error=r.get("err"), fields=[x for x in keys if o.get(x) != b.get(x)]))
            else:
                o = (r.get("obs") or {}).get(who) or {}
                if o.get("snap") != r.get("snap_before"):
                    failing.append(dict(ctx, what="the member's state CHANGED although the message was rejected", error=r.get("err"), reinit_flag=o.get("reinit")))
        for k in builds:
            r = byi.get(k, {})
            stats["failed_builds"] += 1
            who = sc["ops"][k]["who"]
            ctx = {"script": sc["name"], "op": sc["ops"][k]}
            if r.get("ok") is not False:
                failing.append(dict(ctx, what="an invalid commit / proposal was built"))
            elif ((r.get("obs") or {}).get(who) or {}).get("snap") != r.get("snap_before"):
                failing.append(dict(ctx, what="the member's state CHANGED although building failed", error=r.get("err")))
    if f2d_seen:
        if "F2d" in kf:
            run.known_finding(f"F2d a PrivateMessage that fails after its sender data opened has consumed the message key: state differs and the genuine message is refused with KeyMissing ({stats['f2d_variants']} variants)")
        else:
            failing.append({"what": "a PrivateMessage that fails after its sender data opened consumes the message key (state changed; genuine refused with KeyMissing)"})
    run.obligation("state identical before / after every rejected message, genuine message and the member's own traffic still accepted", not failing and stats["rejected_state_compared"] > 0 and stats["late_failures"] > 0)
    run.cov.update({
        "evaluations": stats["rejected_state_compared"] + stats["late_failures"] + stats["failed_builds"],
        "distinct_nontrivial": stats["rejected_state_compared"],
        "rule": "sweeps: application message, public+encrypted proposals and commits, all single-bit flips (stride 1 in the first history), truncations, splices, each variant on a clone of the receiver: error => Snapshot identical, every 7th rejection followed by the genuine message; late failures: re-MACed confirmation-tag flips of commits covering the receiver's own identity update / a removal / a re-init, commit with a PSK the receiver lacks (then supplied), replays from earlier epochs; failing builds (unknown leaf, unknown PSK).",
        "samples": [],
        "stats": stats,
        "histories": len(sw) + len(late),
    })
    if failing:
        run.violation("a rejected message or a failed build changed the member", failing[:8])
    elif broken:
        run.violation("proof obligation or tie no longer checks: " + broken[0][0], [b[1] for b in broken], failing_input_found=False)
