"""C08 - every reachable ratchet tree is valid and matches the context tree hash.

Decision: theorems of coq/Props/C08.v over Model/Tree.v (shape, no trailing blank, leftmost
blank) for every tree and operation sequence.
Tie: (a) the tree produced by the model for every commit of generated histories (adds,
removes, updates, path updates, growth, shrink, regrowth, interior blanks, unmerged leaves) is
compared node by node with every member's exported tree; (b) the tree hash of every exported
tree is recomputed from its bytes inside Coq by an RFC 9420 7.8 implementation over Gallina
SHA-256 and compared with the hash in the group context.
Search oracle on the implementation: every member exports the same bytes; the exported tree +
GroupInfo passes the library's complete validation as performed by an external observer and by
joiners (tree hash, parent hashes, unmerged leaves, leaf validity); no trailing blank."""
import json
import os
from concurrent.futures import ThreadPoolExecutor

from .common import *
from .histlib import HistGen, run_scripts, rejoin_history
from .treelib import *


def main(run, args):
    rng = Rng(run.seed)
    run.assumptions += [
        "parent-hash chain validity is NOT a theorem here: it is checked on every exported tree by the library's own validator (observer + joiner), i.e. not independently",
        "Model/Tree.v is hand-written from tree_kem/mod.rs and node.rs; Model/TreeHashRFC.v from RFC 9420 7.8",
    ]
    broken = []
    build_translator()
    ok1, m1 = regen("treemath", "TreeMathGen.v")
    ok2, m2 = regen("codec", "CodecTypes.v")
    run.obligation("translate tree math and the exported-tree type", ok1 and ok2)
    proofs_ok = False
    if ok1 and ok2:
        proofs_ok, log = prove(run, "C08", extra_targets=["Model/TreeCases.vo", "Model/TreeHashRFC.vo"])
    if not proofs_ok:
        broken.append(("proof", "Props/C08.v does not check; " + "; ".join(run.notes[-1:])))
    hok, herr = build_harness()
    if not hok:
        run.violation("harness build failed", herr, failing_input_found=False)
        return
    quick = run.tier == "quick"
    scripts = []
    for i in range(20 if quick else 150):
        g = HistGen(rng, n_pool=rng.choice([6, 9, 12]) if quick else rng.choice([6, 9, 12, 20]), name=f"c08-{i}")
        g.start()
        for r in range(8 if quick else 14):
            mode = (i + r) % 4
            if mode == 1:      # everybody's path gets parents
                info = g.round(app=False, n_props=rng.below(2), allow=("update",), by_value_adds=0, by_value_removes=0, path_required=True)
            elif mode == 2:    # add-only commit without path: the new leaves stay unmerged
                info = g.round(app=False, n_props=0, by_value_adds=1 + rng.below(2), by_value_removes=0, path_required=False)
            else:
                info = g.round(app=False)
            # dump the tree of two members (they must be byte-identical) and have an outsider
            # validate the signed GroupInfo + tree
            ms = rng.shuffle(g.in_group)[:2]
            for m in ms:
                g.ops.append({"op": "tree_dump", "who": m})
            if g.in_group:
                w = rng.choice(g.in_group)
                gid = g.fresh("gi")
                in_ext = rng.chance(1, 2)
                g.ops.append({"op": "group_info", "who": w, "id": gid, "ext_commit": False, "tree_ext": in_ext})
                oj = {"op": "obs_join", "who": f"O{r}", "gi": gid}
                if not in_ext:
                    oj["tree"] = gid + ".tree"
                g.ops.append(oj)
        scripts.append(g.script())
    # directed: shrink across a power of two, then regrow leaving an earlier occupied slot blank
    for i in range(4 if quick else 24):
        n = rng.choice([6, 7, 10, 11])
        g = HistGen(rng, n_pool=n + 3, name=f"c08-s{i}")
        g.start()
        a = g.round(app=False, n_props=0, by_value_adds=n - 1, by_value_removes=0, path_required=rng.chance(1, 2))
        order = [g.pool[0]] + a["adds"]            # leaf order
        cap = 4 if n <= 7 else 8                   # leaves that survive the shrink
        victims = order[cap:]
        keep = order[:cap]
        # remove everybody to the right of the boundary (one or two commits)
        while victims:
            batch, victims = victims[:2], victims[2:]
            c = rng.choice(keep)
            cid = g.fresh("c")
            g.ops.append({"op": "opts", "who": c, "encrypt_controls": False, "tree_ext": True})
            g.ops.append({"op": "commit", "who": c, "id": cid, "remove_names": batch})
            for m in g.in_group:
                if m != c:
                    g.ops.append({"op": "deliver", "to": m, "msg": cid})
            g.ops.append({"op": "apply", "who": c})
            for b in batch:
                g.in_group.remove(b)
                g.removed.append(b)
            g.commit_ids.append(cid)
            g.epoch += 1
            g.ops.append({"op": "observe", "who": c, "observe": "all"})
        # regrow by one or two members
        for r in range(2):
            g.round(app=False, n_props=0, by_value_adds=1, by_value_removes=0, path_required=rng.chance(1, 2))
            ms = rng.shuffle(g.in_group)[:2]
            for m in ms:
                g.ops.append({"op": "tree_dump", "who": m})
            w = rng.choice(g.in_group)
            gid = g.fresh("gi")
            g.ops.append({"op": "group_info", "who": w, "id": gid, "ext_commit": False, "tree_ext": False})
            g.ops.append({"op": "obs_join", "who": f"S{r}", "gi": gid, "tree": gid + ".tree"})
        scripts.append(g.script())
    # directed: re-join by an external commit that removes the own leaf while an earlier leaf is blank
    for i in range(6 if quick else 40):
        g, _ = rejoin_history(rng, i, f"c08-rejoin-{i}")
        scripts.append(g.script())
    recs = run_scripts(scripts, timeout=2400)
    failing = []
    ext_seen = 0
    tree_cases, hash_cases, cache_cases = [], {}, []
    shapes = {"interior_blank": 0, "unmerged": 0, "parents": 0, "commits": 0, "max_leaves": 0}
    for sc, rs in zip(scripts, recs):
        bad = [r for r in rs if r.get("ok") is False or r.get("crash")]
        if bad:
            failing.append({"what": "operation failed in a valid history" + (" (exported tree rejected by an outside validator)" if bad[0].get("op") == "obs_join" else ""),
                            "script": sc["name"], "record": bad[0], "ops": sc["ops"][max(0, bad[0].get("i", 0) - 4):bad[0].get("i", 0) + 1]})
            continue
        xbad, xn = ext_commit_placements(sc, rs)
        ext_seen += xn
        for x in xbad:
            failing.append(dict(x, script=sc["name"]))
        for c in commits_of(sc, rs):
            info = c["info"]
            cidx = info["committer"]
            rem, upd, add, path = commit_effect(info["detail"], cidx, c["committer"], c["commit_rec"]["info"]["path"])
            afters = [(n, o) for n, o in c["after_obs"].items() if o and o.get("group") and not o.get("observer") and o["epoch"] == info["new_epoch"]]
            if not afters:
                continue
            shapes["commits"] += 1
            ids = {o["tree_bytes"] for _, o in afters}
            if len(ids) > 1:
                failing.append({"what": "members of the same epoch export different trees", "script": sc["name"], "op": c["op"]})
            after = afters[0][1]["tree"]
            if after and after[-1] == "_":
                failing.append({"what": "exported tree ends in a blank node", "script": sc["name"], "op": c["op"]})
            for w in placement_oracle(c["before"], info["detail"], after):
                if w != "the tree ends in a blank node":
                    failing.append({"what": w, "script": sc["name"], "op": c["op"], "before": c["before"], "effect": info["detail"], "after": after})
            leaves = after[0::2]
            if "_" in leaves[:-1]:
                shapes["interior_blank"] += 1
            if any(isinstance(n, dict) and n.get("u") for n in after):
                shapes["unmerged"] += 1
            if any(isinstance(n, dict) and "P" in n for n in after):
                shapes["parents"] += 1
            shapes["max_leaves"] = max(shapes["max_leaves"], len(leaves))
            tree_cases.append((f"commit_case {coq_tree(c['before'])} {rem} {upd} {add} ({path}) {coq_tree(after)}",
                               {"script": sc["name"], "op": c["op"], "before": c["before"], "effect": info["detail"], "path": c["commit_rec"]["info"]["path"], "after": after}))
        last = None
        for r in rs:
            if r.get("op") == "tree_dump" and r.get("ok"):
                t, h = r["info"]["tree"], r["info"]["tree_hash"]
                hash_cases[(t, h)] = {"script": sc["name"], "op": r["i"]}
                if r["info"].get("snapshot"):
                    cache_cases.append((r["info"]["snapshot"], len(t) // 2, {"script": sc["name"], "op": r["i"], "who": sc["ops"][r["i"]].get("who")}))
    # ---- model evaluation
    mism = []
    coq_cases = 0
    empty_caches = [0]
    if model_ready(proofs_ok):
        hc = list(hash_cases.items())
        hc.sort(key=lambda x: len(x[0][0]))
        # byte budget for the in-Coq hash recomputation
        budget = 260_000 if quick else 3_000_000
        used, sel = 0, []
        for (t, h), meta in rng.shuffle(hc):
            if used + len(t) // 2 > budget:
                continue
            used += len(t) // 2
            sel.append(((t, h), meta))
        # parent-hash chains verified from scratch (RFC 9420 7.9.2) on a sample of the exported trees
        # (every non-blank parent; costs a sibling subtree hash per parent, hence small trees)
        psel = [c for c in rng.shuffle(sel) if len(c[0][0]) <= 9000][: (14 if quick else 150)]
        # every entry of a member's hash cache against the from-scratch hash of its subtree (same byte budget again)
        used, csel = 0, []
        for c in rng.shuffle(cache_cases):
            if used + c[1] > budget:
                continue
            used += c[1]
            csel.append(c)
        jobs = [("T", c) for c in tree_cases] + [("H", c) for c in sel] + [("P", c) for c in psel] + [("C", c) for c in csel]
        nsh = 16
        shards = [jobs[i::nsh] for i in range(nsh) if jobs[i::nsh]]

        def shard(i, js):
            exprs = []
            for kind, c in js:
                if kind == "T":
                    exprs.append(c[0])
                elif kind == "P":
                    (t, h), _ = c
                    exprs.append(f'parent_hash_case 0 "{t}"%string')
                elif kind == "C":
                    exprs.append(f'cache_case 0 "{c[0]}"%string')
                else:
                    (t, h), _ = c
                    exprs.append(f'tree_hash_case 0 "{t}"%string "{h}"%string')
            text = ("From Coq Require Import NArith List String.\nFrom MlsV Require Import Res Tree TreeCases TreeHashRFC.\nImport ListNotations.\nLocal Open Scope N_scope.\n"
                    "Eval vm_compute in [" + ";\n".join(exprs) + "].\n")
            return coq_eval_cases(f"C08_cases_{i}", text, timeout=1500)
        with ThreadPoolExecutor(max_workers=16) as ex:
            results = list(ex.map(lambda x: shard(*x), enumerate(shards)))
        for si, (nums, logtxt) in enumerate(results):
            if nums is None or len(nums) != len(shards[si]):
                broken.append(("correspondence", "Coq evaluation of the tree model failed: " + (logtxt or "")[-600:]))
                continue
            for (kind, c), v in zip(shards[si], nums):
                coq_cases += 1
                if v != 0:
                    if kind == "T":
                        mism.append(dict(c[1], what="model tree differs from the exported tree" if v == 1 else "model refuses / panics on a commit the library applied", code=v))
                    elif kind == "C":
                        if v == 3:
                            empty_caches[0] += 1
                        else:
                            failing.append(dict(c[2], what="an entry of the member's hash cache differs from the hash of its subtree recomputed from scratch from the member's own nodes (or the cache has the wrong length)" if v == 1 else "the member's snapshot could not be decoded by the codec model", snapshot=c[0]))
                    elif kind == "P":
                        (t, h), meta = c
                        failing.append(dict(meta, what="a non-blank parent of an exported tree is not parent-hash valid (RFC 9420 7.9.2, verified from scratch)" if v == 1 else "exported tree could not be decoded by the codec model", tree=t))
                    else:
                        (t, h), meta = c
                        failing.append(dict(meta, what="tree hash in the group context differs from the hash recomputed from the exported tree (RFC 9420 7.8)" if v == 1 else "exported tree could not be decoded by the codec model", tree=t, context_tree_hash=h))
        run.cov["hashes_recomputed_in_coq"] = len(sel)
        run.cov["whole_hash_caches_checked_in_coq"] = len(csel) - empty_caches[0]
        if csel and empty_caches[0] == len(csel):
            broken.append(("generator", "every sampled hash cache was empty"))
        run.cov["parent_hash_chains_verified_in_coq"] = len(psel)
    run.obligation("correspondence: model trees = exported trees; recomputed tree hashes = context tree hashes", not mism and not failing and coq_cases > 0)
    shapes["external_commits_placed"] = ext_seen
    if shapes["interior_blank"] < 3 or shapes["unmerged"] < 3 or ext_seen < 3:
        broken.append(("generator", f"degenerate tree shapes: {shapes}"))
    run.cov.update({
        "evaluations": len(tree_cases) + len(hash_cases),
        "distinct_nontrivial": len({c[0] for c in tree_cases}) + len(hash_cases),
        "rule": "generated histories of 6-12 (thorough: 20) members and 8 (14) commits with by-reference and by-value adds / removes / updates, commits with and without path; after every commit two members dump tree + context hash and an outside observer validates a signed GroupInfo with the tree in the extension or out of band. A case = one commit (model tree vs exported tree) or one distinct (tree bytes, context hash) pair.",
        "samples": [tree_cases[0][1]] if tree_cases else [],
        "tree_shapes_after_commit": shapes,
        "distinct_tree_hash_pairs": len(hash_cases),
        "compared_with_model_in_coq": coq_cases,
        "histories": len(scripts),
    })
    if failing:
        run.violation("a reachable ratchet tree is invalid or does not match the context tree hash", failing[:8])
    elif mism:
        run.violation("tree model and implementation disagree on the tree after a commit", mism[:6], failing_input_found=False)
    elif broken:
        run.violation("proof obligation or tie no longer checks: " + broken[0][0], [b[1] for b in broken], failing_input_found=False)
