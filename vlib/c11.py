"""C11 - pending commits do not change the group until applied; one successor per epoch.

Decision: theorems of coq/Props/C11.v over the commit life-cycle model (Model/Pending.v).
Tie: random races of three members (build, build detached, clear, apply, apply detached -
fresh and stale -, delivery of own and foreign commits in every order, re-init commits,
application traffic while a commit is pending) run on the library; the same operation list is
run through the model inside Coq; result class, epoch and pending flag after every operation
must agree, members the model puts on the same history must hold the same group context and
epoch authenticator, members on different histories must not."""
import json
from concurrent.futures import ThreadPoolExecutor

from .common import *
from .histlib import run_scripts

ERRC = {"ExistingPendingCommit": 1, "PendingCommitNotFound": 2, "InvalidEpoch": 3, "GroupUsedAfterReInit": 4}
NAMES3 = ["A", "B", "C"]


def gen(rng, i, quick):
    """Returns (script, wops, meta) where wops[k] is the Coq operation for script op index meta[k]."""
    storage = rng.choice(["mem", "sqlite"])
    members = [{"name": n, "storage": storage, "retention": 3} for n in NAMES3]
    ops = [{"op": "create", "who": "A"}, {"op": "kp", "who": "B", "id": "kB"}, {"op": "kp", "who": "C", "id": "kC"},
           {"op": "commit", "who": "A", "id": "c0", "add": ["kB", "kC"]}, {"op": "apply", "who": "A"},
           {"op": "join", "who": "B", "welcome_any": "c0"}, {"op": "join", "who": "C", "welcome_any": "c0"}]
    enc = rng.chance(1, 2)
    for n in NAMES3:
        ops.append({"op": "opts", "who": n, "path_required": True, "encrypt_controls": enc})
        ops.append({"op": "psk_insert", "who": n, "psk_id": "aa01", "value": "0102030405060708"})
    wops, meta = [], []
    cid = 0
    built = {n: [] for n in NAMES3}      # commit ids built (message exists)
    detached = {n: [] for n in NAMES3}
    allc = []
    # light tracking so that the generator follows a delivery-service discipline most of the time
    nrounds = 6 if quick else 12
    reloads = [0]
    for r in range(nrounds):
        racers = rng.shuffle(NAMES3)[:1 + rng.below(3)]
        this_round = []
        for m in racers:
            cid += 1
            det = rng.chance(1, 4)
            reinit = (r == nrounds - 1) and rng.chance(1, 3)
            o = {"op": "commit", "who": m, "id": f"c{cid}", "detached": det, "observe": m}
            # a third of the commits carry NO update path (a PSK-only commit): whatever a received
            # commit does to the pending one must not depend on its having a path
            pathless = rng.chance(1, 3) and not reinit
            ops.append({"op": "opts", "who": m, "path_required": not pathless, "encrypt_controls": enc})
            if pathless:
                o["psk"] = ["aa01"]
            if reinit:
                o["reinit"] = True
                o["new_gid"] = "aabb%02x" % i
            ops.append(o)
            wops.append(f"WBuild {NAMES3.index(m)} {cid} {'true' if det else 'false'} {'true' if reinit else 'false'} {'false' if (pathless and not enc) else 'true'}")
            meta.append(len(ops) - 1)
            (detached if det else built)[m].append(cid)
            allc.append(cid)
            this_round.append((m, cid, det))
            # sometimes try to build a second one, clear, rebuild
            if rng.chance(1, 4):
                cid += 1
                ops.append({"op": "commit", "who": m, "id": f"c{cid}", "observe": m})
                wops.append(f"WBuild {NAMES3.index(m)} {cid} false false true")
                meta.append(len(ops) - 1)
                allc.append(cid)
            if rng.chance(1, 6):
                ops.append({"op": "clear", "who": m, "observe": m})
                wops.append(f"WClear {NAMES3.index(m)}")
                meta.append(len(ops) - 1)
                # ... and build another commit in the same epoch: two own commits of one epoch are on the
                # wire, the delivery service may pick the cleared one and echo it to its author
                if rng.chance(1, 2) and not reinit and not det:
                    cid += 1
                    pl2 = rng.chance(1, 3)
                    ops.append({"op": "opts", "who": m, "path_required": not pl2, "encrypt_controls": enc})
                    o2 = {"op": "commit", "who": m, "id": f"c{cid}", "observe": m}
                    if pl2:
                        o2["psk"] = ["aa01"]
                    ops.append(o2)
                    wops.append(f"WBuild {NAMES3.index(m)} {cid} false false {'false' if (pl2 and not enc) else 'true'}")
                    meta.append(len(ops) - 1)
                    built[m].append(cid)
                    allc.append(cid)
        # a member is stopped and restored from storage while its commit is pending: the restored group
        # is the same group - it applies the commit, recognises it when the delivery service echoes it,
        # gives it up for a foreign one (no step of the model: a reload changes nothing)
        for (m, c, det) in this_round:
            if rng.chance(1, 4):
                ops.append({"op": "save", "who": m})
                ops.append({"op": "load", "who": m})
                reloads[0] += 1
        # application traffic inside the epoch, read by members with a pending commit
        if rng.chance(2, 3):
            s, t = rng.shuffle(NAMES3)[:2]
            ops.append({"op": "app", "who": s, "id": f"a{r}", "data": "%02x" % r})
            ops.append({"op": "deliver", "to": t, "msg": f"a{r}", "observe": t})
            wops.append(f"WApp {NAMES3.index(s)} {NAMES3.index(t)}")
            meta.append(len(ops) - 1)
        # the delivery service picks a winner among the commits of this round
        win = rng.choice(this_round)
        order = rng.shuffle(NAMES3)
        for m in order:
            roll = rng.below(12)
            if m == win[0] and win[2]:
                ops.append({"op": "apply_detached", "who": m, "secrets": f"c{win[1]}.secrets", "observe": m})
                wops.append(f"WApplyDetached {NAMES3.index(m)} {win[1]}")
            elif m == win[0] and roll < 6:
                ops.append({"op": "apply", "who": m, "observe": m})
                wops.append(f"WApply {NAMES3.index(m)}")
            else:
                ops.append({"op": "deliver", "to": m, "msg": f"c{win[1]}", "observe": m})
                wops.append(f"WDeliver {NAMES3.index(m)} {win[1]}")
            meta.append(len(ops) - 1)
        # deviations: losers' commits arrive late, stale detached commits, stale apply, replays
        for _ in range(rng.below(4)):
            m = rng.choice(NAMES3)
            k = rng.below(5)
            if k == 0 and detached[m]:
                c = rng.choice(detached[m])
                ops.append({"op": "apply_detached", "who": m, "secrets": f"c{c}.secrets", "observe": m})
                wops.append(f"WApplyDetached {NAMES3.index(m)} {c}")
            elif k == 1:
                ops.append({"op": "apply", "who": m, "observe": m})
                wops.append(f"WApply {NAMES3.index(m)}")
            elif k == 2:
                ops.append({"op": "clear", "who": m, "observe": m})
                wops.append(f"WClear {NAMES3.index(m)}")
            else:
                c = rng.choice(allc)
                ops.append({"op": "deliver", "to": m, "msg": f"c{c}", "observe": m})
                wops.append(f"WDeliver {NAMES3.index(m)} {c}")
            meta.append(len(ops) - 1)
    # after the last round (which may have been a re-init): everybody tries to build once more, through
    # the ordinary and through the detached API; a group that accepted a re-init builds nothing any more
    for m in rng.shuffle(NAMES3):
        for det in rng.shuffle([False, True]):
            cid += 1
            ops.append({"op": "opts", "who": m, "path_required": True, "encrypt_controls": enc})
            ops.append({"op": "commit", "who": m, "id": f"c{cid}", "detached": det, "observe": m})
            wops.append(f"WBuild {NAMES3.index(m)} {cid} {'true' if det else 'false'} false true")
            meta.append(len(ops) - 1)
            if not det:
                ops.append({"op": "clear", "who": m, "observe": m})
                wops.append(f"WClear {NAMES3.index(m)}")
                meta.append(len(ops) - 1)
    ops.append({"op": "observe", "who": "A", "observe": "all"})
    return {"name": f"c11-{i}", "suite": 1, "members": members, "ops": ops}, wops, meta


def prop_script(rng, i):
    """By-reference proposals that a member's own commit cannot use (its own Update, a Remove that
    targets it) next to one that it can.  The member builds a commit and (a) clears it: it is
    still in its epoch, without a pending commit; (b) loses the race (cleared or not): the winner's
    commit, which references those proposals, must be processed."""
    names = ["A", "B", "C", "D"]
    members = [{"name": n, "storage": "mem", "retention": 3} for n in names]
    ops = [{"op": "create", "who": "A"}] + [{"op": "kp", "who": n, "id": "k" + n} for n in names[1:]]
    ops += [{"op": "commit", "who": "A", "id": "c0", "add": ["k" + n for n in names[1:]]}, {"op": "apply", "who": "A"}]
    ops += [{"op": "join", "who": n, "welcome_any": "c0"} for n in names[1:]]
    enc = rng.chance(1, 2)
    for n in names:
        ops.append({"op": "opts", "who": n, "path_required": rng.chance(1, 2), "encrypt_controls": enc})
    live = list(names)
    checks = []        # (kind, op index, ...)
    for r in range(3):
        if len(live) < 3:
            break
        x, y = rng.shuffle(live)[:2]
        kind = rng.choice(["own_update", "remove_me", "both"])
        pids = []
        if kind in ("own_update", "both"):
            pid = f"pu{r}"
            ops.append({"op": "propose", "who": x, "kind": "update", "id": pid})
            pids.append((pid, x))
        if kind in ("remove_me", "both"):
            pid = f"pr{r}"
            ops.append({"op": "propose", "who": y, "kind": "remove", "name": x, "id": pid})
            pids.append((pid, y))
        if rng.chance(1, 2):
            z = rng.choice(live)
            pid = f"pg{r}"
            ops.append({"op": "propose", "who": z, "kind": "gce", "id": pid, "ext_data": "%02x" % r})
            pids.append((pid, z))
        for pid, src in pids:
            for m in live:
                if m != src:
                    ops.append({"op": "deliver", "to": m, "msg": pid})
        ops.append({"op": "observe", "who": x, "observe": x})
        before = len(ops) - 1
        ops.append({"op": "commit", "who": x, "id": f"cx{r}", "observe": x})
        built = len(ops) - 1
        if rng.chance(1, 2):
            ops.append({"op": "clear", "who": x, "observe": x})
            checks.append(("clear", before, built, len(ops) - 1, x, kind))
        # the winner: y's commit references every cached proposal
        ops.append({"op": "commit", "who": y, "id": f"cy{r}"})
        ops.append({"op": "apply", "who": y})
        for m in live:
            if m != y:
                ops.append({"op": "deliver", "to": m, "msg": f"cy{r}", "observe": m})
                checks.append(("winner", len(ops) - 1, m, x, kind))
        if kind in ("remove_me", "both"):
            live.remove(x)
        ops.append({"op": "observe", "who": y, "observe": "all"})
        checks.append(("agree", len(ops) - 1, list(live)))
    return {"name": f"c11-p{i}", "suite": 1, "members": members, "ops": ops}, checks


def main(run, args):
    rng = Rng(run.seed)
    run.assumptions += [
        "idealisation in the model: a commit created on another history of the same length fails authentication (tags come from another key schedule); checked on every such delivery of the generated races",
        "a commit is identified by a token; the library identifies its own commit by the hash of the message",
    ]
    broken = []
    proofs_ok, log = prove(run, "C11", extra_targets=["Model/PendingCases.vo"])
    if not proofs_ok:
        broken.append(("proof", "Props/C11.v does not check; " + "; ".join(run.notes[-1:])))
    hok, herr = build_harness()
    if not hok:
        run.violation("harness build failed", herr, failing_input_found=False)
        return
    quick = run.tier == "quick"
    items = [gen(rng, i, quick) for i in range(32 if quick else 400)]
    scripts = [x[0] for x in items]
    recs = run_scripts(scripts, timeout=2400)
    failing, mism = [], []
    # model evaluation
    coq_out = {}
    if model_ready(proofs_ok):
        nsh = 16
        idxs = list(range(len(items)))
        shards = [idxs[i::nsh] for i in range(nsh) if idxs[i::nsh]]

        def shard(si, ids):
            body = ";\n".join("wrun (world0 3) [" + "; ".join(items[k][1]) + "]" for k in ids)
            text = ("From Coq Require Import NArith List Bool.\nFrom MlsV Require Import Pending PendingCases.\nImport ListNotations.\nLocal Open Scope N_scope.\n"
                    "Eval vm_compute in concat (map (fun l => (N.of_nat (length l)) :: l) [" + body + "]).\n")
            return coq_eval_cases(f"C11_cases_{si}", text, timeout=900)
        with ThreadPoolExecutor(max_workers=16) as ex:
            results = list(ex.map(lambda x: shard(*x), enumerate(shards)))
        for ids, (nums, logtxt) in zip(shards, results):
            if nums is None:
                broken.append(("correspondence", "Coq evaluation of the life-cycle model failed: " + (logtxt or "")[-600:]))
                continue
            pos = 0
            for k in ids:
                n = nums[pos]
                coq_out[k] = nums[pos + 1:pos + 1 + n]
                pos += 1 + n
    kinds = {}
    n_cmp = 0
    for k, ((sc, wops, meta), rs) in enumerate(zip(items, recs)):
        if any(r.get("crash") for r in rs):
            failing.append({"what": "history interpreter crashed", "script": sc["name"]})
            continue
        byi = {r["i"]: r for r in rs if "i" in r}
        setup_bad = [r for r in rs if r.get("ok") is False and r["i"] < 10]
        if setup_bad:
            failing.append({"what": "group setup failed", "script": sc["name"], "record": setup_bad[0]})
            continue
        e0 = 1
        out = coq_out.get(k)
        if out is None or len(out) != 4 * len(wops):
            if model_ready(proofs_ok) and out is not None:
                broken.append(("correspondence", f"model output length {len(out)} for {len(wops)} operations"))
            continue
        hist_of = {}
        for j, (w, oi) in enumerate(zip(wops, meta)):
            code, ep, hid, pf = out[4 * j:4 * j + 4]
            r = byi.get(oi, {})
            op = sc["ops"][oi]
            who = op.get("who") or op.get("to")
            o = (r.get("obs") or {}).get(who) or {}
            kind = w.split()[0]
            kinds[kind] = kinds.get(kind, 0) + 1
            ctx = {"script": sc["name"], "op_index": oi, "op": op, "model_op": w, "history_so_far": [sc["ops"][m] for m in meta[max(0, j - 6):j]]}
            if r.get("err") == "PANIC":
                failing.append(dict(ctx, what="panic"))
                continue
            icode = 0 if r.get("ok") else ERRC.get(r.get("err"), 5)
            if code == 9 and str(r.get("err", "")).startswith(("no message", "no secrets")):
                continue        # the commit was never built (both sides agree)
            n_cmp += 1
            if kind == "WApp":
                if code == 0 and icode != 0:
                    failing.append(dict(ctx, what="a member could not read application data of its current epoch (sender on the same history)" + (" while holding a pending commit" if pf else ""), error=r.get("err")))
                continue
            if icode != code:
                d = dict(ctx, what="library and life-cycle model disagree on the result", library=r.get("err") or "ok", model=code)
                # a library acceptance the model refuses, or the reverse, is a property-level failure
                # when the model is the specification (stale commit applied, second pending, ...)
                (failing if (icode == 0 and code in (1, 3, 4)) else mism).append(d)
                continue
            if o.get("group"):
                if o["epoch"] - e0 != ep:
                    failing.append(dict(ctx, what=f"epoch after the operation is {o['epoch'] - e0} (relative), model says {ep}"))
                if bool(o["pending"]) != bool(pf):
                    failing.append(dict(ctx, what=f"pending flag after the operation is {o['pending']}, model says {bool(pf)}"))
                hist_of[who] = (hid, o["ctx"], o["auth"], o["tree_bytes"])
        # same history <=> same state
        names = list(hist_of)
        for a in range(len(names)):
            for b in range(a + 1, len(names)):
                ha, hb = hist_of[names[a]], hist_of[names[b]]
                if ha[0] == hb[0] and ha[1:] != hb[1:]:
                    failing.append({"what": "two members that applied the same commits hold different states", "script": sc["name"], "members": [names[a], names[b]]})
                if ha[0] != hb[0] and ha[2] == hb[2]:
                    failing.append({"what": "two members on different histories share an epoch authenticator", "script": sc["name"], "members": [names[a], names[b]]})
    # ---- by-reference proposals the builder's own commit cannot use
    pitems = [prop_script(rng, i) for i in range(12 if quick else 120)]
    precs = run_scripts([x[0] for x in pitems], timeout=2400)
    pstats = {"cleared": 0, "winner_deliveries": 0, "agreements": 0}
    for (sc, checks), rs in zip(pitems, precs):
        if any(r.get("crash") for r in rs):
            failing.append({"what": "history interpreter crashed", "script": sc["name"]})
            continue
        byi = {r["i"]: r for r in rs if "i" in r}
        special = {c[1] for c in checks if c[0] == "winner"}
        bad = [r for r in rs if r.get("ok") is False and r["i"] not in special]
        if bad:
            failing.append({"what": "operation failed in a valid history (proposals a commit cannot use)", "script": sc["name"], "record": bad[0], "op": sc["ops"][bad[0]["i"]]})
            continue
        for c in checks:
            if c[0] == "clear":
                _, b, bu, cl, x, kind = c
                # the encoded state may differ (an encrypted commit consumed a handshake key generation,
                # which is never handed out again); what the property demands is the same epoch state
                # and no pending commit
                pick = lambda o: {k: o.get(k) for k in ("epoch", "ctx", "auth", "tree_bytes", "roster")}
                o0 = (byi.get(b, {}).get("obs") or {}).get(x) or {}
                o2 = (byi.get(cl, {}).get("obs") or {}).get(x) or {}
                pstats["cleared"] += 1
                if not o0.get("group") or pick(o0) != pick(o2) or o2.get("pending"):
                    failing.append({"what": "building a commit and clearing it did not leave the member in its epoch state without a pending commit", "script": sc["name"], "member": x, "proposals": kind, "ops": sc["ops"][b:cl + 1]})
            elif c[0] == "winner":
                _, k, m, x, kind = c
                r = byi.get(k, {})
                pstats["winner_deliveries"] += 1
                if not r.get("ok"):
                    failing.append({"what": "a member could not process the winning commit" + (" after building (and losing with) its own commit" if m == x else ""), "script": sc["name"], "member": m, "proposals": kind, "error": r.get("err"), "ops": sc["ops"][max(0, k - 8):k + 1]})
            else:
                _, k, live = c
                o = byi.get(k, {}).get("obs") or {}
                auths = {(o.get(m) or {}).get("auth") for m in live}
                pstats["agreements"] += 1
                if len(auths) != 1 or None in auths:
                    failing.append({"what": "members differ after the winning commit", "script": sc["name"], "members": live})
    run.cov["unusable_proposal_scenarios"] = pstats
    run.obligation("a commit that is built (and cleared) leaves the member in its epoch and never keeps it from processing the winner (by-reference proposals the builder cannot use)", not failing and pstats["cleared"] > 0 and pstats["winner_deliveries"] > 0)
    run.obligation("correspondence: result, epoch and pending flag of every operation of every race = life-cycle model", not mism and not failing and n_cmp > 0)
    run.cov.update({
        "evaluations": n_cmp,
        "distinct_nontrivial": len({tuple(x[1]) for x in items}),
        "rule": "three members; 6 (thorough 12) rounds: 1-3 members build commits concurrently (1/4 detached, sometimes a second attempt, sometimes cleared), application data read by members holding a pending commit, a delivery service picks the winner which reaches the members in random order (echo / apply / apply detached for the winner), then 0-3 deviations (late losing commits, stale detached commits, stale apply, replays); last round may be a re-init. A case = one operation.",
        "samples": [{"ops": items[0][1][:12]}],
        "operations_by_kind": kinds,
        "histories": len(items),
    })
    if failing:
        run.violation("the commit life cycle broke: state changed without apply, second successor, stale commit applied or members diverged", failing[:8])
    elif mism:
        run.violation("life-cycle model and implementation disagree", mism[:6], failing_input_found=False)
    elif broken:
        run.violation("proof obligation or tie no longer checks: " + broken[0][0], [b[1] for b in broken], failing_input_found=False)
