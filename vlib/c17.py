"""C17 - re-init and branch keep the membership rules and the link to the old group.

Decision: theorems of coq/Props/C17.v (membership rule over the tree model: re-init iff same
members, branch iff subset, blanks irrelevant; parameter checks of join).
Tie / search oracle: generated old groups whose trees have blank interior leaves; a re-init is
committed; the old group must refuse further commits; successor creation is attempted with an
equal, a smaller, a larger member set and with a replaced identity, branch creation with a
subset and with a superset: every verdict (creator side) is compared with the model evaluated
in Coq on the exported old tree; for accepted creations every member joins and all share the
same new epoch-1 state with the announced group id; Welcomes of the wrong kind, parties without
the old state and members that were left out cannot join."""
import json

from .common import *
from .histlib import HistGen, run_scripts
from .treelib import coq_tree, tok

VARIANTS = ["equal", "subset", "superset", "replaced", "replaced_creator"]


def dense(names):
    out = []
    for k, n in enumerate(names):
        if k:
            out.append("None")
        out.append(f"Some (Leaf {tok(n)})")
    return "[" + "; ".join(out) + "]"


def old_group(rng, i, name):
    g = HistGen(rng, n_pool=9, name=name, storage=rng.choice(["mem", "sqlite"]))
    g.start()
    g.round(n_props=0, by_value_adds=4 + rng.below(2), by_value_removes=0, app=False, encrypt=False)
    # removals in the middle -> blank interior leaves
    for r in range(1 + rng.below(2)):
        g.round(n_props=0, by_value_adds=0, by_value_removes=1, app=False, encrypt=False)
    if rng.chance(1, 2):
        g.round(n_props=1, allow=("update",), by_value_adds=0, by_value_removes=0, app=False, encrypt=False, path_required=True)
    return g


def reinit_script(rng, i, variant, new_suite=None):
    g = old_group(rng, i, f"c17-r{i}-{variant}" + (f"-suite{new_suite}" if new_suite else ""))
    ops = g.ops
    members = list(g.in_group)
    c = rng.choice(members)
    others = [m for m in members if m != c]
    gid = "ab%04x" % i
    ops.append({"op": "opts", "who": c, "encrypt_controls": False})
    ops.append(dict({"op": "commit", "who": c, "id": "cr", "reinit": True, "new_gid": gid}, **({"new_suite": new_suite} if new_suite else {})))
    for m in others:
        ops.append({"op": "deliver", "to": m, "msg": "cr"})
    ops.append({"op": "apply", "who": c})
    ops.append({"op": "observe", "who": c, "observe": "all"})
    meta = {"obs": len(ops) - 1, "variant": variant, "creator": c, "gid": gid, "frozen": [], "members": members}
    # the old group is frozen
    ops.append({"op": "commit", "who": c, "id": "cz"})
    meta["frozen"].append(len(ops) - 1)
    o = rng.choice(others)
    ops.append({"op": "propose", "who": o, "kind": "update", "id": "pz"})
    ops.append({"op": "commit", "who": o, "id": "cz2"})
    meta["frozen"].append(len(ops) - 1)
    # ... also through the detached-commit API (committer and a receiver of the re-init)
    for who, cid in ((c, "cz3"), (rng.choice(others), "cz4")):
        ops.append({"op": "commit", "who": who, "id": cid, "detached": True})
        meta["frozen"].append(len(ops) - 1)
    # ... and for INCOMING commits: an outsider joins by external commit on a GroupInfo of the re-initialised epoch
    # (the only commit of that epoch an honest API still produces); every member refuses it
    xo = [n for n in g.pool if n not in members and n not in g.removed][-1]
    ops.append({"op": "group_info", "who": rng.choice(members), "id": "giz", "ext_commit": True, "tree_ext": True})
    ops.append({"op": "ext_commit", "who": xo, "gi": "giz", "id": "cx"})
    meta["ext_built"] = len(ops) - 1
    meta["frozen_in"] = []
    for m in members:
        ops.append({"op": "deliver", "to": m, "msg": "cx"})
        meta["frozen_in"].append(len(ops) - 1)
    ops.append({"op": "drop", "who": xo})
    # successor
    outsider = [n for n in g.pool if n not in members and n not in g.removed][0]
    included = list(others)
    new_names = [c] + list(others)
    kps = []
    if variant == "subset":
        drop = rng.choice(others)
        included = [m for m in others if m != drop]
        new_names = [c] + included
        meta["left_out"] = drop
    for m in included:
        kp = f"rk_{m}"
        o = {"op": "reinit_kp", "who": m, "id": kp}
        if new_suite:
            o["new_suite"] = new_suite
        if variant == "replaced" and m == included[0]:
            o["as"] = outsider
            new_names = [c] + [outsider if x == m else x for x in included]
        ops.append(o)
        kps.append(kp)
    if variant == "superset":
        ops.append({"op": "kp", "who": outsider, "id": "k_out"})
        kps.append("k_out")
        new_names = new_names + [outsider]
    rco = {"op": "reinit_commit", "who": c, "id": "rc", "kps": kps}
    if new_suite:
        rco["new_suite"] = new_suite
    if variant == "replaced_creator":
        # the party that creates the successor takes its own leaf under an identity that is not in the old group
        rco["as"] = outsider
        new_names = [outsider] + [x for x in new_names if x != c]
    ops.append(rco)
    meta["create"] = len(ops) - 1
    meta["new_names"] = new_names
    meta["joins"] = []
    for m in included:
        o = {"op": "reinit_join", "who": m, "welcome_any": "rc", "tree": "rc.tree"}
        if new_suite:
            o["new_suite"] = new_suite
        if variant == "replaced" and m == included[0]:
            o["as"] = outsider
        ops.append(o)
        meta["joins"].append((len(ops) - 1, m))
    # parties that must not be able to join
    meta["intruders"] = []
    ops.append({"op": "join", "who": outsider if variant != "superset" else g.pool[-1], "welcome_any": "rc", "tree": "rc.tree"})
    meta["intruders"].append((len(ops) - 1, "a party without the old group's state"))
    if variant == "subset":
        ops.append({"op": "reinit_join", "who": meta["left_out"], "welcome_any": "rc", "tree": "rc.tree"})
        meta["intruders"].append((len(ops) - 1, "a member of the old group that was left out"))
    if variant == "equal" and included:
        # usage of the resumption PSK: a BRANCH of the frozen group (same announced group id, same key
        # packages) is not the re-init successor, and the successor's Welcome is not a branch
        ops.append({"op": "branch", "who": c, "id": "bx", "gid": gid, "kps": kps, "discard": True})
        m = included[-1]
        ops.append({"op": "reinit_join", "who": m, "welcome_any": "bx", "tree": "bx.tree"})
        meta["intruders"].append((len(ops) - 1, "a branch Welcome (resumption usage branch) offered as the re-init successor"))
        ops.append({"op": "join_subgroup", "who": m, "welcome_any": "rc", "tree": "rc.tree", "keep_sub": True})
        meta["intruders"].append((len(ops) - 1, "the re-init Welcome (resumption usage reinit) offered as a branch of the old group"))
    ops[:] = [o for o in ops if o is not None]
    ops.append({"op": "observe", "who": c, "observe": "all"})
    meta["final"] = len(ops) - 1
    return g.script(), meta


def forged_successor_script(rng, i):
    """Somebody who was never in the old group (but claims the identity of an old member)
    creates an ordinary group with the announced group id and invites a real member with its
    successor key package: without the old group's resumption secret this must not be joinable."""
    names = ["A", "B", "C"]
    members = [{"name": n} for n in names] + [{"name": "M", "identity_name": "A"}]
    gid = "cd%04x" % i
    ops = [{"op": "create", "who": "A"}, {"op": "kp", "who": "B", "id": "kB"}, {"op": "kp", "who": "C", "id": "kC"},
           {"op": "commit", "who": "A", "id": "c0", "add": ["kB", "kC"]}, {"op": "apply", "who": "A"}, {"op": "join", "who": "B", "welcome_any": "c0"}, {"op": "join", "who": "C", "welcome_any": "c0"},
           {"op": "opts", "who": "A", "encrypt_controls": False},
           {"op": "commit", "who": "A", "id": "cr", "reinit": True, "new_gid": gid}, {"op": "deliver", "to": "B", "msg": "cr"}, {"op": "deliver", "to": "C", "msg": "cr"}, {"op": "apply", "who": "A"},
           {"op": "reinit_kp", "who": "B", "id": "rkB"}, {"op": "reinit_kp", "who": "C", "id": "rkC"},
           {"op": "create", "who": "M", "gid": gid},
           {"op": "opts", "who": "M", "tree_ext": True, "single_welcome": True},
           {"op": "commit", "who": "M", "id": "cm", "add": ["rkB", "rkC"]}, {"op": "apply", "who": "M"}]
    checks = []
    for n in ("B", "C"):
        ops.append({"op": "reinit_join", "who": n, "welcome_any": "cm"})
        checks.append(len(ops) - 1)
    return {"name": f"c17-forged{i}", "suite": 1, "members": members, "ops": ops}, checks


def branch_script(rng, i, variant):
    g = old_group(rng, i, f"c17-b{i}-{variant}")
    ops = g.ops
    members = list(g.in_group)
    c = rng.choice(members)
    others = [m for m in members if m != c]
    ops.append({"op": "observe", "who": c, "observe": "all"})
    meta = {"obs": len(ops) - 1, "variant": variant, "creator": c, "members": members, "frozen": []}
    outsider = [n for n in g.pool if n not in members and n not in g.removed][0]
    included = rng.shuffle(others)[:max(1, len(others) - 1)] if variant != "equal" else list(others)
    kps = []
    for m in included:
        ops.append({"op": "kp", "who": m, "id": f"bk_{m}"})
        kps.append(f"bk_{m}")
    new_names = [c] + included
    if variant == "superset":
        ops.append({"op": "kp", "who": outsider, "id": "k_out"})
        kps.append("k_out")
        new_names.append(outsider)
    ops.append({"op": "branch", "who": c, "id": "bc", "gid": "bb%04x" % i, "kps": kps})
    meta["create"] = len(ops) - 1
    meta["new_names"] = new_names
    meta["joins"] = []
    for m in included:
        ops.append({"op": "join_subgroup", "who": m, "welcome_any": "bc", "tree": "bc.tree"})
        meta["joins"].append((len(ops) - 1, m))
    meta["intruders"] = []
    left = [m for m in others if m not in included]
    if left:
        ops.append({"op": "join_subgroup", "who": left[0], "welcome_any": "bc", "tree": "bc.tree"})
        meta["intruders"].append((len(ops) - 1, "a member of the old group that is not in the branch"))
    ops.append({"op": "join", "who": g.pool[-1], "welcome_any": "bc", "tree": "bc.tree"})
    meta["intruders"].append((len(ops) - 1, "a party without the old group's state"))
    # the old group goes on
    ops.append({"op": "commit", "who": c, "id": "cgo"})
    meta["goes_on"] = len(ops) - 1
    ops.append({"op": "observe", "who": c, "observe": "all"})
    meta["final"] = len(ops) - 1
    meta["gid"] = "bb%04x" % i
    return g.script(), meta


def main(run, args):
    rng = Rng(run.seed)
    run.assumptions += [
        "identities are the basic-credential identifiers (BasicIdentityProvider); a replaced identity is a key package under another party's credential",
        "the binding of the successor to the old group's resumption secret is cryptographic (PSK in the key schedule, C13 / C18); here: parties without that state fail to join",
    ]
    broken = []
    proofs_ok, log = prove(run, "C17", extra_targets=[])
    if not proofs_ok:
        broken.append(("proof", "Props/C17.v does not check; " + "; ".join(run.notes[-1:])))
    hok, herr = build_harness()
    if not hok:
        run.violation("harness build failed", herr, failing_input_found=False)
        return
    quick = run.tier == "quick"
    items = []
    n = 3 if quick else 20
    for i in range(n):
        for v in VARIANTS:
            items.append(("reinit",) + reinit_script(rng, i * 10 + VARIANTS.index(v), v))
        # the successor may use ANOTHER cipher suite (other curve, other hash size): every member comes back
        # under the same identity with a signature key of the new suite
        for v in (("equal", "subset") if i % 2 == 0 else ("equal",)):
            items.append(("reinit",) + reinit_script(rng, i * 10 + 7 + VARIANTS.index(v), v, new_suite=[7, 5, 2, 3][i % 4]))
        for v in ("equal", "subset", "superset"):
            items.append(("branch",) + branch_script(rng, i * 10 + 5 + ("equal", "subset", "superset").index(v), v))
    forged = [forged_successor_script(rng, i) for i in range(2 if quick else 8)]
    recs_all = run_scripts([x[1] for x in items] + [x[0] for x in forged], timeout=3000)
    recs = recs_all[:len(items)]
    failing, cases = [], []
    for (sc, checks), rs in zip(forged, recs_all[len(items):]):
        byi = {r["i"]: r for r in rs if "i" in r}
        pre = [r for r in rs if r.get("ok") is False and r["i"] not in checks]
        if pre:
            failing.append({"what": "forged-successor scenario failed before the point of interest", "script": sc["name"], "record": pre[0], "op": sc["ops"][pre[0]["i"]]})
            continue
        for k in checks:
            r = byi.get(k, {})
            if r.get("ok") is not False:
                failing.append({"what": "a member joined a 'successor' group that was created WITHOUT the old group's resumption secret (no link to the old group)", "script": sc["name"], "op": sc["ops"][k]})
    stats = {"creations": 0, "accepted": 0, "refused": 0, "joins": 0, "intruders": 0, "old_trees_with_blank": 0, "frozen_checks": 0}
    for (kind, sc, meta), rs in zip(items, recs):
        if any(r.get("crash") for r in rs):
            failing.append({"what": "history interpreter crashed", "script": sc["name"]})
            continue
        byi = {r["i"]: r for r in rs if "i" in r}
        if any(r.get("err") == "PANIC" for r in rs):
            failing.append({"what": "PANIC", "script": sc["name"], "record": [r for r in rs if r.get("err") == "PANIC"][0]})
            continue
        pre = [r for r in rs if r.get("ok") is False and r["i"] < meta["obs"]]
        if pre:
            failing.append({"what": "old group history failed", "script": sc["name"], "record": pre[0]})
            continue
        old = byi[meta["obs"]]["obs"][meta["creator"]]
        old_tree = old["tree"]
        if "_" in old_tree[0::2]:
            stats["old_trees_with_blank"] += 1
        for k in meta["frozen"]:
            stats["frozen_checks"] += 1
            r = byi.get(k, {})
            if r.get("ok") is not False or r.get("err") != "GroupUsedAfterReInit":
                failing.append({"what": "the old group accepts a commit after the re-init was committed", "script": sc["name"], "op": sc["ops"][k], "result": r.get("err") or "ok"})
        if "ext_built" in meta and byi.get(meta["ext_built"], {}).get("ok"):
            for k in meta["frozen_in"]:
                stats["frozen_checks"] += 1
                r = byi.get(k, {})
                if r.get("ok") is not False or r.get("err") != "GroupUsedAfterReInit":
                    failing.append({"what": "a member of the re-initialised group accepts an incoming (external) commit for the closed epoch", "script": sc["name"], "op": sc["ops"][k], "result": r.get("err") or "ok"})
        cr = byi.get(meta["create"], {})
        stats["creations"] += 1
        created = bool(cr.get("ok"))
        stats["accepted" if created else "refused"] += 1
        typ = "Reinit" if kind == "reinit" else "Branch"
        cases.append((f"(if subgroup_ok {typ} {coq_tree(old_tree)} {dense(meta['new_names'])} then 1 else 0)", created,
                      {"script": sc["name"], "kind": kind, "variant": meta["variant"], "old_tree": old_tree, "new_members": meta["new_names"], "library": cr.get("err") or "ok"}))
        fin = byi.get(meta["final"], {}).get("obs", {})
        if created:
            subs = {}
            for (k, m) in meta["joins"]:
                r = byi.get(k, {})
                stats["joins"] += 1
                if not r.get("ok"):
                    failing.append({"what": "a member of the new group cannot join it", "script": sc["name"], "member": m, "error": r.get("err"), "variant": meta["variant"]})
            names = set(meta["new_names"])
            for nme, o in fin.items():
                if o and o.get("sub"):
                    subs[nme] = o["sub"]
            if subs:
                ref = subs.get(meta["creator"])
                for nme, s_ in subs.items():
                    if ref and (s_["auth"] != ref["auth"] or s_["epoch"] != 1 or s_["gid"] != meta["gid"] or sorted(s_["members"]) != sorted(ref["members"])):
                        failing.append({"what": "the members of the new group do not share one epoch-1 state with the announced group id", "script": sc["name"], "member": nme, "sub": s_, "creator_sub": ref})
                if ref and sorted(ref["members"]) != sorted(meta["new_names"]):
                    failing.append({"what": "the new group's roster is not the intended member set", "script": sc["name"], "roster": ref["members"], "intended": meta["new_names"]})
            for (k, what) in meta["intruders"]:
                r = byi.get(k, {})
                stats["intruders"] += 1
                if r.get("ok") is not False:
                    failing.append({"what": "joined the new group: " + what, "script": sc["name"], "op": sc["ops"][k]})
        if kind == "branch":
            r = byi.get(meta["goes_on"], {})
            if not r.get("ok"):
                failing.append({"what": "the old group cannot go on after a branch", "script": sc["name"], "error": r.get("err")})
    mism = []
    coq_cases = 0
    if model_ready(proofs_ok) and cases:
        text = ("From Coq Require Import NArith List Bool.\nFrom MlsV Require Import Tree Subgroup.\nImport ListNotations.\nLocal Open Scope N_scope.\n"
                "Eval vm_compute in [" + ";\n".join(c[0] for c in cases) + "].\n")
        nums, logtxt = coq_eval_cases("C17_cases", text, timeout=900)
        if nums is None or len(nums) != len(cases):
            broken.append(("correspondence", "Coq evaluation of the membership model failed: " + (logtxt or "")[-500:]))
        else:
            for (expr, created, ctx), v in zip(cases, nums):
                coq_cases += 1
                if bool(v) != created:
                    (failing if v == 1 else mism).append(dict(ctx, what="a legitimate successor / branch was refused" if v == 1 else "a successor / branch with the wrong member set was created", model="accept" if v else "refuse"))
    run.obligation("creation verdicts = membership model; accepted groups joined by exactly their members with one shared state; old group frozen after re-init", not failing and not mism and coq_cases > 0)
    if stats["old_trees_with_blank"] < 3 or stats["accepted"] < 3 or stats["refused"] < 3:
        broken.append(("generator", f"degenerate scenarios: {stats}"))
    run.cov.update({
        "evaluations": stats["creations"] + stats["joins"] + stats["intruders"] + stats["frozen_checks"],
        "distinct_nontrivial": len({c[0] for c in cases}),
        "rule": "old groups of 5-6 members with 1-2 removals in the middle (blank interior leaves), optional path update; re-init with equal / smaller / larger member set and with one identity replaced; branch with equal / smaller / larger member set; a case = one creation attempt (verdict vs model), plus every join, every intruder attempt, every commit attempted in the frozen old group.",
        "samples": [cases[0][2]] if cases else [],
        "stats": stats,
        "membership_cases_in_coq": coq_cases,
        "histories": len(items),
    })
    if failing:
        run.violation("re-init / branch broke the membership rule or the link to the old group", failing[:8])
    elif mism:
        run.violation("membership model and implementation disagree", mism[:6], failing_input_found=False)
    elif broken:
        run.violation("proof obligation or tie no longer checks: " + broken[0][0], [b[1] for b in broken], failing_input_found=False)
