"""C01 - all members that process the same commits reach the same epoch state.

Decision: theorems of coq/Props/C01.v (TreeKEM path-secret chain: every receiver reaches the
committer's commit secret; proposal agreement; one epoch per accepted commit).
Search oracle (implementation): random histories that mix every operation kind - by-value and
by-reference adds / updates / removes, PSK, group-context-extension and custom proposals,
identity changes, commits with and without path, external commits (join and resync), growth
and shrinkage with interior blanks - on groups whose members use DIFFERENT crypto providers
(OpenSSL, AWS-LC, RustCrypto), on several cipher suites, with every commit option; after every
commit every member is compared with every other on group context, tree, roster, transcript
hash, epoch authenticator and an exported secret, the epoch must have advanced by exactly one,
and application messages of every member are decrypted by every other member."""
import json

from .common import *
from .histlib import HistGen, run_scripts, block_join_history, double_update_history, shrink_regrow_history

FIELDS = ("ctx", "tree_bytes", "auth", "exp", "cth", "tree_hash", "ext")


def gen(rng, i, quick, suite=None, provs=None):
    suite = suite or [1, 2, 3][i % 3]
    provs = provs or [["openssl", "awslc", "rustcrypto"], ["openssl", "rustcrypto"], ["awslc", "rustcrypto"], ["openssl", "awslc"]][i % 4]
    g = HistGen(rng, n_pool=rng.choice([6, 9, 12]) if quick else rng.choice([6, 9, 12, 18]), name=f"c01-{i}", suite=suite, providers=provs, storage="mem")
    g.start()
    ops = g.ops
    # in half of the histories the application's rules say that custom proposals need no update
    # path (the same rules for everybody): whether a commit carries one is then decided by its
    # other proposals alone
    if i % 2 == 0:
        for m in g.pool:
            ops.append({"op": "opts", "who": m, "custom_needs_path": False})
    marks = []     # (observe index, expected epoch)
    kinds = {}
    nrounds = 9 if quick else 16
    g.round(n_props=0, by_value_adds=3, by_value_removes=0, observe="all")
    marks.append((len(ops) - 1, g.epoch))
    psk_n = [0]
    for r in range(nrounds):
        k = rng.choice(["normal", "normal", "normal", "psk", "gce", "custom", "identity", "extjoin", "resync", "shrink", "dupadd"])
        if k == "dupadd" and (len(g.outsiders()) < 3 or len(g.in_group) < 2):
            k = "normal"
        if len(g.in_group) < 3 and k in ("shrink", "resync"):
            k = "normal"
        kinds[k] = kinds.get(k, 0) + 1
        enc = rng.chance(1, 3)
        if k == "normal":
            g.round(observe="all")
        elif k == "shrink":
            g.round(n_props=1, allow=("remove",), by_value_adds=0, by_value_removes=1, observe="all")
        elif k in ("psk", "gce", "custom"):
            c = rng.choice(g.in_group)
            g.set_opts(c, encrypt_controls=enc, path_required=rng.chance(1, 2))
            cid = g.fresh("c")
            o = {"op": "commit", "who": c, "id": cid}
            if k == "psk":
                psk_n[0] += 1
                pid = "ab%02x" % psk_n[0]
                for m in g.in_group:
                    ops.append({"op": "psk_insert", "who": m, "psk_id": pid, "value": "a0a1a2a3a4a5a6a7"})
                if rng.chance(1, 2) and len(g.in_group) > 1:
                    p = rng.choice([m for m in g.in_group if m != c])
                    pp = g.fresh("p")
                    g.set_opts(p, encrypt_controls=enc)
                    ops.append({"op": "propose", "who": p, "kind": "psk", "psk_id": pid, "id": pp})
                    for m in rng.shuffle(g.in_group):
                        if m != p:
                            ops.append({"op": "deliver", "to": m, "msg": pp})
                else:
                    o["psk"] = [pid]
            elif k == "gce":
                o["gce"] = "%02x%02x" % (r, i % 256)
            else:
                o["custom"] = "c0%02x" % r
                # a custom proposal next to a removal: the removal still forces an update path
                if len(g.in_group) >= 4 and rng.chance(1, 2):
                    gone = rng.choice([m for m in g.in_group if m != c])
                    o["remove_names"] = [gone]
            ops.append(o)
            for m in rng.shuffle([x for x in g.in_group if x != c]):
                ops.append({"op": "deliver", "to": m, "msg": cid})
            ops.append({"op": "deliver", "to": c, "msg": cid} if rng.chance(1, 3) else {"op": "apply", "who": c})
            for gone in o.get("remove_names", []):
                g.in_group.remove(gone)
                g.removed.append(gone)
            g.epoch += 1
            g.commit_ids.append(cid)
            ops.append({"op": "observe", "who": c, "observe": "all"})
        elif k == "dupadd":
            # the same party proposed for addition by two members (one proposal is dropped when it
            # reaches the tree), followed by further adds: the surviving adds keep their order
            outs = g.outsiders()
            d_, later = outs[0], outs[1:3]
            c = rng.choice(g.in_group)
            for m in g.in_group:
                g.set_opts(m, encrypt_controls=False)
            g.set_opts(c, path_required=rng.chance(1, 2), tree_ext=True, single_welcome=rng.chance(1, 2), encrypt_controls=False)
            kpd = g.fresh("kp")
            ops.append({"op": "kp", "who": d_, "id": kpd})
            for p_ in rng.shuffle(g.in_group)[:2]:
                pp = g.fresh("p")
                ops.append({"op": "propose", "who": p_, "kind": "add", "kp": kpd, "id": pp})
                for m in rng.shuffle(g.in_group):
                    if m != p_:
                        ops.append({"op": "deliver", "to": m, "msg": pp})
            kps = []
            for x in later:
                kx = g.fresh("kp")
                ops.append({"op": "kp", "who": x, "id": kx})
                kps.append(kx)
            cid = g.fresh("c")
            ops.append({"op": "commit", "who": c, "id": cid, "add": kps})
            for m in rng.shuffle([x for x in g.in_group if x != c]):
                ops.append({"op": "deliver", "to": m, "msg": cid})
            ops.append({"op": "apply", "who": c})
            for x in [d_] + later:
                ops.append({"op": "join", "who": x, "welcome_any": cid})
                g.in_group.append(x)
            g.epoch += 1
            g.commit_ids.append(cid)
            ops.append({"op": "observe", "who": c, "observe": "all"})
        elif k == "identity" and len(g.in_group) >= 2:
            u = rng.choice(g.in_group)
            c = rng.choice([m for m in g.in_group if m != u])
            pp = g.fresh("p")
            g.set_opts(u, encrypt_controls=enc)
            ops.append({"op": "propose", "who": u, "kind": "update_id", "id": pp})
            for m in rng.shuffle(g.in_group):
                if m != u:
                    ops.append({"op": "deliver", "to": m, "msg": pp})
            g.set_opts(c, encrypt_controls=enc)
            cid = g.fresh("c")
            ops.append({"op": "commit", "who": c, "id": cid})
            for m in rng.shuffle([x for x in g.in_group if x != c]):
                ops.append({"op": "deliver", "to": m, "msg": cid})
            ops.append({"op": "apply", "who": c})
            g.epoch += 1
            g.commit_ids.append(cid)
            ops.append({"op": "observe", "who": c, "observe": "all"})
        elif k == "extjoin" and g.outsiders():
            j = g.outsiders()[0]
            w = rng.choice(g.in_group)
            gi = g.fresh("gi")
            in_ext = rng.chance(1, 2)
            ops.append({"op": "group_info", "who": w, "id": gi, "ext_commit": True, "tree_ext": in_ext})
            xc = g.fresh("xc")
            o = {"op": "ext_commit", "who": j, "gi": gi, "id": xc}
            if not in_ext:
                o["tree"] = gi + ".tree"
            ops.append(o)
            for m in rng.shuffle(g.in_group):
                ops.append({"op": "deliver", "to": m, "msg": xc})
            g.in_group.append(j)
            g.epoch += 1
            g.commit_ids.append(xc)
            ops.append({"op": "observe", "who": j, "observe": "all"})
        elif k == "resync":
            x = rng.choice(g.in_group)
            w = rng.choice([m for m in g.in_group if m != x])
            gi = g.fresh("gi")
            ops.append({"op": "group_info", "who": w, "id": gi, "ext_commit": True, "tree_ext": True})
            xc = g.fresh("xc")
            ops.append({"op": "ext_commit", "who": x, "gi": gi, "id": xc, "remove_self": True})
            for m in rng.shuffle([m for m in g.in_group if m != x]):
                ops.append({"op": "deliver", "to": m, "msg": xc})
            g.epoch += 1
            g.commit_ids.append(xc)
            ops.append({"op": "observe", "who": x, "observe": "all"})
        else:
            g.round(observe="all")
        marks.append((len(ops) - 1, g.epoch))
    # everybody talks to everybody
    talk = []
    for s in g.in_group:
        aid = g.fresh("z")
        ops.append({"op": "app", "who": s, "id": aid, "data": "7a"})
        for m in g.in_group:
            if m != s:
                ops.append({"op": "deliver", "to": m, "msg": aid})
                talk.append(len(ops) - 1)
    ops.append({"op": "observe", "who": g.in_group[0], "observe": "all"})
    marks.append((len(ops) - 1, g.epoch))
    return g.script(), {"marks": marks, "kinds": kinds, "talk": talk, "final_members": list(g.in_group), "suite": suite, "providers": provs}


def holes_gen(rng, i, quick):
    """Directed histories for the decryption side of TreeKEM: a full tree of 8-16 leaves, then
    removals (holes), path commits by random members (which re-key parents above the holes so that
    receivers below them decrypt with a PARENT key), then adds with an update path that land in
    the holes (so that the resolution of a copath node holds a parent followed by its freshly
    added, excluded, unmerged leaves)."""
    n = 8 + rng.below(9)
    suite = [1, 2, 3][i % 3]
    provs = [["openssl"], ["rustcrypto"], ["awslc"], ["openssl", "awslc", "rustcrypto"]][i % 4]
    g = HistGen(rng, n_pool=min(26, n + 4), name=f"c01-holes-{i}", suite=suite, providers=provs, storage="mem")
    g.start()
    marks, kinds = [], {"holes": 1}
    g.round(n_props=0, by_value_adds=n - 1, by_value_removes=0, observe="all", path_required=rng.chance(1, 2), app=False)
    marks.append((len(g.ops) - 1, g.epoch))
    for cycle in range(2 if quick else 4):
        for _ in range(1 + rng.below(3)):
            g.round(n_props=0, by_value_adds=0, by_value_removes=1, observe="all", path_required=True, app=False)
            marks.append((len(g.ops) - 1, g.epoch))
        for _ in range(1 + rng.below(3)):
            g.round(n_props=0, by_value_adds=0, by_value_removes=0, observe="all", path_required=True, app=False)
            marks.append((len(g.ops) - 1, g.epoch))
        g.round(n_props=0, by_value_adds=1 + rng.below(3), by_value_removes=rng.below(2), observe="all", path_required=True, app=False)
        marks.append((len(g.ops) - 1, g.epoch))
    ops = g.ops
    talk = []
    for s_ in g.in_group:
        aid = g.fresh("z")
        ops.append({"op": "app", "who": s_, "id": aid, "data": "7a"})
        for m in g.in_group:
            if m != s_:
                ops.append({"op": "deliver", "to": m, "msg": aid})
                talk.append(len(ops) - 1)
    ops.append({"op": "observe", "who": g.in_group[0], "observe": "all"})
    marks.append((len(ops) - 1, g.epoch))
    return g.script(), {"marks": marks, "kinds": kinds, "talk": talk, "final_members": list(g.in_group), "suite": suite, "providers": provs}


def judge(items, recs):
    """Agreement oracle over finished histories: (failing, stats)."""
    failing = []
    stats = {"commits": 0, "member_comparisons": 0, "cross_decryptions": 0, "max_members": 0, "interior_blank_epochs": 0, "kinds": {}, "suites": {}, "provider_mixes": {}}
    for (sc, meta), rs in zip(items, recs):
        if any(r.get("crash") for r in rs):
            failing.append({"what": "history interpreter crashed", "script": sc["name"], "stderr": [r.get("stderr") for r in rs if r.get("crash")][:1]})
            continue
        if any(r.get("err") == "PANIC" for r in rs):
            p = [r for r in rs if r.get("err") == "PANIC"][0]
            failing.append({"what": "PANIC", "script": sc["name"], "record": p, "op": sc["ops"][p["i"]]})
            continue
        bad = [r for r in rs if r.get("ok") is False]
        if bad:
            o = sc["ops"][bad[0]["i"]]
            what = "a member could not process a commit / proposal / message that the others accepted" if o["op"] in ("deliver", "join") else "a valid operation failed"
            failing.append({"what": what, "script": sc["name"], "suite": meta["suite"], "providers": meta["providers"], "record": bad[0], "op": o, "before": sc["ops"][max(0, bad[0]["i"] - 5):bad[0]["i"]]})
            continue
        byi = {r["i"]: r for r in rs if "i" in r}
        # RFC 9420 12.4: a commit whose proposal list is empty or holds an Update, Remove,
        # ExternalInit or GroupContextExtensions proposal must carry an update path (only then
        # is the removed / updated key material replaced)
        path_of = {sc["ops"][r["i"]].get("id"): (r.get("info") or {}).get("path") for r in rs if r.get("op") == "commit" and r.get("ok")}
        for r in rs:
            if r.get("op") == "deliver" and r.get("ok") and (r.get("info") or {}).get("kind") == "commit":
                cidm = sc["ops"][r["i"]].get("msg")
                applied = (r.get("info") or {}).get("applied") or []
                if path_of.get(cidm) is False and (not applied or any(k in ("remove", "update", "gce", "extinit") for k in applied)):
                    failing.append({"what": "a commit that removes / updates / changes the context (or is empty) carries NO update path: the members it removes can compute the next epoch", "script": sc["name"], "commit": cidm, "applied": applied})
                    break
        for kk, v in meta["kinds"].items():
            stats["kinds"][kk] = stats["kinds"].get(kk, 0) + v
        stats["suites"][str(meta["suite"])] = stats["suites"].get(str(meta["suite"]), 0) + 1
        pm = "+".join(meta["providers"])
        stats["provider_mixes"][pm] = stats["provider_mixes"].get(pm, 0) + 1
        prev_epoch = {}
        for (k, ep) in meta["marks"]:
            obs = (byi.get(k) or {}).get("obs") or {}
            cur = {n: o for n, o in obs.items() if o and o.get("group") and not o.get("observer") and o["epoch"] == ep}
            if len(cur) < 1:
                failing.append({"what": "nobody is in the expected epoch", "script": sc["name"], "expected_epoch": ep})
                continue
            stats["commits"] += 1
            stats["max_members"] = max(stats["max_members"], len(cur))
            names = sorted(cur)
            ref = cur[names[0]]
            if "_" in ref["tree"][0::2]:
                stats["interior_blank_epochs"] += 1
            # everybody in the roster of the new epoch must be there
            roster_names = sorted(n for _, n in ref["roster"])
            missing = [n for n in roster_names if n not in cur and n in obs]
            if missing:
                failing.append({"what": "a member of the new epoch's roster did not reach the epoch", "script": sc["name"], "epoch": ep, "missing": missing,
                                "their_epochs": {n: (obs[n] or {}).get("epoch") for n in missing}})
            for n in names[1:]:
                stats["member_comparisons"] += 1
                for f in FIELDS:
                    if cur[n].get(f) != ref.get(f):
                        failing.append({"what": f"members of the same epoch differ in {f}", "script": sc["name"], "epoch": ep, "members": [names[0], n], "suite": meta["suite"], "providers": meta["providers"]})
                        break
                if sorted(map(tuple, cur[n]["roster"])) != sorted(map(tuple, ref["roster"])):
                    failing.append({"what": "members of the same epoch differ in the roster", "script": sc["name"], "epoch": ep, "members": [names[0], n]})
            for n, o in cur.items():
                if n in prev_epoch and o["epoch"] not in (prev_epoch[n], prev_epoch[n] + 1):
                    failing.append({"what": "a member's epoch did not advance by exactly one", "script": sc["name"], "member": n, "from": prev_epoch[n], "to": o["epoch"]})
                prev_epoch[n] = o["epoch"]
        stats["cross_decryptions"] += len(meta["talk"])
    return failing, stats


def main(run, args):
    rng = Rng(run.seed)
    run.assumptions += [
        "the derivation function of path secrets is abstract in the chain theorem (any function); the concrete HKDF label derivation is C13's subject",
        "members are compared on what the public API exposes (context, exported tree, roster, epoch authenticator, one exported secret) plus mutual decryption",
    ]
    broken = []
    proofs_ok, log = prove(run, "C01", extra_targets=[])
    if not proofs_ok:
        broken.append(("proof", "Props/C01.v does not check; " + "; ".join(run.notes[-1:])))
    hok, herr = build_harness()
    if not hok:
        run.violation("harness build failed", herr, failing_input_found=False)
        return
    quick = run.tier == "quick"
    items = [gen(rng, i, quick) for i in range(24 if quick else 240)]
    items += [holes_gen(rng, i, quick) for i in range(32 if quick else 320)]
    # joins next to a removed block: the joiner's keys above a filtered node are needed when the far side commits
    for i in range(8 if quick else 60):
        suite = [1, 2, 3][i % 3]
        provs = [["openssl"], ["rustcrypto"], ["awslc"], ["openssl", "awslc", "rustcrypto"]][i % 4]
        g, marks = block_join_history(rng, i, f"c01-block-{i}", quick, suite=suite, providers=provs)
        items.append((g.script(), {"marks": marks, "kinds": {"block_join": 1}, "talk": [], "final_members": list(g.in_group), "suite": suite, "providers": provs}))
    # a member with two Update proposals in flight; the commit carries the first, the second or one of both
    for i in range(6 if quick else 36):
        suite = [1, 2, 3][i % 3]
        provs = [["openssl"], ["rustcrypto"], ["awslc"], ["openssl", "awslc", "rustcrypto"]][i % 4]
        g, marks = double_update_history(rng, i, f"c01-dupd-{i}", quick, suite=suite, providers=provs)
        items.append((g.script(), {"marks": marks, "kinds": {"double_update": 1}, "talk": [], "final_members": list(g.in_group), "suite": suite, "providers": provs}))
    # the committer rotates its signature key in the very commit that adds members: the joiners verify the
    # GroupInfo of the new epoch against the committer's NEW leaf and must reach the members' state
    for i in range(4 if quick else 24):
        suite = [1, 2, 3][i % 3]
        provs = [["openssl"], ["rustcrypto"], ["awslc"], ["openssl", "awslc", "rustcrypto"]][i % 4]
        n = rng.choice([2, 3, 5])
        g = HistGen(rng, n_pool=n + 3, name=f"c01-rotadd-{i}", suite=suite, providers=provs)
        g.start()
        marks = []
        g.round(app=False, n_props=0, by_value_adds=n - 1, by_value_removes=0, path_required=True, echo=False)
        marks.append((len(g.ops) - 1, g.epoch))
        g.round_explicit(rng.choice(g.in_group), n_adds=1 + rng.below(2), remove_names=[], tree_ext=rng.chance(1, 2), new_id=True)
        marks.append((len(g.ops) - 1, g.epoch))
        g.round_explicit(g.in_group[-1], n_adds=0, remove_names=[])
        marks.append((len(g.ops) - 1, g.epoch))
        g.round_explicit(rng.choice(g.in_group), n_adds=0, remove_names=[], new_id=True)
        marks.append((len(g.ops) - 1, g.epoch))
        items.append((g.script(), {"marks": marks, "kinds": {"rotate_and_add": 1}, "talk": [], "final_members": list(g.in_group), "suite": suite, "providers": provs}))
    # the right half of the tree is emptied by one commit (truncation across a power of two), then the group
    # grows back: members that lived through the shrink, members added on the small tree and the joiners of
    # the regrowth must all agree (tree hash in the context, parent hashes, Welcome)
    for i in range(6 if quick else 36):
        suite = [1, 2, 3][i % 3]
        provs = [["openssl"], ["rustcrypto"], ["awslc"], ["openssl", "awslc", "rustcrypto"]][i % 4]
        g, marks = shrink_regrow_history(rng, i, f"c01-shrink-{i}", quick, suite=suite, providers=provs)
        items.append((g.script(), {"marks": marks, "kinds": {"shrink_regrow": 1}, "talk": [], "final_members": list(g.in_group), "suite": suite, "providers": provs}))
    recs = run_scripts([x[0] for x in items], timeout=3000)
    failing, stats = judge(items, recs)
    run.obligation("all members agree after every commit of every history; epoch +1; all-to-all decryption", not failing and stats["member_comparisons"] > 0)
    if stats["interior_blank_epochs"] < 5 or len(stats["kinds"]) < 8:
        broken.append(("generator", f"degenerate histories: {stats}"))
    run.cov.update({
        "evaluations": stats["member_comparisons"] + stats["cross_decryptions"],
        "distinct_nontrivial": stats["commits"],
        "rule": "PLUS 32 (320) directed hole histories: full tree of 8-16 leaves, then cycles of 1-3 removals with path, 1-3 empty path commits by random members (re-keying parents above the holes), and an add of 1-3 members with path that lands in the holes. Random histories: histories of 6-12 (thorough 18) parties and 10 (17) commits; each commit is drawn from: ordinary round (0-3 by-reference add/update/remove proposals delivered in shuffled order, 0-2 by-value adds, 0-1 by-value removals, random path_required / tree extension / single Welcome / encrypted handshake, echo or apply), removal round, PSK (by value or by reference), group-context-extension, custom proposal, identity change, external-commit join, external-commit resync; cipher suite 1/2/3 and provider mix by history index; all-to-all application messages at the end.",
        "samples": [],
        "stats": stats,
        "histories": len(items),
    })
    if failing:
        run.violation("members that processed the same commits disagree, or a member could not follow", failing[:8])
    elif broken:
        run.violation("proof obligation or tie no longer checks: " + broken[0][0], [b[1] for b in broken], failing_input_found=False)
