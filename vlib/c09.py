"""C09 - members hold exactly the private keys they are entitled to, matching the tree.

Decision: theorems of coq/Props/C09.v (PrivOK preserved by the proposal step, decap, encap,
update_secrets, for every tree / member / committer / filter list).
Tie: for every commit of generated histories and every member (committer, receivers at every
distance, joiners) the positions at which the member holds a private key afterwards are
predicted by the Coq model (provisional_priv + decap_priv / encap_priv / join_priv on the tree
model) from the tree before, the applied proposals and the positions held before, and compared
with the member's real TreeKemPrivate.
Search oracles on the implementation: every stored private key opens an HPKE ciphertext sealed
to the public key of its node in the member's current tree (probe in the harness), no key at a
blank node or beyond the path; after a commit with a path every non-blank node of the
committer's direct path and its leaf carry keys that were not in the previous tree; a member
whose leaf key was replaced no longer holds the old leaf private key."""
import json
from concurrent.futures import ThreadPoolExecutor

from .common import *
from .histlib import HistGen, run_scripts, block_join_history, double_update_history, failed_apply_history
from .treelib import *


def direct_path(idx, tree_len):
    n = tree_len // 2 + 1
    cap = 1
    while cap < n:
        cap *= 2
    out, k = [], 1
    while (1 << k) <= cap:
        out.append((2 * (idx >> k) + 1) * (1 << k) - 1)
        k += 1
    return out


def bools(pr):
    return "[" + "; ".join("true" if x is not None else "false" for x in pr) + "]"


def keyid(n):
    return n.get("k", n.get("P")) if isinstance(n, dict) else None


def main(run, args):
    rng = Rng(run.seed)
    run.assumptions += [
        "a private key is identified with the public key it belongs to; that a stored key opens what is sealed to its node's key is probed with real HPKE seal/open in the harness (OpenSSL provider)",
        "Model/Priv.v is hand-written from group/mod.rs provisional_private_tree, tree_kem/kem.rs encap/decap, tree_kem/private.rs",
    ]
    broken = []
    build_translator()
    ok1, m1 = regen("treemath", "TreeMathGen.v")
    run.obligation("translate tree math", ok1)
    proofs_ok = False
    if ok1:
        proofs_ok, log = prove(run, "C09", extra_targets=["Model/KemCases.vo"])
    if not proofs_ok:
        broken.append(("proof", "Props/C09.v does not check; " + "; ".join(run.notes[-1:])))
    hok, herr = build_harness()
    if not hok:
        run.violation("harness build failed", herr, failing_input_found=False)
        return
    quick = run.tier == "quick"
    scripts = []
    for i in range(20 if quick else 160):
        g = HistGen(rng, n_pool=rng.choice([5, 8, 12]) if quick else rng.choice([5, 8, 12, 18]), name=f"c09-{i}")
        g.start()
        for r in range(8 if quick else 14):
            mode = (i + r) % 5
            if r < 2:
                g.round(app=False, n_props=0, by_value_adds=2 + rng.below(3), by_value_removes=0, path_required=rng.chance(1, 2))
            elif mode == 1:
                g.round(app=False, n_props=1 + rng.below(2), allow=("update",), by_value_adds=0, by_value_removes=0, path_required=True)
            elif mode == 2:
                g.round(app=False, n_props=0, by_value_adds=1 + rng.below(2), by_value_removes=0, path_required=False)
            elif mode == 3:
                g.round(app=False, n_props=1, allow=("remove", "update"), by_value_adds=rng.below(2), by_value_removes=1)
            else:
                g.round(app=False)
        scripts.append(g.script())
    # directed: a whole aligned block of leaves (a subtree) is removed and FEWER members are added by
    # the same commit, so the joiners' direct paths run over nodes whose copath subtree is blank
    # (filtered nodes) below, at and above the common ancestor with the committer; then members all
    # over the tree commit with a path and everybody, the joiners included, must follow
    for i in range(8 if quick else 60):
        g, _ = block_join_history(rng, i, f"c09-block-{i}", quick)
        scripts.append(g.script())
    # directed: a member sends two Update proposals in one epoch and the commit carries the first, the second
    # or (the committer's choice) one of both: the member must hold the leaf key of the committed one
    for i in range(6 if quick else 36):
        g, _ = double_update_history(rng, i, f"c09-dupd-{i}", quick)
        scripts.append(g.script())
    # directed: a member re-joins by an external commit that removes its old leaf and lands on an EARLIER
    # blank leaf: the old leaf's direct path is blanked, and the other members must drop the keys they
    # hold for those nodes (provisional_private_tree runs for external commits too)
    for i in range(6 if quick else 40):
        n = rng.choice([4, 5, 6, 8])
        g = HistGen(rng, n_pool=n + 1, name=f"c09-rejoin-{i}")
        g.start()
        g.round(app=False, n_props=0, by_value_adds=n - 1, by_value_removes=0, path_required=True, echo=False)
        order = list(g.in_group)
        mover = order[rng.choice(list(range(n // 2, n)))]             # somebody in the right half
        g.round_explicit(mover, n_adds=0, remove_names=[])             # the others learn keys of its path
        victim = order[rng.below(n // 2)]                              # an early leaf becomes blank
        g.round_explicit(rng.choice([m for m in g.in_group if m not in (victim, mover)]), n_adds=0, remove_names=[victim])
        w = rng.choice([m for m in g.in_group if m != mover])
        gi = g.fresh("gi")
        g.ops.append({"op": "group_info", "who": w, "id": gi, "ext_commit": True, "tree_ext": True})
        xc = g.fresh("xc")
        g.ops.append({"op": "ext_commit", "who": mover, "gi": gi, "id": xc, "remove_self": True})
        for m in g.in_group:
            if m != mover:
                g.ops.append({"op": "deliver", "to": m, "msg": xc})
        g.epoch += 1
        g.ops.append({"op": "observe", "who": w, "observe": "all"})
        g.round_explicit(rng.choice(g.in_group), n_adds=0, remove_names=[])
        scripts.append(g.script())
    # directed: the first storage call of applying an own commit fails.  The member is still the member of
    # the old epoch (its keys must fit the OLD tree), retries or clears and follows somebody else's commit,
    # then commits itself
    for i in range(6 if quick else 36):
        g, _ = failed_apply_history(rng, i, f"c09-failapply-{i}", quick)
        scripts.append(g.script())
    recs = run_scripts(scripts, timeout=2400)
    failing = []
    cases = []
    stats = {"receivers": 0, "committers": 0, "joiners": 0, "own_updates": 0, "probes": 0, "keys_dropped": 0, "max_distance": 0, "unmerged_receivers": 0}
    for sc, rs in zip(scripts, recs):
        meant = [r for r in rs if "i" in r and sc["ops"][r["i"]].get("may_fail")]
        if any(r.get("ok") for r in meant):
            stats["fault_not_reached"] = stats.get("fault_not_reached", 0) + 1
            continue
        stats["failed_applies"] = stats.get("failed_applies", 0) + len(meant)
        bad = [r for r in rs if (r.get("ok") is False and not sc["ops"][r["i"]].get("may_fail")) or r.get("crash")]
        if bad:
            failing.append({"what": "operation failed in a valid history", "script": sc["name"], "record": bad[0], "ops": sc["ops"][max(0, bad[0].get("i", 0) - 4):bad[0].get("i", 0) + 1]})
            continue
        # implementation oracle 1: every stored key fits its node
        for r in rs:
            for n, o in (r.get("obs") or {}).items():
                if not (o and o.get("group")) or o.get("observer"):
                    continue
                for k, v in enumerate(o.get("priv_ok", [])):
                    if v is None:
                        continue
                    stats["probes"] += 1
                    if v is not True:
                        failing.append({"what": f"member holds a private key that does not fit its node (position {k}: {v})", "script": sc["name"], "op": r["i"], "member": n, "priv_ok": o["priv_ok"]})
                if o.get("priv") and o["priv"][0] is None:
                    failing.append({"what": "member holds no private key for its own leaf", "script": sc["name"], "op": r["i"], "member": n})
        for c in commits_of(sc, rs):
            info, crec = c["info"], c["commit_rec"]
            has_path = crec["info"]["path"]
            cidx = info["committer"]
            rem, upd, add, path = commit_effect(info["detail"], cidx, c["committer"], has_path)
            before_tree = c["before"]
            afters = {n: o for n, o in c["after_obs"].items() if o and o.get("group") and not o.get("observer") and o["epoch"] == info["new_epoch"]}
            if not afters:
                continue
            after_tree = next(iter(afters.values()))["tree"]
            ctx = {"script": sc["name"], "op": c["op"], "effect": info["detail"], "path": has_path, "committer_leaf": cidx}
            # implementation oracle 2: fresh keys on the committer's path
            if has_path:
                old_keys = {keyid(n) for n in before_tree if isinstance(n, dict)}
                for ni in [2 * cidx] + direct_path(cidx, len(after_tree)):
                    if ni < len(after_tree) and isinstance(after_tree[ni], dict) and keyid(after_tree[ni]) in old_keys:
                        failing.append(dict(ctx, what=f"after a commit with a path, node {ni} of the committer's direct path still carries a key of the previous epoch", new_tree=after_tree))
            for n, o in afters.items():
                b = c["before_obs"].get(n)
                me = o["idx"]
                if b and b.get("group") and b["epoch"] == info["new_epoch"] - 1 and b["idx"] == me:
                    own = any(d["k"] == "update" and d.get("by") == me for d in info["detail"])
                    role = 1 if n == c["committer"] else 0
                    stats["committers" if role else "receivers"] += 1
                    stats["own_updates"] += 1 if own else 0
                    if not role and has_path:
                        lvl = (me ^ cidx).bit_length()
                        stats["max_distance"] = max(stats["max_distance"], lvl)
                    kept = sum(1 for x in b["priv"] if x is not None)
                    now = sum(1 for x in o["priv"] if x is not None)
                    if now < kept:
                        stats["keys_dropped"] += 1
                    cases.append((f"priv_case {coq_tree(before_tree)} {rem} {upd} {add} ({path}) {role} {me} {'true' if own else 'false'} {bools(b['priv'])} {bools(o['priv'])}",
                                  dict(ctx, member=n, leaf=me, role="committer" if role else "receiver", own_update=own, held_before=[x is not None for x in b["priv"]], held_after=[x is not None for x in o["priv"]], before_tree=before_tree)))
                    # implementation oracle 3: a replaced leaf key is gone
                    if (role and has_path) or own:
                        oldleaf = b["priv"][0]
                        if oldleaf is not None and oldleaf in [x for x in o["priv"] if x is not None]:
                            failing.append(dict(ctx, member=n, what="the member still holds the leaf private key it replaced"))
                elif not (b and b.get("group") and b["epoch"] == info["new_epoch"] - 1):
                    if any(d["k"] == "add" and d.get("id") == n for d in info["detail"]):
                        stats["joiners"] += 1
                        cases.append((f"join_case {coq_tree(after_tree)} {me} {cidx} {'true' if has_path else 'false'} {bools(o['priv'])}",
                                      dict(ctx, member=n, leaf=me, role="joiner", held_after=[x is not None for x in o["priv"]], new_tree=after_tree)))
    mism = []
    coq_cases = 0
    if model_ready(proofs_ok):
        nsh = 16
        shards = [cases[i::nsh] for i in range(nsh) if cases[i::nsh]]

        def shard(i, js):
            text = ("From Coq Require Import NArith List Bool.\nFrom MlsV Require Import Res Tree Kem Priv KemCases.\nImport ListNotations.\nLocal Open Scope N_scope.\n"
                    "Eval vm_compute in [" + ";\n".join(c[0] for c in js) + "].\n")
            return coq_eval_cases(f"C09_cases_{i}", text, timeout=1500)
        with ThreadPoolExecutor(max_workers=16) as ex:
            results = list(ex.map(lambda x: shard(*x), enumerate(shards)))
        for si, (nums, logtxt) in enumerate(results):
            if nums is None or len(nums) != len(shards[si]):
                broken.append(("correspondence", "Coq evaluation of the private-key model failed: " + (logtxt or "")[-600:]))
                continue
            for c, v in zip(shards[si], nums):
                coq_cases += 1
                if v != 0:
                    if v == 1:
                        # the model computes the entitled set (proved sound and complete): a member whose keys
                        # sit at other positions holds a key it is not entitled to or lacks one it is entitled to
                        failing.append(dict(c[1], what="the member does not hold exactly the private keys it is entitled to (positions differ from the entitled set computed by the model)", code=v))
                    else:
                        mism.append(dict(c[1], what="private-key model fails on this commit", code=v))
    run.obligation("correspondence: key positions of every member after every commit = model; every stored key opens what is sealed to its node", not mism and not failing and coq_cases > 0)
    if stats["receivers"] < 50 or stats["joiners"] < 10 or stats["own_updates"] < 3 or stats["keys_dropped"] < 3 or stats.get("failed_applies", 0) < 3:
        broken.append(("generator", f"degenerate histories: {stats}"))
    run.cov.update({
        "evaluations": len(cases) + stats["probes"],
        "distinct_nontrivial": len({c[0] for c in cases}),
        "rule": "generated histories (5-12, thorough 18 members, 8 or 14 commits: adds, removes, updates by reference, path and no-path commits); a case = (commit, member): committer, every receiver, every joiner; plus one HPKE seal/open probe per stored private key per observation.",
        "samples": [cases[0][1]] if cases else [],
        "stats": stats,
        "compared_with_model_in_coq": coq_cases,
        "histories": len(scripts),
    })
    if failing:
        run.violation("a member holds a private key it is not entitled to, or lacks / mismatches one", failing[:8])
    elif mism:
        run.violation("private-key model and implementation disagree", mism[:6], failing_input_found=False)
    elif broken:
        run.violation("proof obligation or tie no longer checks: " + broken[0][0], [b[1] for b in broken], failing_input_found=False)
