"""Shared machinery of the checks: build steps, Coq driver, evidence, verdict lines."""
import hashlib
import json
import os
import re
import subprocess
import sys
import time

VERIF = os.path.dirname(os.path.dirname(os.path.abspath(__file__)))
REPO = os.environ.get("VERIF_REPO", "/repo")
COQ = os.path.join(VERIF, "coq")
HARNESS = os.path.join(VERIF, "harness")
TRANSLATOR = os.path.join(VERIF, "translator")
MLSH = os.path.join(HARNESS, "target", "debug", "mlsh")
RS2V = os.path.join(TRANSLATOR, "target", "release", "rs2v")
ENV = dict(os.environ, CARGO_NET_OFFLINE="true")

FORBIDDEN = re.compile(
    r"\b(Admitted|admit|Axiom|Axioms|Parameter|Parameters|Conjecture|Admit Obligations|bypass_check)\b"
    r"|Unset\s+Guard|Unset\s+Positivity|Unset\s+Universe|type-in-type|impredicative-set|native_compute"
)
# axioms of the standard library a proof may depend on (none is needed so far)
ALLOWED_AXIOMS = set()


class Run:
    """One run of one property's check."""

    def __init__(self, pid, tier, level="proof"):
        self.pid = pid
        self.tier = tier
        self.level = level
        self.seed = int(os.environ.get("VERIF_SEED", "1") or "1")
        self.t0 = time.time()
        self.violations = []      # (replay_path, no_input_found:bool, text)
        self.known = []
        self.obligations = []     # (name, discharged:bool)
        self.cov = {}
        self.assumptions = []
        self.notes = []

    # ---- verdicts -------------------------------------------------------------------
    def violation(self, what, detail, failing_input_found=True):
        os.makedirs(os.path.join(VERIF, "replays"), exist_ok=True)
        h = hashlib.sha1(json.dumps([what, detail], sort_keys=True, default=str).encode()).hexdigest()[:10]
        path = os.path.join(VERIF, "replays", f"{self.pid}_{h}.json")
        with open(path, "w") as f:
            json.dump({"property": self.pid, "what": what, "detail": detail, "seed": self.seed,
                       "tier": self.tier, "failing_input_found": failing_input_found,
                       "replay_cmd": f"./check {self.pid} --replay {path}"}, f, indent=1, default=str)
        self.violations.append((path, not failing_input_found, what))

    def known_finding(self, text):
        self.known.append(text)

    def obligation(self, name, ok):
        self.obligations.append((name, bool(ok)))

    # ---- finish ---------------------------------------------------------------------
    def finish(self):
        wall = time.time() - self.t0
        cov = dict(self.cov)
        if self.level == "proof":
            cov.setdefault("obligations", max(1, len(self.obligations)))
            cov.setdefault("discharged", sum(1 for _, ok in self.obligations if ok))
            cov.setdefault("checker_cmd", f"make -C coq Props/{self.pid}.vo (coqc 8.16.1, full .vo build) + Print Assumptions scan")
            cov.setdefault("trusted_base", TRUSTED_BASE)
            cov["obligation_list"] = [{"name": n, "discharged": ok} for n, ok in self.obligations]
        ev = {
            "property_id": self.pid,
            "tier": self.tier,
            "seed": self.seed,
            "level": self.level,
            "coverage": cov,
            "assumptions": self.assumptions,
            "wall_s": round(wall, 2),
            "violations": len(self.violations),
            "known_findings": self.known,
            "notes": self.notes,
        }
        os.makedirs(os.path.join(VERIF, "evidence"), exist_ok=True)
        with open(os.path.join(VERIF, "evidence", f"{self.pid}.json"), "w") as f:
            json.dump(ev, f, indent=1, default=str)
        for k in self.known:
            print(f"KNOWN-FINDING: property={self.pid} {k}")
        seen = set()
        for path, noinput, what in self.violations:
            if path in seen:
                continue
            seen.add(path)
            tail = " no-failing-input-found" if noinput else ""
            print(f"VIOLATION property={self.pid} replay={path}{tail}")
        if self.violations:
            print(f"{self.pid}: FAIL ({len(seen)} violation(s)) in {wall:.1f}s")
            return 1
        print(f"{self.pid}: ok in {wall:.1f}s  ({len(self.obligations)} proof obligations, "
              f"{cov.get('evaluations', 0)} correspondence cases)")
        return 0


TRUSTED_BASE = [
    "Coq 8.16.1 kernel and vm_compute (no native_compute)",
    "no axioms: every pinned theorem prints 'Closed under the global context' (scanned on every run)",
    "translator /verif/translator (rs2v, syn 2) for Gen/*.v; cross-checked by running Gen/*.v against the implementation",
    "correspondence harness /verif/harness (mlsh) and /verif/vlib python orchestrator",
]


# ---- helpers ------------------------------------------------------------------------
def sh(cmd, cwd=None, timeout=1800, input=None, env=None):
    p = subprocess.run(cmd, cwd=cwd, timeout=timeout, input=input, capture_output=True, text=True,
                       env=env or ENV, shell=isinstance(cmd, str))
    return p.returncode, p.stdout, p.stderr


def write_if_changed(path, text):
    try:
        with open(path) as f:
            if f.read() == text:
                return False
    except FileNotFoundError:
        pass
    os.makedirs(os.path.dirname(path), exist_ok=True)
    with open(path, "w") as f:
        f.write(text)
    return True


def build_translator():
    rc, out, err = sh(["cargo", "build", "--offline", "--release", "-q"], cwd=TRANSLATOR)
    return rc == 0, err


def build_harness():
    """(Re)build the harness against /repo's current working tree, hooks on."""
    lock = os.path.join(HARNESS, "Cargo.lock")
    if not os.path.exists(lock):
        sh(["cp", os.path.join(REPO, "Cargo.lock"), lock])
    rc, out, err = sh(["cargo", "build", "--offline", "-q"], cwd=HARNESS, timeout=3000)
    return rc == 0, err[-4000:]


def regen(kind, outfile):
    """Run the translator; returns (ok, message). The output replaces coq/Gen/<outfile> only
    when its text changed, so that make stays incremental."""
    tmp = os.path.join(COQ, "Gen", "." + outfile + ".new")
    rc, out, err = sh([RS2V, kind, REPO, tmp])
    if rc != 0:
        # the stale model must not be mistaken for the current source: everything that depends on
        # this file stops building until the translation succeeds again
        write_if_changed(os.path.join(COQ, "Gen", outfile), "(* rs2v " + kind + " could not translate the current source *)\nTranslation_failed.\n")
        return False, (err or out)[-2000:]
    with open(tmp) as f:
        text = f.read()
    os.remove(tmp)
    changed = write_if_changed(os.path.join(COQ, "Gen", outfile), text)
    return True, "changed" if changed else "unchanged"


def coq_makefile():
    mk = os.path.join(COQ, "Makefile")
    proj = os.path.join(COQ, "_CoqProject")
    if not os.path.exists(mk) or os.path.getmtime(mk) < os.path.getmtime(proj):
        sh(["coq_makefile", "-f", "_CoqProject", "-o", "Makefile"], cwd=COQ)


def coq_make(targets, timeout=1500):
    """Full .vo build of the given targets. Returns (ok, log)."""
    coq_makefile()
    rc, out, err = sh(["make", "-j16"] + targets, cwd=COQ, timeout=timeout)
    return rc == 0, out + err


_MODEL_BUILT = False


def model_ready(proofs_ok):
    """The search for a failing input needs the executable model, not the proofs: when the proof
    build failed, (re)build every Model/*.v that still compiles (make -k), so that the generated
    cases can be evaluated against it.  Case files that need a model file which does not
    compile fail on their own and are reported as a broken correspondence."""
    global _MODEL_BUILT
    if proofs_ok:
        return True
    if not _MODEL_BUILT:
        _MODEL_BUILT = True
        coq_makefile()
        targets = sorted("Model/" + f + "o" for f in os.listdir(os.path.join(COQ, "Model")) if f.endswith(".v"))
        sh(["make", "-k", "-j16"] + targets, cwd=COQ, timeout=1500)
    return True


def scan_forbidden():
    """Text scan of the whole development for declarations that would weaken it."""
    bad = []
    for root, _, files in os.walk(COQ):
        for fn in files:
            if not fn.endswith(".v"):
                continue
            p = os.path.join(root, fn)
            text = open(p).read()
            text = re.sub(r"\(\*.*?\*\)", "", text, flags=re.S)
            for m in FORBIDDEN.finditer(text):
                bad.append(f"{os.path.relpath(p, COQ)}: {m.group(0)}")
    return bad


def props_theorems(pid):
    """Names of the pinned theorems in Props/<pid>.v."""
    text = open(os.path.join(COQ, "Props", f"{pid}.v")).read()
    return re.findall(r"^(?:Theorem|Lemma)\s+(\w+)", text, flags=re.M)


def check_props_shape(pid):
    """Props files hold statements only: every proof is `exact <lemma>` (or vm_compute for Examples)."""
    text = open(os.path.join(COQ, "Props", f"{pid}.v")).read()
    text = re.sub(r"\(\*.*?\*\)", "", text, flags=re.S)
    bad = []
    for m in re.finditer(r"^(Theorem|Lemma)\s+(\w+).*?Proof\.(.*?)Qed\.", text, flags=re.S | re.M):
        body = m.group(3).strip()
        if not re.fullmatch(r"exact\s+[\w.@ ()]+\.", body):
            bad.append(m.group(2))
    return bad


def prove(run, pid, extra_targets=()):
    """Build Props/<pid>.vo, record one obligation per pinned theorem, parse Print Assumptions."""
    # every generated file is brought up to date with /repo first, so that the proofs are always
    # checked against what the code says NOW, whatever ran before
    build_translator()
    for kind, outfile in (("treemath", "TreeMathGen.v"), ("codec", "CodecTypes.v"), ("effects", "ProcessEffects.v"), ("window", "WindowGen.v"), ("kem", "KemGen.v"), ("pathreq", "PathReqGen.v"), ("ratchet", "RatchetGen.v"), ("admission", "AdmissionGen.v"), ("resume", "ResumeGen.v"), ("privgen", "PrivGen.v"), ("nodevec", "NodeVecGen.v"), ("transcript", "TranscriptGen.v"), ("latesender", "LateSenderGen.v"), ("welcome", "WelcomeGen.v"), ("keysched", "KeySchedGen.v"), ("reinitrule", "ReinitGen.v"), ("hashcache", "HashCacheGen.v"), ("parenthash", "ParentHashGen.v"), ("varint", "VarIntGen.v")):
        okg, msg = regen(kind, outfile)
        if not okg:
            run.notes.append(f"translation ({kind}) failed: {msg[-300:]}")
    ok, log = coq_make([f"Props/{pid}.vo"] + list(extra_targets))
    names = props_theorems(pid)
    bad = scan_forbidden()
    shape = check_props_shape(pid)
    # Print Assumptions output is printed while compiling Props/<pid>.v; when the file was
    # already up to date recompile it alone to get the output (cheap).
    rc, out, err = sh(["coqc", "-Q", ".", "MlsV", "-w", "-all", f"Props/{pid}.v"], cwd=COQ, timeout=900) if ok else (1, "", "")
    closed = out.count("Closed under the global context")
    axioms = re.findall(r"^(\w[\w.']*)\s*:", out, flags=re.M) if "Axioms:" in out else []
    unexpected = [a for a in axioms if a not in ALLOWED_AXIOMS]
    all_ok = ok and rc == 0 and not bad and not shape and not unexpected
    for n in names:
        run.obligation(f"Props/{pid}.v:{n}", all_ok)
    run.cov["print_assumptions_closed"] = closed
    run.cov["axioms_reported"] = axioms
    if all_ok and run.tier == "thorough":
        # independent re-check of the compiled closure of the property file
        rc2, out2, err2 = sh(["coqchk", "-silent", "-o", "-Q", ".", "MlsV", f"MlsV.Props.{pid}"], cwd=COQ, timeout=1800)
        txt = out2 + err2
        chk_ok = rc2 == 0 and re.search(r"Axioms:\s*<none>", txt) is not None and "type-in-type: <none>" in txt
        run.obligation(f"coqchk -o MlsV.Props.{pid}: re-checked, Axioms <none>", chk_ok)
        run.cov["coqchk"] = "Axioms: <none>" if chk_ok else txt[-600:]
        all_ok = all_ok and chk_ok
    if bad:
        run.notes.append("forbidden declarations: " + "; ".join(bad))
    if shape:
        run.notes.append("Props file holds a proof script instead of `exact lemma`: " + ", ".join(shape))
    if not ok:
        m = re.search(r'File "([^"]+)", line (\d+).*?\n(Error:.*?)(?:\n\n|\Z)', log, flags=re.S)
        run.notes.append("proof build failed: " + (m.group(0)[:1500] if m else log[-1500:]))
    return all_ok, log


def coq_eval_cases(name, text, timeout=900):
    """Compile a generated cases file (which ends in `Eval vm_compute in <list N>`) and
    return the printed list of numbers."""
    d = os.path.join(COQ, "Cases")
    os.makedirs(d, exist_ok=True)
    p = os.path.join(d, f"{name}.v")
    with open(p, "w") as f:
        f.write(text)
    rc, out, err = sh(["coqc", "-noglob", "-Q", ".", "MlsV", "-w", "-all", f"Cases/{name}.v"], cwd=COQ, timeout=timeout)
    for ext in (".vo", ".vok", ".vos", ".glob"):
        try:
            os.remove(os.path.join(d, name + ext))
        except FileNotFoundError:
            pass
    if rc != 0:
        return None, (err or out)[-3000:]
    m = re.search(r"=\s*\[(.*?)\]\s*:\s*list", out, flags=re.S)
    if not m:
        return None, out[-3000:]
    body = m.group(1)
    nums = [int(x) for x in re.findall(r"\d+", body)]
    return nums, out


def nlist(xs):
    return "[" + "; ".join(str(x) for x in xs) + "]"


class Rng:
    """Tiny deterministic PRNG (splitmix64) so that every random choice derives from VERIF_SEED."""

    def __init__(self, seed):
        self.s = (seed * 0x9E3779B97F4A7C15 + 0x1234567) & 0xFFFFFFFFFFFFFFFF

    def next(self):
        self.s = (self.s + 0x9E3779B97F4A7C15) & 0xFFFFFFFFFFFFFFFF
        z = self.s
        z = ((z ^ (z >> 30)) * 0xBF58476D1CE4E5B9) & 0xFFFFFFFFFFFFFFFF
        z = ((z ^ (z >> 27)) * 0x94D049BB133111EB) & 0xFFFFFFFFFFFFFFFF
        return z ^ (z >> 31)

    def below(self, n):
        return self.next() % n

    def choice(self, xs):
        return xs[self.below(len(xs))]

    def chance(self, num, den):
        return self.below(den) < num

    def shuffle(self, xs):
        xs = list(xs)
        for i in range(len(xs) - 1, 0, -1):
            j = self.below(i + 1)
            xs[i], xs[j] = xs[j], xs[i]
        return xs

    def bytes(self, n):
        return bytes(self.below(256) for _ in range(n))


def load_known_findings():
    p = os.path.join(VERIF, "KNOWN_FINDINGS.json")
    if not os.path.exists(p):
        return []
    return json.load(open(p)).get("findings", [])
