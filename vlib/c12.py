"""C12 - wire codec.

Decision: the theorems of coq/Props/C12.v about the generic codec model (Model/Codec.v) and
the type table Gen/CodecTypes.v, which the translator regenerates from every derive'd type of
/repo on every run (so a changed field order / discriminant / `with` attribute re-checks
`all_types_wf`, `canonical_types` and, through the correspondence, the layout itself).
Tie: regeneration + correspondence: the model decodes (vm_compute in Coq) the same byte
strings as the implementation (mlsh codec): valid messages, trees and snapshots produced by
real group histories, and a malformed stream derived from them.
Search for a failing input: the property itself evaluated on the implementation's answers."""
import os
from concurrent.futures import ThreadPoolExecutor

from .common import *
from .histlib import HistGen, run_scripts

ERR = {"UnexpectedEOF": 1, "InvalidVarIntPrefix": 2, "VarIntMinimumLengthEncoding": 3, "OptionOutOfRange": 4,
       "UnsupportedEnumDiscriminant": 5, "InvalidContent": 6, "Custom1": 6, "Custom6": 7, "Custom2": 7}
HASHMAP_TYPES = {"ProposalCache", "TreeIndex", "TreeKemPublic", "GroupState", "NewEpoch", "CommitEffect",
                 "CommitMessageDescription", "EpochSecrets", "RawGroupState", "ExternalSnapshot", "PendingCommit",
                 "PriorEpoch", "Snapshot", "HashMap_u16_Vec_u8", "BTreeMap_u16_Vec_u8", "SecretKeyRatchet", "SecretTree", "SecretRatchets"}
PRIMS = ["VarInt", "bool", "u8", "u16", "u32", "u64", "Vec_u8", "Vec_u16", "Vec_Vec_u8", "Option_u8", "Option_Vec_u8",
         "Vec_Option_u8", "HashMap_u16_Vec_u8", "BTreeMap_u16_Vec_u8", "Array4", "LeafIndex"]


def corpus_scripts(rng, n):
    scripts = []
    for k in range(n):
        g = HistGen(rng, n_pool=4 + rng.below(5), name=f"c12-{k}", storage="mem")
        g.start()
        for _ in range(2 + rng.below(4)):
            g.round(observe=None)
        # leave something pending so that snapshots hold proposals / a pending commit
        if len(g.in_group) >= 2 and rng.chance(1, 2):
            u = rng.choice(g.in_group)
            pid = g.fresh("p")
            g.ops.append({"op": "propose", "who": u, "kind": "update", "id": pid})
            for m in g.in_group:
                if m != u:
                    g.ops.append({"op": "deliver", "to": m, "msg": pid})
            c = rng.choice([m for m in g.in_group if m != u])
            g.ops.append({"op": "commit", "who": c, "id": g.fresh("c")})
        # application messages delivered out of order: the receiver's snapshot then holds a message-key
        # ratchet with skipped keys in its history (a hand-written codec with a map inside)
        if len(g.in_group) >= 2 and k % 2 == 0:
            snd = rng.choice(g.in_group)
            aids = []
            for _ in range(2 + rng.below(3)):
                aid = g.fresh("a")
                g.ops.append({"op": "app", "who": snd, "id": aid, "data": "00" * rng.below(5)})
                aids.append(aid)
            for m in g.in_group:
                if m != snd and rng.chance(2, 3):
                    g.ops.append({"op": "deliver", "to": m, "msg": aids[-1]})
        w = rng.choice(g.in_group)
        gi = g.fresh("gi")
        in_ext = rng.chance(1, 2)
        g.ops.append({"op": "group_info", "who": w, "id": gi, "ext_commit": True, "tree_ext": in_ext})
        # an external commit: a PublicMessage whose sender is new_member_commit (no membership tag)
        if g.outsiders():
            xo = {"op": "ext_commit", "who": g.outsiders()[0], "gi": gi, "id": g.fresh("xc")}
            if not in_ext:
                xo["tree"] = gi + ".tree"
            g.ops.append(xo)
        scripts.append(g.script(dump_all=True))
    return scripts


def _varint(b, p):
    """QUIC-style variable-length integer at b[p]: (value, size) or None."""
    if p >= len(b):
        return None
    k = b[p] >> 6
    n = 1 << k
    if k == 3 or p + n > len(b):
        return None
    v = b[p] & 0x3f
    for i in range(1, n):
        v = (v << 8) | b[p + i]
    return v, n


def pending_commit_candidates(snap):
    """Snapshot = ... PendingCommitSnapshot SignatureSecretKey; variant 2 of PendingCommitSnapshot is
    `2 varint(len) bytes`.  Find the signer at the end, then the start of the variant by scanning."""
    out = []
    for slen in (32, 48, 57, 64, 66, 114):
        hdr = 1 if slen < 64 else 2
        send = len(snap) - slen - hdr
        if send <= 0:
            continue
        v = _varint(snap, send)
        if not v or v != (slen, hdr):
            continue
        for p in range(send - 2, max(0, send - 200000), -1):
            if snap[p] != 2:
                continue
            v = _varint(snap, p + 1)
            if v and p + 1 + v[1] + v[0] == send and v[0] > 100:
                out.append(bytes(snap[p + 1 + v[1]:send]))
                break
    return out[:1]


def inner_items(typ, b):
    """A few embedded values that can be cut out of a valid message without decoding it fully."""
    return []


def mutations(rng, typ, b, tier):
    out = []
    n = len(b)
    # truncations
    cuts = list(range(0, min(n, 48))) + [rng.below(n) for _ in range(12)] + [n - 1, n - 2] if n > 2 else list(range(n))
    for c in cuts:
        if 0 <= c < n:
            out.append(b[:c])
    # bit flips: every bit of the first 40 bytes, sampled bits elsewhere
    nflip = 40 if tier == "quick" else 160
    for byte in range(min(n, nflip)):
        for bit in (0, 3, 6, 7):
            m = bytearray(b)
            m[byte] ^= 1 << bit
            out.append(bytes(m))
    for _ in range(40 if tier == "quick" else 400):
        m = bytearray(b)
        i = rng.below(n)
        m[i] ^= 1 << rng.below(8)
        out.append(bytes(m))
    # length-prefix tampering: make some byte a huge or non-minimal varint
    for _ in range(12):
        i = rng.below(n)
        for pre in (b"\x40\x01", b"\x80\x00\x00\x05", b"\xbf\xff\xff\xff", b"\xc0", b"\x7f\xff"):
            out.append(b[:i] + pre + b[i + 1:])
    # trailing garbage (must not be consumed)
    out.append(b + b"\x00\x01\x02")
    return out


def prim_cases(rng):
    cs = []
    for v in [b"", b"\x00", b"\x01", b"\x02", b"\xff", b"\x3f", b"\x40\x3f", b"\x40\x40", b"\x7f\xff", b"\x80\x00\x3f\xff",
              b"\x80\x00\x40\x00", b"\xbf\xff\xff\xff", b"\xc0", b"\xff\xff\xff\xff", b"\x80\x00", b"\x40"]:
        cs.append(("VarInt", v))
    for t in PRIMS:
        for _ in range(60):
            cs.append((t, rng.bytes(rng.below(12))))
    for v in [b"\x00", b"\x01", b"\x02", b"\x80", b"\xff", b""]:
        cs.append(("bool", v))
        cs.append(("Option_u8", v + b"\x07"))
    # vectors: empty, exact, oversized length, items that consume nothing cannot exist for u8
    cs += [("Vec_u8", b"\x00"), ("Vec_u8", b"\x03abc"), ("Vec_u8", b"\x04abc"), ("Vec_u16", b"\x03\x00\x01\x02"),
           ("Vec_Vec_u8", b"\x04\x01a\x01b"), ("Vec_Vec_u8", b"\x03\x01a\x01"), ("Vec_Option_u8", b"\x03\x00\x01\x09"),
           ("Vec_Option_u8", b"\x02\x02\x09"), ("HashMap_u16_Vec_u8", b"\x08\x00\x02\x01a\x00\x01\x01b"),
           ("HashMap_u16_Vec_u8", b"\x08\x00\x01\x01a\x00\x01\x01b"), ("BTreeMap_u16_Vec_u8", b"\x08\x00\x02\x01a\x00\x01\x01b"),
           ("LeafIndex", b"\x00\xff\xff\xff"), ("LeafIndex", b"\x01\x00\x00\x00"), ("Array4", b"abc"), ("Array4", b"abcde"),
           ("Proposal", b"\x00\x00\x01\x00"), ("Proposal", b"\x00\x08\x01\x00"), ("Proposal", b"\xf0\x01\x02ab"),
           ("Credential", b"\x00\x01\x03abc"), ("Credential", b"\x00\x07\x03abc"), ("Credential", b"\x00\x02\x04\x03abc"),
           ("ExtensionList", b"\x08\x00\x01\x01a\x00\x01\x01b"), ("ExtensionList", b"\x08\x00\x02\x01a\x00\x01\x01b")]
    return cs


def parse_impl(line):
    t = line.split()
    if not t:
        return None
    if t[0] == "P":
        return {"kind": "panic"}
    if t[0] == "?":
        return {"kind": "unknown"}
    if t[0] == "E":
        return {"kind": "err", "err": t[1], "peak": int(t[2])}
    re = t[3]
    return {"kind": "ok", "consumed": int(t[1]), "len": int(t[2]), "reenc": None if re.startswith("!") else (b"" if re == "-" else bytes.fromhex(re)),
            "reenc_err": re[1:] if re.startswith("!") else None, "peak": int(t[4])}


def expected_list(o):
    if o["kind"] == "err":
        return [1, ERR.get(o["err"], 99)]
    if o["reenc"] is None:
        return [0, o["consumed"], o["len"], 0]
    return [0, o["consumed"], o["len"], 1] + list(o["reenc"])


def coq_shard(i, cases):
    items = ";\n".join(f'("{n}"%string, {mode}, "{b.hex()}"%string, {nlist(e[:4])}, "{bytes(e[4:]).hex()}"%string)' for n, mode, b, e in cases)
    text = ("From Coq Require Import NArith List String.\nFrom MlsV Require Import Codec CodecTypes CodecCases.\n"
            "Import ListNotations.\nLocal Open Scope N_scope.\n"
            f"Definition cases : list (string * N * string * list N * string) := [\n{items}\n].\n"
            "Eval vm_compute in (codec_mismatches cases).\n")
    return coq_eval_cases(f"C12_cases_{i}", text, timeout=1200)


def main(run, args):
    import time
    T0 = time.time()
    def lap(w):
        run.notes.append(f'{w}: {time.time()-T0:.1f}s')
    rng = Rng(run.seed)
    run.assumptions += [
        "generic codec semantics Model/Codec.v is hand-written from mls-rs-codec/src/*.rs and mls-rs-codec-derive; tied by correspondence on valid and malformed bytes",
        "hand-written codecs (Proposal, Credential, ExtensionList, PublicMessage, AuthenticatedContent, CommitEffect, SecretKeyRatchet, ProposalInfo, LeafIndex) are templates inside the translator",
        "heap behaviour is measured (counting allocator), not proved",
    ]
    broken = []
    ok, msg = build_translator()
    ok, msg = regen("codec", "CodecTypes.v")
    run.obligation("translate derive(MlsEncode/MlsDecode) items -> Gen/CodecTypes.v", ok)
    run.cov["gen_status"] = msg if ok else "translator refused the source"
    if not ok:
        broken.append(("translator", "rs2v codec refused /repo: " + msg))
    proofs_ok = False
    if ok:
        proofs_ok, log = prove(run, "C12", extra_targets=["Model/CodecCases.vo"])
        if not proofs_ok:
            broken.append(("proof", "Props/C12.v does not check against the regenerated Gen/CodecTypes.v; " + "; ".join(run.notes[-1:])))
    lap('proved')
    hok, herr = build_harness()
    if not hok:
        run.violation("harness build failed", herr, failing_input_found=False)
        return
    lap('harness')
    rc, out, err = sh([MLSH, "codec", "--list"])
    impl_types = set(out.split())
    # ---- corpus from real histories
    nhist = 10 if run.tier == "quick" else 60
    recs = run_scripts(corpus_scripts(rng, nhist))
    valid = []
    hist_errors = 0
    for rs in recs:
        for r in rs:
            if r.get("ok") is False or r.get("crash"):
                hist_errors += 1
            if "dump" in r:
                valid.append((r["type"], bytes.fromhex(r["hex"]), r["dump"]))
    # the pending commit inside a snapshot is stored as an opaque byte string: cut it out, so that its own codec
    # (PendingCommit -> CommitMessageDescription -> ProposalInfo / ProposalSource, hand-written) is exercised
    for t, b, name in list(valid):
        if t == "Snapshot":
            for inner in pending_commit_candidates(b):
                valid.append(("PendingCommit", inner, name + ".pending"))
    seen = set()
    uniq = []
    for t, b, name in valid:
        if (t, b) not in seen:
            seen.add((t, b))
            uniq.append((t, b, name))
    cases = [(t, b, "valid") for t, b, _ in uniq]
    # malformed stream
    per = 18 if run.tier == "quick" else 80
    kinds = {}
    for t, b, name in uniq:
        k = (t, name.split(".")[-1][:2] if "." in name else name[:1])
        kinds.setdefault(k, []).append((t, b))
    for k, lst in kinds.items():
        for t, b in lst[:2 if run.tier == "quick" else 6]:
            ms = mutations(rng, t, b, run.tier)
            for m in rng.shuffle(ms)[:per * 6]:
                cases.append((t, m, "mutated"))
    for t, b in prim_cases(rng):
        cases.append((t, b, "prim"))
    for _ in range(300 if run.tier == "quick" else 3000):
        cases.append((rng.choice(["MlsMessage", "ExportedTree", "Snapshot", "KeyPackage", "Proposal", "LeafNode"]), rng.bytes(rng.below(64)), "random"))
    cases = [c for c in cases if c[0] in impl_types]
    lap('cases')
    # ---- implementation
    inp = "".join(f"{t} {b.hex()}\n" for t, b, _ in cases)
    rc, out, err = sh([MLSH, "codec"], input=inp, timeout=1200)
    lines = out.split("\n")
    if rc != 0 or len(lines) < len(cases):
        run.violation("mlsh codec failed", err[-2000:], failing_input_found=False)
        return
    outs = [parse_impl(l) for l in lines[:len(cases)]]
    failing = []
    stats = {"ok": 0, "err": 0, "panic": 0}
    errkinds = {}
    maxratio = 0.0
    for (t, b, origin), o in zip(cases, outs):
        stats[o["kind"]] = stats.get(o["kind"], 0) + 1
        if o["kind"] == "panic":
            failing.append({"type": t, "hex": b.hex(), "problem": "decoder panicked"})
            continue
        if o["kind"] == "unknown":
            continue
        ratio = o["peak"] / (64.0 * len(b) + 65536)
        maxratio = max(maxratio, ratio)
        if ratio > 1:
            failing.append({"type": t, "hex": b.hex(), "problem": f"allocation {o['peak']} bytes for {len(b)} input bytes"})
        if o["kind"] == "err":
            errkinds[o["err"]] = errkinds.get(o["err"], 0) + 1
            if origin == "valid":
                failing.append({"type": t, "hex": b.hex(), "problem": "a value produced by the library does not decode: " + o["err"]})
            continue
        if o["consumed"] > len(b):
            failing.append({"type": t, "hex": b.hex(), "problem": "consumed more than the input"})
        if o["reenc"] is None:
            failing.append({"type": t, "hex": b.hex(), "problem": "decoded value cannot be encoded: " + str(o["reenc_err"])})
            continue
        if o["len"] != len(o["reenc"]):
            failing.append({"type": t, "hex": b.hex(), "problem": f"mls_encoded_len {o['len']} != bytes written {len(o['reenc'])}"})
        if origin == "valid" and o["consumed"] != len(b):
            failing.append({"type": t, "hex": b.hex(), "problem": "a value produced by the library is not consumed exactly"})
        if o["reenc"] != b[:o["consumed"]]:
            if t in HASHMAP_TYPES and len(o["reenc"]) == o["consumed"] or (t in HASHMAP_TYPES and origin != "valid"):
                run.cov["f7b_seen"] = run.cov.get("f7b_seen", 0) + 1
            else:
                failing.append({"type": t, "hex": b.hex(), "problem": "re-encoding differs from the bytes consumed", "reenc": o["reenc"].hex()})
    lap('impl')
    # ---- model (Coq) on the same bytes
    mism = []
    coq_cases = 0
    if ok and os.path.exists(os.path.join(COQ, "Model", "CodecCases.vo")):
        alias = {"CachedProposal": "message_processor_CachedProposal"}
        allc = [(alias.get(t, t), 1 if t in HASHMAP_TYPES else 0, b, expected_list(o), origin) for (t, b, origin), o in zip(cases, outs) if o["kind"] in ("ok", "err")]
        # the model is evaluated inside Coq: every valid value, every primitive case, and a
        # byte-budgeted sample of the malformed stream (short inputs first)
        budget = 1_500_000 if run.tier == "quick" else 8_000_000
        cc = [c[:4] for c in allc if c[4] in ("valid", "prim", "random")]
        rest = sorted([c for c in allc if c[4] == "mutated"], key=lambda c: len(c[2]))
        used = sum(len(c[2]) for c in cc)
        for c in rng.shuffle(rest[:len(rest) // 2]) + rest[len(rest) // 2:]:
            if used + len(c[2]) > budget:
                continue
            used += len(c[2])
            cc.append(c[:4])
        cc.sort(key=lambda c: len(c[2]))
        # bounded files: a coqc process needs about 0.5 MB per case, so the cases are cut into
        # chunks of at most 400 cases / 150 kB and at most 10 coqc processes run at a time
        shards, cur, cur_b = [], [], 0
        for c in cc:
            if cur and (len(cur) >= 400 or cur_b + len(c[2]) > 150_000):
                shards.append(cur)
                cur, cur_b = [], 0
            cur.append(c)
            cur_b += len(c[2])
        if cur:
            shards.append(cur)
        with ThreadPoolExecutor(max_workers=10) as ex:
            results = list(ex.map(lambda x: coq_shard(*x), enumerate(shards)))
        for si, (nums, log) in enumerate(results):
            if nums is None:
                broken.append(("correspondence", "Coq evaluation of the codec model failed: " + log[-800:]))
                continue
            coq_cases += len(shards[si])
            for idx in nums:
                t, mode, b, e = shards[si][idx]
                mism.append({"type": t, "hex": b.hex(), "implementation": e[:8]})
    lap('coq')
    run.obligation("correspondence codec model (vm_compute) = implementation on all byte strings", not mism and coq_cases > 0)
    for kf in load_known_findings():
        if kf.get("property") == "C12" and kf.get("status") == "open" and run.cov.get("f7b_seen"):
            run.known_finding(kf["id"] + " " + kf["what"])
    by_type = {}
    for t, b, o in cases:
        by_type[t] = by_type.get(t, 0) + 1
    run.cov.update({
        "evaluations": len(cases),
        "distinct_nontrivial": len({(t, b) for t, b, _ in cases}),
        "rule": "valid = every MlsMessage (key packages, public and private proposals/commits, Welcome, GroupInfo, application messages), exported tree and Snapshot produced by generated group histories; malformed = truncations, bit flips, oversized / non-minimal length prefixes and trailing garbage derived from them, random bytes and primitive edge cases. Distinct = distinct (type, byte string).",
        "samples": [{"type": t, "hex": b.hex()[:120], "origin": o} for t, b, o in cases[:3] + cases[len(cases) // 2:len(cases) // 2 + 3]],
        "origin_histogram": {k: sum(1 for c in cases if c[2] == k) for k in ("valid", "mutated", "prim", "random")},
        "type_histogram": by_type,
        "implementation_outcomes": stats,
        "implementation_error_kinds": errkinds,
        "max_peak_alloc_over_bound": round(maxratio, 4),
        "compared_with_model_in_coq": coq_cases,
        "history_errors": hist_errors,
        "valid_values": len(uniq),
    })
    if stats.get("ok", 0) < 50 or stats.get("err", 0) < 50:
        run.violation("degenerate input distribution", run.cov["implementation_outcomes"], failing_input_found=False)
    if failing:
        run.violation("implementation violates the codec property on a concrete byte string", failing[:20])
    elif mism:
        run.violation("codec model and implementation disagree on a byte string (layout or decoding rule changed)", mism[:20], failing_input_found=False)
    elif broken:
        run.violation("proof obligation or tie no longer checks: " + broken[0][0], [b[1] for b in broken], failing_input_found=False)
