"""C02 - only current members can follow the group; secrets go only to entitled keys.

Decision: theorems of coq/Props/C02.v (unmerged-leaf invariant of every reachable tree, HPKE
recipients of path secrets, admission by epoch).
Tie: (a) for every commit of generated histories the recording crypto provider lists the public
keys the library sealed to; `encap_recipients` is evaluated in Coq on the committer's new tree
and must give exactly those keys (by node), the remaining seals must be exactly the init keys of
the key packages added by this commit; (b) removed members (their retained group) and a member
replaced by its own external commit are fed every later message of the group: every one must be
refused, with the verdict the admission model (evaluated in Coq) predicts, their epoch and
secrets must stay where they were."""
import json
from concurrent.futures import ThreadPoolExecutor

from .common import *
from .histlib import HistGen, run_scripts
from .treelib import *

ERR = {1: "ProtocolVersionMismatch", 2: "GroupIdMismatch", 3: "InvalidEpoch", 4: "UnencryptedApplicationMessage", 5: "EpochNotFound"}


def gen_history(rng, i, quick):
    g = HistGen(rng, n_pool=rng.choice([6, 8, 10]) if quick else rng.choice([6, 8, 10, 16]), name=f"c02-{i}",
                storage=rng.choice(["mem", "sqlite"]), retention=rng.choice([1, 3]))
    g.start()
    created = []   # (op index of creation, message id, epoch, kind, cipher)
    removed_at = {}
    nrounds = 7 if quick else 12
    for r in range(nrounds):
        n0 = len(g.ops)
        enc = rng.chance(1, 2)
        before = list(g.in_group)
        mode = (i + r) % 5
        if r < 2:
            info = g.round(n_props=0, by_value_adds=2, by_value_removes=0, encrypt=enc, path_required=rng.chance(1, 2))
        elif mode == 0:
            info = g.round(n_props=1 + rng.below(2), allow=("remove",), by_value_adds=0, by_value_removes=1, encrypt=enc)
        elif mode == 1:
            info = g.round(n_props=rng.below(2), allow=("update",), by_value_adds=1, by_value_removes=1, encrypt=enc, path_required=True)
        elif mode == 2:
            info = g.round(n_props=0, by_value_adds=1 + rng.below(2), by_value_removes=0, encrypt=enc, path_required=False)
        else:
            info = g.round(encrypt=enc)
        if not info:
            continue
        for k in range(n0, len(g.ops)):
            o = g.ops[k]
            if o["op"] == "propose":
                created.append((k, o["id"], g.epoch - 1, "proposal", enc))
            elif o["op"] == "commit":
                created.append((k, o["id"], g.epoch - 1, "commit", enc))
            elif o["op"] == "app":
                created.append((k, o["id"], g.epoch, "app", True))
        for t in info["removes"]:
            removed_at[t] = (len(g.ops), g.epoch)
        if rng.chance(1, 3) and g.in_group:
            g.ops.append({"op": "save", "who": rng.choice(g.in_group)})
    # a proposal of the CURRENT epoch by a non-member (NewMemberProposal: no membership tag, the signature
    # does not cover the group context - only the epoch check keeps a removed party from caching it)
    if g.outsiders() and g.in_group and removed_at:
        gi = g.fresh("gi")
        g.ops.append({"op": "group_info", "who": rng.choice(g.in_group), "id": gi, "ext_commit": False, "tree_ext": True})
        xa = g.fresh("p")
        g.ops.append({"op": "ext_add", "who": g.outsiders()[0], "gi": gi, "id": xa})
        created.append((len(g.ops) - 1, xa, g.epoch, "proposal", False))
    final_observe = len(g.ops) - 1
    # feed every later message to every removed party
    stale = []   # (op index, party, message tuple)
    for t, (pos, ep) in removed_at.items():
        for c in created:
            if c[0] > pos or (c[2] >= ep):
                g.ops.append({"op": "deliver", "to": t, "msg": c[1]})
                stale.append((len(g.ops) - 1, t, c))
    g.ops.append({"op": "observe", "who": g.in_group[0], "observe": "all"})
    return g.script(), stale, removed_at


def unmerged_history(rng, i):
    """Directed: 11 leaves, the 11th commits with a path (sets the parent over leaves 8..11), a
    12th member is added without a path (unmerged under that parent), then somebody on the left
    commits with a path: the unmerged leaf sits in a copath resolution next to its parent."""
    g = HistGen(rng, n_pool=14, name=f"c02-u{i}", storage="mem", retention=3)
    g.start()
    created, removed_at = [], {}
    a = g.round(n_props=0, by_value_adds=5, by_value_removes=0, app=False, encrypt=False, path_required=False)
    b = g.round(n_props=0, by_value_adds=5, by_value_removes=0, app=False, encrypt=False, path_required=False, committer=g.pool[0])
    last = b["adds"][-1]
    g.round(n_props=0, by_value_adds=0, by_value_removes=0, app=False, encrypt=False, path_required=True, committer=last)
    g.round(n_props=0, by_value_adds=1, by_value_removes=0, app=False, encrypt=False, path_required=False, committer=rng.choice(g.in_group))
    left = [m for m in a["adds"][:3]] + [g.pool[0]]
    g.round(n_props=0, by_value_adds=0, by_value_removes=0, app=False, encrypt=False, path_required=True, committer=rng.choice(left))
    # a removal next to the unmerged leaf, committed from the left again
    victim = rng.choice(b["adds"][2:])
    n0 = len(g.ops)
    g.ops.append({"op": "opts", "who": left[0], "path_required": True, "encrypt_controls": False})
    info = g.round(n_props=0, by_value_adds=rng.below(2), by_value_removes=0, app=True, encrypt=False, committer=rng.choice(left))
    for r in range(3):
        n0 = len(g.ops)
        info = g.round(n_props=1, allow=("remove", "update"), by_value_adds=rng.below(2), by_value_removes=rng.below(2), encrypt=False)
        for k in range(n0, len(g.ops)):
            o = g.ops[k]
            if o["op"] == "propose":
                created.append((k, o["id"], g.epoch - 1, "proposal", False))
            elif o["op"] == "commit":
                created.append((k, o["id"], g.epoch - 1, "commit", False))
            elif o["op"] == "app":
                created.append((k, o["id"], g.epoch, "app", True))
        for t in info["removes"]:
            removed_at[t] = (len(g.ops), g.epoch)
    stale = []
    for t, (pos, ep) in removed_at.items():
        for c in created:
            if c[0] > pos or (c[2] >= ep):
                g.ops.append({"op": "deliver", "to": t, "msg": c[1]})
                stale.append((len(g.ops) - 1, t, c))
    g.ops.append({"op": "observe", "who": g.in_group[0], "observe": "all"})
    return g.script(), stale, removed_at


def replaced_history(rng, i):
    """A member re-joins by an external commit that removes its old leaf; its OLD instance
    (restored from storage) is then fed the later traffic."""
    g = HistGen(rng, n_pool=5, name=f"c02-x{i}", storage=rng.choice(["mem", "sqlite"]), retention=3)
    g.start()
    g.round(n_props=0, by_value_adds=3, by_value_removes=0, app=False, encrypt=False)
    g.round(n_props=1, allow=("update",), by_value_adds=0, by_value_removes=0, app=False, encrypt=False)
    x = rng.choice([m for m in g.in_group])
    other = [m for m in g.in_group if m != x]
    g.ops.append({"op": "save", "who": x})
    w = rng.choice(other)
    gi = g.fresh("gi")
    g.ops.append({"op": "group_info", "who": w, "id": gi, "ext_commit": True, "tree_ext": True})
    ec = g.fresh("xc")
    g.ops.append({"op": "ext_commit", "who": x, "gi": gi, "id": ec, "remove_self": True})
    for m in other:
        g.ops.append({"op": "deliver", "to": m, "msg": ec})
    created = [(len(g.ops), ec, g.epoch, "commit", False)]
    g.epoch += 1
    a = g.fresh("a")
    s = rng.choice(other)
    g.ops.append({"op": "app", "who": s, "id": a, "data": "aa"})
    for m in g.in_group:
        if m != s:
            g.ops.append({"op": "deliver", "to": m, "msg": a})
    created.append((len(g.ops), a, g.epoch, "app", True))
    c2 = g.fresh("c")
    g.ops.append({"op": "opts", "who": s, "encrypt_controls": False, "path_required": True})
    g.ops.append({"op": "commit", "who": s, "id": c2})
    for m in g.in_group:
        if m != s:
            g.ops.append({"op": "deliver", "to": m, "msg": c2})
    g.ops.append({"op": "apply", "who": s})
    created.append((len(g.ops), c2, g.epoch, "commit", False))
    g.epoch += 1
    g.ops.append({"op": "observe", "who": s, "observe": "all"})
    # the old instance comes back from storage
    g.ops.append({"op": "load", "who": x})
    stale = []
    # the commit that removes it is of ITS epoch: it is processed and reports the removal
    g.ops.append({"op": "deliver", "to": x, "msg": ec, "expect_effect": "removed"})
    for c in created[1:]:
        g.ops.append({"op": "deliver", "to": x, "msg": c[1]})
        stale.append((len(g.ops) - 1, x, c))
    g.ops.append({"op": "observe", "who": x, "observe": "all"})
    return g.script(), stale, {x: (0, 2)}


def custom_remove_history(rng, i):
    """Removals (by value and by reference) committed together with a custom proposal for which the
    application's rules ask for no update path: the removal alone must force the path."""
    n = rng.choice([3, 4, 5])
    g = HistGen(rng, n_pool=n + 2, name=f"c02-cr{i}", storage="mem")
    g.start()
    for m in g.pool:
        g.ops.append({"op": "opts", "who": m, "custom_needs_path": False})
    g.round(n_props=0, by_value_adds=n - 1, by_value_removes=0, app=False, encrypt=False, observe="all")
    ops = g.ops
    for r in range(2):
        if len(g.in_group) < 3:
            break
        c = rng.choice(g.in_group)
        gone = rng.choice([m for m in g.in_group if m != c])
        for m in g.in_group:
            ops.append({"op": "opts", "who": m, "path_required": False, "encrypt_controls": False, "tree_ext": True})
        cid = g.fresh("c")
        o = {"op": "commit", "who": c, "id": cid, "custom": "c0%02x" % r}
        if rng.chance(1, 2):
            o["remove_names"] = [gone]
        else:
            p_ = rng.choice([m for m in g.in_group if m not in (gone,)])
            pid = g.fresh("p")
            ops.append({"op": "propose", "who": p_, "kind": "remove", "name": gone, "id": pid})
            for m in g.in_group:
                if m != p_:
                    ops.append({"op": "deliver", "to": m, "msg": pid})
        ops.append(o)
        for m in g.in_group:
            if m != c:
                ops.append({"op": "deliver", "to": m, "msg": cid})
        ops.append({"op": "apply", "who": c})
        g.in_group.remove(gone)
        g.removed.append(gone)
        g.epoch += 1
        g.commit_ids.append(cid)
        ops.append({"op": "observe", "who": c, "observe": "all"})
    return g.script(), [], {}


def dup_remove_history(rng, i):
    """Several members propose the removal of the SAME member; the committer's cache holds all of these proposals
    and its commit removes a further member (by value or by another cached proposal).  Every removed member is
    out of the new tree and no secret of the commit is sealed to a key of theirs."""
    n = rng.choice([5, 6, 7])
    g = HistGen(rng, n_pool=n + 1, name=f"c02-dr{i}", storage="mem")
    g.start()
    g.round(n_props=0, by_value_adds=n - 1, by_value_removes=0, app=False, encrypt=False, observe="all")
    ops = g.ops
    for r in range(2):
        if len(g.in_group) < 5:
            break
        c = rng.choice(g.in_group)
        d_, e_ = rng.shuffle([m for m in g.in_group if m != c])[:2]
        proposers = rng.shuffle([m for m in g.in_group if m not in (d_, e_)])[:2 + rng.below(2)]
        for m in g.in_group:
            ops.append({"op": "opts", "who": m, "encrypt_controls": False, "tree_ext": True})
        by_ref_e = (i + r) % 2 == 1
        plan = [(p_, d_) for p_ in proposers]
        if by_ref_e:
            plan.append((rng.choice([m for m in g.in_group if m not in (d_, e_)]), e_))
        for p_, target in plan:
            pid = g.fresh("p")
            ops.append({"op": "propose", "who": p_, "kind": "remove", "name": target, "id": pid})
            for m in g.in_group:
                if m != p_:
                    ops.append({"op": "deliver", "to": m, "msg": pid})
        cid = g.fresh("c")
        o = {"op": "commit", "who": c, "id": cid}
        if not by_ref_e:
            o["remove_names"] = [e_]
        ops.append(o)
        for m in g.in_group:
            if m != c:
                ops.append({"op": "deliver", "to": m, "msg": cid})
        ops.append({"op": "apply", "who": c})
        for t in (d_, e_):
            g.in_group.remove(t)
            g.removed.append(t)
        g.epoch += 1
        g.commit_ids.append(cid)
        ops.append({"op": "observe", "who": c, "observe": "all"})
        g.round_explicit(rng.choice(g.in_group), n_adds=0, remove_names=[])
    return g.script(), [], {}


def main(run, args):
    rng = Rng(run.seed)
    run.assumptions += [
        "HPKE recipients are what the recording provider sees in hpke_seal (every seal of the library goes through CipherSuiteProvider)",
        "public keys are identified with tree nodes by equality of key bytes; fresh keys do not collide",
        "secrecy against a party that breaks HPKE/AEAD is outside the model: the theorems are about WHO is encrypted to and WHAT is admitted",
    ]
    broken = []
    build_translator()
    ok1, m1 = regen("treemath", "TreeMathGen.v")
    run.obligation("translate tree math", ok1)
    proofs_ok = False
    if ok1:
        proofs_ok, log = prove(run, "C02", extra_targets=["Model/KemCases.vo"])
    if not proofs_ok:
        broken.append(("proof", "Props/C02.v does not check; " + "; ".join(run.notes[-1:])))
    hok, herr = build_harness()
    if not hok:
        run.violation("harness build failed", herr, failing_input_found=False)
        return
    quick = run.tier == "quick"
    scripts, stales, removed = [], [], []
    for i in range(20 if quick else 160):
        sc, st, rm = gen_history(rng, i, quick)
        scripts.append(sc); stales.append(st); removed.append(rm)
    for i in range(6 if quick else 40):
        sc, st, rm = unmerged_history(rng, i)
        scripts.append(sc); stales.append(st); removed.append(rm)
    for i in range(4 if quick else 24):
        sc, st, rm = replaced_history(rng, i)
        scripts.append(sc); stales.append(st); removed.append(rm)
    for i in range(6 if quick else 40):
        sc, st, rm = custom_remove_history(rng, i)
        scripts.append(sc); stales.append(st); removed.append(rm)
    for i in range(6 if quick else 40):
        sc, st, rm = dup_remove_history(rng, i)
        scripts.append(sc); stales.append(st); removed.append(rm)
    recs = run_scripts(scripts, timeout=2400)
    failing = []
    recip_cases, adm_cases = [], []
    stats = {"commits_with_path": 0, "seals": 0, "welcome_seals": 0, "removed_parties": 0, "stale_deliveries": 0, "with_blank_in_copath": 0, "with_unmerged": 0, "adds_with_path": 0}
    for sc, st, rm, rs in zip(scripts, stales, removed, recs):
        if any(r.get("crash") for r in rs):
            failing.append({"what": "history interpreter crashed", "script": sc["name"], "stderr": [r.get("stderr") for r in rs if r.get("crash")][:1]})
            continue
        byi = {r["i"]: r for r in rs if "i" in r}
        stale_idx = {k for k, _, _ in st}
        bad = [r for r in rs if r.get("ok") is False and r["i"] not in stale_idx]
        if bad:
            failing.append({"what": "operation failed in a valid history", "script": sc["name"], "record": bad[0], "ops": sc["ops"][max(0, bad[0]["i"] - 4):bad[0]["i"] + 1]})
            continue
        # ---- (a) HPKE recipients of every commit
        init_of = {}
        for r in rs:
            o = sc["ops"][r["i"]] if "i" in r and r["i"] < len(sc["ops"]) else {}
            if o.get("op") == "kp" and r.get("ok"):
                init_of[o["who"]] = r["info"].get("init")
        for c in commits_of(sc, rs):
            info, crec = c["info"], c["commit_rec"]
            afters = [(n, o) for n, o in c["after_obs"].items() if o and o.get("group") and not o.get("observer") and o["epoch"] == info["new_epoch"]]
            if not afters:
                continue
            after = afters[0][1]["tree"]
            seals = list(crec.get("hpke_seal_to", []))
            stats["seals"] += len(seals)
            added = [d["id"] for d in info["detail"] if d["k"] == "add"]
            # Welcome seals: exactly one per added key package, to its init key
            welcome_expected = sorted(init_of.get(a) for a in added)
            node_of = {}
            for ni, n in enumerate(after):
                if isinstance(n, dict):
                    node_of[n.get("k", n.get("P"))] = ni
            # keys of the OLD tree, to name an offender
            old_node_of = {}
            for ni, n in enumerate(c["before"]):
                if isinstance(n, dict):
                    old_node_of[n.get("k", n.get("P"))] = (ni, n.get("L"))
            rest = list(seals)
            for w in welcome_expected:
                if w in rest:
                    rest.remove(w)
                else:
                    failing.append({"what": "no Welcome secrets were sealed to the init key of an added key package", "script": sc["name"], "op": crec["i"]})
            stats["welcome_seals"] += len(welcome_expected)
            ctx = {"script": sc["name"], "op": crec["i"], "committer": c["committer"], "effect": info["detail"], "new_tree": after}
            unknown = [s for s in rest if s not in node_of]
            if unknown:
                offenders = [old_node_of.get(s) for s in unknown]
                failing.append(dict(ctx, what="a secret was sealed to a key that is not in the new tree (node index, member in the OLD tree): " + json.dumps(offenders)))
                continue
            if not crec["info"]["path"]:
                kinds_applied = [d["k"] for d in info["detail"]]
                if not kinds_applied or any(k in ("remove", "update", "gce", "extinit") for k in kinds_applied):
                    failing.append(dict(ctx, what="a commit that removes / updates a member (or changes the context, or is empty) carries NO update path: nothing is re-keyed, the removed member can compute the secrets of the new epoch"))
                if rest:
                    failing.append(dict(ctx, what="HPKE seals without an update path"))
                continue
            stats["commits_with_path"] += 1
            if added:
                stats["adds_with_path"] += 1
            if any(isinstance(n, dict) and n.get("u") for n in after):
                stats["with_unmerged"] += 1
            if "_" in after[0::2]:
                stats["with_blank_in_copath"] += 1
            roster = dict((n, i) for i, n in afters[0][1]["roster"])
            excl = [roster[a] for a in added if a in roster]
            exp_nodes = sorted(node_of[s] for s in rest)
            recip_cases.append((f"recip_case {coq_tree(after)} {info['committer']} {nlist(excl)} {nlist(exp_nodes)}", dict(ctx, sealed_to_nodes=exp_nodes, added_leaves=excl)))
        for r in rs:
            o = sc["ops"][r["i"]] if "i" in r and r["i"] < len(sc["ops"]) else {}
            if o.get("expect_effect") and (r.get("info") or {}).get("effect") != o["expect_effect"]:
                failing.append({"what": "the replaced instance does not see its own removal", "script": sc["name"], "record": r})
        # ---- (b) stale parties
        fin = [r for r in rs if "obs" in r][-1]["obs"] if any("obs" in r for r in rs) else {}
        for (k, party, (pos, mid, mepoch, kind, cipher)) in st:
            r = byi.get(k, {})
            stats["stale_deliveries"] += 1
            ctx = {"script": sc["name"], "op": k, "party": party, "message": mid, "message_epoch": mepoch, "kind": kind}
            if r.get("ok") is not False:
                failing.append(dict(ctx, what="a removed / replaced party processed a message of a later epoch", result=r.get("info")))
                continue
            if r.get("err") == "PANIC":
                failing.append(dict(ctx, what="panic while a removed party processes later traffic"))
                continue
            o = fin.get(party) or {}
            if o.get("group"):
                ct = {"app": "CtApplication", "proposal": "CtProposal", "commit": "CtCommit"}[kind]
                stored = o.get("stored_epochs") or []
                adm_cases.append((f"adm_case {o['epoch']} {nlist(stored)} {mepoch} {ct} {'true' if cipher else 'false'}", dict(ctx, party_epoch=o["epoch"], err=r.get("err"))))
        for party, (pos, ep) in rm.items():
            o = fin.get(party) or {}
            if not o.get("group"):
                continue
            stats["removed_parties"] += 1
            cur = [x for n, x in fin.items() if x and x.get("group") and n != party and x["epoch"] > o["epoch"]]
            if any(x.get("auth") == o.get("auth") or x.get("exp") == o.get("exp") for x in cur):
                failing.append({"what": "a removed party holds the epoch authenticator / exported secret of a later epoch", "script": sc["name"], "party": party})
            if cur and o["epoch"] >= max(x["epoch"] for x in cur):
                failing.append({"what": "a removed party advanced with the group", "script": sc["name"], "party": party, "epoch": o["epoch"]})
    # ---- Coq evaluation
    mism = []
    coq_cases = 0
    if model_ready(proofs_ok):
        jobs = [("R", c) for c in recip_cases] + [("A", c) for c in adm_cases]
        nsh = 16
        shards = [jobs[i::nsh] for i in range(nsh) if jobs[i::nsh]]

        def shard(i, js):
            text = ("From Coq Require Import NArith List Bool.\nFrom MlsV Require Import Res Tree Kem KemCases Admission.\nImport ListNotations.\nLocal Open Scope N_scope.\n"
                    "Definition adm_case (e : N) (stored : list N) (me : N) (ct : ctype) (cipher : bool) : N :=\n"
                    "  match admission {| av_version_ok := true; av_gid := 1; av_epoch := e; av_min := None; av_stored := stored |} 1 me ct cipher with\n"
                    "  | AOk => 0 | AVersionMismatch => 1 | AGroupIdMismatch => 2 | AInvalidEpoch => 3 | AUnencryptedApplication => 4 | AEpochNotFound => 5 end.\n"
                    "Eval vm_compute in [" + ";\n".join(c[0] for _, c in js) + "].\n")
            return coq_eval_cases(f"C02_cases_{i}", text, timeout=1500)
        with ThreadPoolExecutor(max_workers=16) as ex:
            results = list(ex.map(lambda x: shard(*x), enumerate(shards)))
        for si, (nums, logtxt) in enumerate(results):
            if nums is None or len(nums) != len(shards[si]):
                broken.append(("correspondence", "Coq evaluation of the recipient / admission model failed: " + (logtxt or "")[-600:]))
                continue
            for (kind, c), v in zip(shards[si], nums):
                coq_cases += 1
                if kind == "R" and v != 0:
                    failing.append(dict(c[1], what="the keys the commit sealed path secrets to are not the copath resolutions of the new tree minus the added leaves (model: encap_recipients)" if v == 1 else "recipient model fails on the new tree"))
                if kind == "A":
                    if v == 0:
                        mism.append(dict(c[1], what="admission model admits a later-epoch message that the library refused", model="AOk"))
                    elif ERR.get(v) != c[1]["err"]:
                        mism.append(dict(c[1], what="admission model and library refuse for different reasons", model=ERR.get(v)))
    run.obligation("correspondence: sealed keys = model recipients + added init keys; later traffic refused as the admission model predicts", not mism and not failing and coq_cases > 0)
    if stats["commits_with_path"] < 10 or stats["removed_parties"] < 3 or stats["with_unmerged"] < 2:
        broken.append(("generator", f"degenerate histories: {stats}"))
    run.cov.update({
        "evaluations": len(recip_cases) + len(adm_cases),
        "distinct_nontrivial": len({c[0] for c in recip_cases}) + len({c[0] for c in adm_cases}),
        "rule": "generated histories (6-10, thorough 16 members; 7 or 12 commits; removes by value and by reference next to updates and adds; with/without path; both storage providers) + histories where a member replaces itself by an external commit; a case = the HPKE recipient list of one commit, or one later message delivered to a removed / replaced party.",
        "samples": [recip_cases[0][1]] if recip_cases else [],
        "stats": stats,
        "compared_with_model_in_coq": coq_cases,
        "histories": len(scripts),
    })
    if failing:
        run.violation("a secret went to a key that is not entitled to it, or a removed party followed the group", failing[:8])
    elif mism:
        run.violation("admission model and implementation disagree", mism[:6], failing_input_found=False)
    elif broken:
        run.violation("proof obligation or tie no longer checks: " + broken[0][0], [b[1] for b in broken], failing_input_found=False)
