"""C20 - tree index arithmetic.

Decision: the theorems of coq/Props/C20.v about coq/Gen/TreeMathGen.v, which is regenerated
from /repo's math.rs / node.rs by the translator on every run.
Tie: (a) the regeneration itself, (b) correspondence: the generated Gallina is evaluated
inside Coq (vm_compute) on the same queries as the Rust implementation.
Search for a failing input (only used to produce a replay): the implementation is compared
with the arithmetic description of the in-order complete tree (python copy of the Coq spec
`node k j = (2j+1)2^k - 1`)."""
import os
from concurrent.futures import ThreadPoolExecutor

from .common import *

FN = {"root": 0, "left": 1, "right": 2, "parent_sibling": 3, "is_leaf": 4, "is_in_tree": 5,
      "direct_copath": 6, "lca": 7, "subtree": 8, "leaf_index": 9}


def node(k, j):
    return (2 * j + 1) * (1 << k) - 1


def decomp(x):
    k = 0
    while (x >> k) & 1:
        k += 1
    return k, x >> (k + 1)


def spec(fn, a):
    """Expected answer (encoded) from the structural description of the tree, or None when
    the property does not fix the answer (out-of-tree arguments of partial functions)."""
    # the theorems (and the property) speak about trees with at most 2^30 leaves
    if fn in ("left", "right", "subtree") and a[0] > (1 << 31) - 2:
        return None
    if fn in ("parent_sibling", "direct_copath") and a[1] > (1 << 30):
        return None
    if fn == "root":
        n = a[0]
        return [0, n - 1] if n >= 1 else None
    if fn in ("left", "right"):
        k, j = decomp(a[0])
        if k == 0:
            return None  # leaf: no children; code documents a panic, property says nothing
        return [0, node(k - 1, 2 * j + (fn == "right"))]
    if fn == "is_leaf":
        return [0, 1 if a[0] % 2 == 0 else 0]
    if fn == "is_in_tree":
        x, root = a
        return [0, 1 if x <= 2 * root else 0]
    if fn == "parent_sibling":
        x, n = a
        if x > 2 * (n - 1):
            return None
        if x == n - 1:
            return [0]
        k, j = decomp(x)
        return [0, node(k + 1, j // 2), node(k, j ^ 1)]
    if fn == "direct_copath":
        x, n = a
        if x > 2 * (n - 1):
            return [0]
        out = [0]
        k, j = decomp(x)
        while node(k, j) != n - 1:
            out += [node(k + 1, j // 2), node(k, j ^ 1)]
            k, j = k + 1, j // 2
        return out
    if fn == "lca":
        x, y = a
        k = 0
        while (x >> k) != (y >> k):
            k += 1
        return [0, k]
    if fn == "subtree":
        k, j = decomp(a[0])
        return [0, j << k, (j + 1) << k]
    if fn == "leaf_index":
        return [0, a[0]] if a[0] <= (1 << 24) - 1 else [0]
    raise KeyError(fn)


def parse_answer(line):
    line = line.strip()
    if line == "P":
        return [1]
    if line == "N" or line == "":
        return [0]
    return [0] + [int(t) for t in line.split()]


def gen_queries(tier, rng):
    dmax = 9 if tier == "quick" else 12
    lca_d = 6 if tier == "quick" else 9
    q = []
    for d in range(0, dmax + 1):
        n = 1 << d
        q.append(("root", [n]))
        for x in range(0, 2 * n + 8):
            q.append(("parent_sibling", [x, n]))
            q.append(("is_in_tree", [x, n - 1]))
            q.append(("direct_copath", [x, n]))
    for x in range(0, (2 << dmax) + 8):
        q.append(("left", [x]))
        q.append(("right", [x]))
        q.append(("is_leaf", [x]))
        q.append(("subtree", [x]))
    n = 1 << lca_d
    for a in range(n):
        for b in range(n):
            if a != b:
                q.append(("lca", [2 * a, 2 * b]))
                q.append(("lca", [a, b]))
    nsamp = 20000 if tier == "quick" else 200000
    for _ in range(nsamp):
        d = rng.below(25)
        n = 1 << d
        x = rng.below(2 * n + 4)
        f = rng.choice(["parent_sibling", "direct_copath", "is_in_tree", "subtree", "left", "right", "lca"])
        if f in ("parent_sibling", "direct_copath"):
            q.append((f, [x, n]))
        elif f == "is_in_tree":
            q.append((f, [x, n - 1]))
        elif f == "lca":
            q.append((f, [rng.below(2 * n), rng.below(2 * n)]))
        else:
            q.append((f, [x]))
    for v in [0, 1, (1 << 24) - 2, (1 << 24) - 1, 1 << 24, (1 << 24) + 1, (1 << 31), (1 << 32) - 1] + [rng.below(1 << 32) for _ in range(200)]:
        q.append(("leaf_index", [v]))
    # extreme arguments: the implementation must agree with the generated model on panics too
    for x in [(1 << 31) - 1, (1 << 31), (1 << 32) - 1, (1 << 32) - 2, (1 << 30) - 1]:
        q += [("left", [x]), ("right", [x]), ("subtree", [x]), ("parent_sibling", [x, 1 << 31]), ("root", [0])]
    return q


def coq_shard(i, cases):
    items = ";\n".join(f"({FN[f]}, {nlist(a)}, {nlist(e)})" for f, a, e in cases)
    text = ("From Coq Require Import NArith List.\nFrom MlsV Require Import Res TreeMathGen TreeMathCases.\n"
            "Import ListNotations.\nLocal Open Scope N_scope.\n"
            f"Definition cases : list (N * list N * list N) := [\n{items}\n].\n"
            "Eval vm_compute in (mismatches cases).\n")
    return coq_eval_cases(f"C20_cases_{i}", text)


def main(run, args):
    run.assumptions += [
        "usize is at least 32 bits wide",
        "reference = arithmetic description of the complete in-order binary tree (node k j = (2j+1)2^k-1), proved to be closed under children/parent/sibling in coq/Proofs/TreeMathProofs.v",
    ]
    rng = Rng(run.seed)
    broken = []
    ok, msg = build_translator()
    if not ok:
        run.notes.append("translator build failed: " + msg[-500:])
    ok, msg = regen("treemath", "TreeMathGen.v")
    run.obligation("translate math.rs/node.rs -> Gen/TreeMathGen.v", ok)
    run.cov["gen_status"] = msg if ok else "translator refused the source"
    if not ok:
        broken.append(("translator", "rs2v treemath refused /repo's math.rs or node.rs: " + msg))
    proofs_ok = False
    if ok:
        proofs_ok, log = prove(run, "C20", extra_targets=["Model/TreeMathCases.vo"])
        if not proofs_ok:
            broken.append(("proof", "Props/C20.v does not check against the regenerated Gen/TreeMathGen.v; " + "; ".join(run.notes[-1:])))
    hok, herr = build_harness()
    if not hok:
        run.violation("harness build failed", herr, failing_input_found=False)
        return
    queries = gen_queries(run.tier, rng)
    rc, out, err = sh([MLSH, "treemath"], input="".join(f"{f} {' '.join(map(str, a))}\n" for f, a in queries), timeout=600)
    lines = out.split("\n")
    if rc != 0 or len(lines) < len(queries):
        run.violation("mlsh treemath failed", err[-2000:], failing_input_found=False)
        return
    answers = [parse_answer(l) for l in lines[:len(queries)]]
    # --- search oracle: implementation vs structural spec
    nspec = 0
    failing = []
    for (f, a), got in zip(queries, answers):
        want = spec(f, a)
        if want is None:
            continue
        nspec += 1
        if want != got:
            failing.append({"fn": f, "args": a, "implementation": got, "tree_spec": want})
    # --- the range check of the node vector itself (node.rs NodeVec::validate_index, behind borrow_node / is_blank /
    # borrow_as_parent ...): a vector of `len` nodes is the trimmed tree over n = next_power_of_two((len+1)/2) leaf
    # slots, whose nodes are 0 .. 2n-2; everything else is outside and must be reported as such
    nvq = []
    lens = list(range(1, 70, 2)) + [127, 129, 255, 257, 511, 513, 1023, 1025] + ([2047, 4095, 4097, 8191] if run.tier != "quick" else [])
    for ln in lens:
        n = 1
        while n < (ln + 1) // 2:
            n *= 2
        for idx in sorted(set(list(range(0, min(2 * n + 4, 40))) + list(range(max(0, ln - 2), ln + 3)) + list(range(max(0, 2 * n - 4), 2 * n + 4)))):
            nvq.append((ln, n, idx))
    rc2, out2, err2 = sh([MLSH, "treemath"], input="".join(f"nodevec {ln} {idx}\n" for ln, n, idx in nvq), timeout=600)
    nv_lines = out2.split("\n")
    if rc2 != 0 or len(nv_lines) < len(nvq):
        broken.append(("harness", "mlsh treemath nodevec failed: " + err2[-400:]))
    else:
        for (ln, n, idx), got in zip(nvq, nv_lines):
            want = "1" if idx <= 2 * n - 2 else "0"
            if got.strip() != want:
                    failing.append({"fn": "NodeVec::borrow_node", "nodes_in_vector": ln, "leaf_slots": n, "index": idx, "implementation": "answered as a node of the tree" if got.strip() == "1" else got.strip(), "tree_spec": "in the tree" if want == "1" else "outside the tree (nodes are 0..%d)" % (2 * n - 2)})
    run.cov["node_vector_range_queries"] = len(nvq)
    # --- correspondence: generated Gallina (vm_compute) vs implementation
    mism = []
    coq_cases = 0
    if ok and os.path.exists(os.path.join(COQ, "Model", "TreeMathCases.vo")):
        cases = [(f, a, e) for (f, a), e in zip(queries, answers)]
        # files of at most 2500 cases (larger literals overflow the stack of coqc), 12 at a time
        nsh = max(16, (len(cases) + 2499) // 2500)
        shards = [cases[i::nsh] for i in range(nsh)]
        with ThreadPoolExecutor(max_workers=12) as ex:
            results = list(ex.map(lambda t: coq_shard(*t), enumerate(shards)))
        for si, (nums, log) in enumerate(results):
            if nums is None:
                broken.append(("correspondence", "Coq evaluation of the generated model failed: " + log[-800:]))
                continue
            coq_cases += len(shards[si])
            for idx in nums:
                f, a, e = shards[si][idx]
                mism.append({"fn": f, "args": a, "implementation": e})
    run.obligation("correspondence Gen/TreeMathGen.v (vm_compute) = implementation on all queries", not mism and coq_cases > 0)
    distinct = len({(f, tuple(a)) for f, a in queries})
    run.cov.update({
        "evaluations": len(queries),
        "distinct_nontrivial": distinct,
        "rule": "exhaustive over every node index 0..2n+7 for every n=2^d, d<=%d (root, children, parent/sibling, in-tree, direct path+copath, subtree range); all ordered leaf pairs for the LCA level at d<=%d in both call conventions; seeded samples up to 2^24 leaves; LeafIndex bound; u32 extremes. A case is a distinct (function, arguments) pair." % (9 if run.tier == "quick" else 12, 6 if run.tier == "quick" else 9),
        "samples": [{"fn": f, "args": a, "implementation": e} for (f, a), e in list(zip(queries, answers))[1000:1006]],
        "compared_with_tree_spec": nspec,
        "compared_with_generated_gallina_in_coq": coq_cases,
        "exhaustive": True,
        "histogram_fn": {f: sum(1 for g, _ in queries if g == f) for f in FN},
    })
    if failing:
        run.violation("implementation disagrees with the RFC 9420 tree on a concrete index", failing[:20])
    elif mism:
        run.violation("generated model and implementation disagree (translator or hook no longer faithful)", mism[:20], failing_input_found=False)
    elif broken:
        run.violation("proof obligation or tie no longer checks: " + broken[0][0], [b[1] for b in broken], failing_input_found=False)
