"""C13 - key schedule, secret tree, PSK chain, exporter, transcript hashes and tags.

Decision: theorems of coq/Props/C13.v (code-shaped derivations = RFC 9420 formulas, for every
hash/KDF, input, tree size and consumption order; the secret tree is proved over the
translated tree math).
Tie: the RFC functions instantiated with Gallina SHA-256/384/512 + HMAC + HKDF are evaluated
(vm_compute) on the inputs given to the library (hooks: mlsh ks) and must return the same bytes,
for every provider and suite.  Any label, length field or ordering change in the code changes
bytes on every input."""
import json
import os
from concurrent.futures import ThreadPoolExecutor

from .common import *
from .histlib import HistGen, run_scripts

SUITE_ALG = {1: 0, 2: 0, 3: 0, 4: 2, 5: 2, 6: 2, 7: 1}
SUITE_NH = {0: 32, 1: 48, 2: 64}
KS_ORDER = ["psk_secret", "joiner", "welcome", "confirm", "exporter", "authentication", "external", "membership", "init",
            "resumption", "sender_data", "encryption"]


def vbytes(b):
    n = len(b)
    if n < 64:
        return bytes([n]) + b
    if n < 16384:
        return bytes([0x40 | (n >> 8), n & 0xFF]) + b
    return bytes([0x80 | (n >> 24), (n >> 16) & 0xFF, (n >> 8) & 0xFF, n & 0xFF]) + b


def group_context(rng, suite, nh):
    gid = rng.bytes(rng.below(40))
    ext = b""
    if rng.chance(1, 3):
        ext = (0xF010).to_bytes(2, "big") + vbytes(rng.bytes(rng.below(20)))
    return (b"\x00\x01" + suite.to_bytes(2, "big") + vbytes(gid) + rng.below(1 << 40).to_bytes(8, "big")
            + vbytes(rng.bytes(nh)) + vbytes(rng.bytes(nh)) + vbytes(ext))


def psk_id(rng, nh):
    if rng.chance(1, 2):
        return b"\x01" + vbytes(rng.bytes(1 + rng.below(20))) + vbytes(rng.bytes(nh))
    return (b"\x02" + bytes([1 + rng.below(3)]) + vbytes(rng.bytes(rng.below(20))) + rng.below(1 << 30).to_bytes(8, "big")
            + vbytes(rng.bytes(nh)))


def coq_str(b):
    return '"' + b.hex() + '"%string'


def coq_case(c):
    k = c["kind"]
    a = c["alg"]
    psks = "[" + "; ".join(f"({coq_str(i)}, {coq_str(v)})" for i, v in c.get("psks", [])) + "]"
    if k == "ks":
        return f"KKs {a} {coq_str(c['init'])} {coq_str(c['commit'])} {coq_str(c['ctx'])} {psks}"
    if k == "group":
        return f"KGroup {a} {coq_str(c['init'])} {coq_str(c['commit'])} {coq_str(c['ctx'])} {psks}"
    if k == "psk":
        return f"KPsk {a} {psks}"
    if k == "export":
        return f"KExport {a} {coq_str(c['exporter'])} {coq_str(c['label'])} {coq_str(c['context'])} {c['len']}"
    if k == "key":
        return f"KKey {a} {c['depth']} {c['leaf']} {'true' if c['hs'] else 'false'} {c['gen']} {c['nk']} {c['nn']} {coq_str(c['enc'])}"
    if k == "transcript":
        return f"KTranscript {a} {coq_str(c['interim'])} {coq_str(c['ac'])} {coq_str(c['ck'])}"
    if k == "mtag":
        return f"KMtag {a} {coq_str(c['ac'])} {coq_str(c['ctx'])} {coq_str(c['key'])}"
    raise KeyError(k)


def coq_shard(i, cases):
    items = ";\n".join("(" + coq_case(c) + ", [" + "; ".join(coq_str(e) for e in c["expected"]) + "])" for c in cases)
    text = ("From Coq Require Import NArith List String.\nFrom MlsV Require Import KsCases.\n"
            "Import ListNotations.\nLocal Open Scope N_scope.\n"
            f"Definition cases : list (kcase * list string) := [\n{items}\n].\n"
            "Eval vm_compute in (ks_mismatches cases).\n")
    return coq_eval_cases(f"C13_cases_{i}", text, timeout=1500)


def vparse(b, pos):
    """MLS variable-length vector at pos: (content, next position)."""
    p = b[pos] >> 6
    n = 1 << p
    ln = int.from_bytes(b[pos:pos + n], "big") & ((1 << (8 * n - 2)) - 1)
    return b[pos + n:pos + n + ln], pos + n + ln


def group_psk_script(rng, i, suite, prov):
    """A real group: a few epochs, then PSK-only commits WITHOUT update path (commit secret = zeros)
    whose PSK list mixes external and resumption PSKs in a chosen order."""
    members = [{"name": n, "provider": prov} for n in "AB"]
    ops = [{"op": "create", "who": "A"}, {"op": "kp", "who": "B", "id": "kB"}, {"op": "commit", "who": "A", "id": "c0", "add": ["kB"]},
           {"op": "apply", "who": "A"}, {"op": "join", "who": "B", "welcome_any": "c0"}]
    ext = {}
    for k in range(3):
        pid = "ee%02x%02x" % (i % 256, k)
        val = rng.bytes(16 + rng.below(40))
        ext[pid] = val
        for m in "AB":
            ops.append({"op": "psk_insert", "who": m, "psk_id": pid, "value": val.hex()})
    for m in "AB":
        ops.append({"op": "opts", "who": m, "path_required": False, "encrypt_controls": False})
    dumps = []
    ops.append({"op": "secrets_dump", "who": "A"})
    dumps.append(len(ops) - 1)
    commits = []
    epoch = 1
    for r in range(3):
        c = "A" if r % 2 == 0 else "B"
        o = "B" if c == "A" else "A"
        seq = []
        for _ in range(2 + rng.below(3)):
            if rng.chance(1, 2):
                seq.append("r:%d" % (1 + rng.below(epoch)))    # B joined in epoch 1
            else:
                seq.append("e:" + rng.choice(sorted(ext)))
        # distinct PSKs only (a repeated PSK is an invalid proposal set)
        seen, seq2 = set(), []
        for x in seq:
            if x not in seen:
                seen.add(x)
                seq2.append(x)
        if r == 0:
            seq2 = ["r:%d" % epoch, "e:" + sorted(ext)[0]] + [x for x in seq2 if x not in ("r:%d" % epoch, "e:" + sorted(ext)[0])]
        ops.append({"op": "commit", "who": c, "id": f"p{r}", "psk_seq": seq2})
        ops.append({"op": "deliver", "to": o, "msg": f"p{r}"})
        di = len(ops) - 1
        ops.append({"op": "apply", "who": c})
        ops.append({"op": "secrets_dump", "who": o})
        dumps.append(len(ops) - 1)
        ops.append({"op": "secrets_dump", "who": c})
        commits.append((di, len(ops) - 2, len(ops) - 1, seq2))
        epoch += 1
    return {"name": f"c13-g{i}", "suite": suite, "members": members, "ops": ops}, ext, dumps, commits


def growth_script(rng, i, suite, prov):
    """A real group that grows past powers of two through commits WITHOUT update path: the secret tree
    of the new epoch must have the size of the NEW ratchet tree at every member (committer, receivers,
    joiners), or their per-message keys differ; everybody then reads everybody."""
    names = ["A", "B", "C", "D", "E", "F"][:5 + rng.below(2)]
    members = [{"name": n, "provider": prov} for n in names]
    ops = [{"op": "create", "who": "A"}]
    inside = ["A"]
    for n in names:
        ops.append({"op": "opts", "who": n, "path_required": False, "encrypt_controls": rng.chance(1, 2)}) if n == "A" else None
    k = 0
    for n in names[1:]:
        c = rng.choice(inside)
        ops.append({"op": "opts", "who": c, "path_required": False, "encrypt_controls": False})
        ops.append({"op": "kp", "who": n, "id": "k" + n})
        ops.append({"op": "commit", "who": c, "id": f"g{k}", "add": ["k" + n]})
        for m in inside:
            if m != c:
                ops.append({"op": "deliver", "to": m, "msg": f"g{k}"})
        ops.append({"op": "apply", "who": c})
        ops.append({"op": "join", "who": n, "welcome_any": f"g{k}"})
        inside.append(n)
        for snd in rng.shuffle(inside)[:3]:
            aid = f"a{k}{snd}"
            ops.append({"op": "app", "who": snd, "id": aid, "data": "%02x" % k})
            for m in inside:
                if m != snd:
                    ops.append({"op": "deliver", "to": m, "msg": aid})
        k += 1
    return {"name": f"c13-grow{i}", "suite": suite, "members": members, "ops": [o for o in ops if o]}


def group_cases(sc, ext, dumps, commits, rs, suite, prov, impl_errors):
    a = SUITE_ALG[suite]
    nh = SUITE_NH[a]
    byi = {r["i"]: r for r in rs if "i" in r}
    bad = [r for r in rs if r.get("ok") is False or r.get("crash")]
    if bad:
        impl_errors.append({"request": "group psk history", "script": sc["name"], "answer": bad[0]})
        return []

    def split_ks(h):
        b = bytes.fromhex(h)
        out, pos = [], 0
        for _ in range(5):
            v, pos = vparse(b, pos)
            out.append(v)
        return out         # exporter, authentication, external, membership, init
    res_by_epoch = {}
    prev = byi[dumps[0]]["info"]
    res_by_epoch[prev["epoch"]] = bytes.fromhex(prev["resumption"])
    # epoch 0 of the creator is not observed: resumption PSKs of epoch 0 are avoided by construction? no: look them up lazily
    out = []
    for (di, d_other, d_comm, seq) in commits:
        info = byi[di]["info"]
        new = byi[d_other]["info"]
        new2 = byi[d_comm]["info"]
        if new["ks"] != new2["ks"] or new["resumption"] != new2["resumption"]:
            impl_errors.append({"request": "committer and receiver hold different key schedules", "script": sc["name"]})
        encs = [bytes.fromhex(p["enc"]) for p in info.get("detail", []) if p.get("k") == "psk"]
        psks, ok = [], True
        for e in encs:
            if e[0] == 1:      # external: id<V>, nonce<V>
                idb, pos = vparse(e, 1)
                psks.append((e, ext.get(idb.hex())))
            else:              # resumption: usage, group id<V>, epoch u64, nonce<V>
                gid, pos = vparse(e, 2)
                ep = int.from_bytes(e[pos:pos + 8], "big")
                psks.append((e, res_by_epoch.get(ep)))
            if psks[-1][1] is None:
                ok = False
        ks_prev = split_ks(prev["ks"])
        ks_new = split_ks(new["ks"])
        if ok:
            out.append({"kind": "group", "alg": a, "init": ks_prev[4], "commit": bytes(nh), "ctx": bytes.fromhex(new["ctx"]), "psks": psks,
                        "expected": ks_new + [bytes.fromhex(new["resumption"])], "suite": suite, "prov": prov, "order": seq})
        res_by_epoch[new["epoch"]] = bytes.fromhex(new["resumption"])
        prev = new
    return out


def main(run, args):
    rng = Rng(run.seed)
    run.assumptions += [
        "the Gallina SHA-2 / HMAC / HKDF are the reference (validated by FIPS known answers; constants generated from their definition)",
        "Model/KeyScheduleCode.v is hand-written in the shape of key_schedule.rs / psk/secret.rs / secret_tree.rs; the byte comparison ties the RFC model (hence, by the theorems, the code model) to the library",
    ]
    broken = []
    build_translator()
    ok1, m1 = regen("treemath", "TreeMathGen.v")
    ok2, m2 = regen("codec", "CodecTypes.v")
    run.obligation("translate tree math and type table (used by the secret tree proof and the transcript/TBM layouts)", ok1 and ok2)
    if not (ok1 and ok2):
        broken.append(("translator", m1 + m2))
    proofs_ok = False
    if ok1 and ok2:
        proofs_ok, log = prove(run, "C13", extra_targets=["Model/KsCases.vo"])
        if not proofs_ok:
            broken.append(("proof", "Props/C13.v does not check; " + "; ".join(run.notes[-1:])))
    hok, herr = build_harness()
    if not hok:
        run.violation("harness build failed", herr, failing_input_found=False)
        return
    quick = run.tier == "quick"
    suites = [(1, "openssl"), (1, "awslc"), (1, "rustcrypto"), (2, "openssl"), (3, "rustcrypto"), (7, "openssl"), (4, "openssl"), (5, "awslc"), (6, "openssl")]
    reqs = []   # (request json, case dict)
    # ---- key schedule
    for i in range(36 if quick else 180):
        suite, prov = suites[i % len(suites)]
        a = SUITE_ALG[suite]
        nh = SUITE_NH[a]
        npsk = [0, 0, 1, 2, 3, 6][rng.below(6)]
        psks = [(psk_id(rng, nh), rng.bytes(1 + rng.below(48))) for _ in range(npsk)]
        c = {"kind": "ks", "alg": a, "init": rng.bytes(nh), "commit": rng.bytes(nh) if rng.chance(3, 4) else bytes(nh),
             "ctx": group_context(rng, suite, nh), "psks": psks, "suite": suite, "prov": prov}
        reqs.append(({"op": "ks", "suite": suite, "provider": prov, "init": c["init"].hex(), "commit": c["commit"].hex(), "ctx": c["ctx"].hex(),
                      "tree_size": 1 << rng.below(6), "psks": [[i_.hex(), v.hex()] for i_, v in psks]}, c))
    # ---- psk chain alone (longer lists)
    for i in range(6 if quick else 40):
        suite, prov = suites[rng.below(len(suites))]
        a = SUITE_ALG[suite]
        nh = SUITE_NH[a]
        psks = [(psk_id(rng, nh), rng.bytes(rng.below(70))) for _ in range(rng.below(7))]
        c = {"kind": "psk", "alg": a, "psks": psks, "suite": suite, "prov": prov}
        reqs.append(({"op": "psk", "suite": suite, "provider": prov, "psks": [[i_.hex(), v.hex()] for i_, v in psks]}, c))
    # ---- exporter: label / context / length sweeps incl. 0, 1, hash length +- 1
    for i in range(30 if quick else 160):
        suite, prov = suites[rng.below(len(suites))]
        a = SUITE_ALG[suite]
        nh = SUITE_NH[a]
        ln = rng.choice([0, 1, nh - 1, nh, nh + 1, 2 * nh, 2 * nh + 1, 100, rng.below(300)])
        c = {"kind": "export", "alg": a, "exporter": rng.bytes(nh), "label": rng.bytes(rng.below(30)), "context": rng.bytes(rng.choice([0, 1, 55, 56, 64, 119, 128, rng.below(200)])),
             "len": ln, "suite": suite, "prov": prov}
        reqs.append(({"op": "export", "suite": suite, "provider": prov, "exporter": c["exporter"].hex(), "label": c["label"].hex(), "context": c["context"].hex(), "len": ln}, c))
    # ---- secret tree + ratchets: one tree per request group, leaves touched in random order
    tree_reqs = []
    for i in range(16 if quick else 60):
        suite, prov = suites[rng.below(len(suites))]
        a = SUITE_ALG[suite]
        nh = SUITE_NH[a]
        depth = rng.choice([0, 1, 2, 3, 5, 8, 10] if quick else [0, 1, 2, 3, 4, 6, 9, 10, 13, 16])
        n = 1 << depth
        enc = rng.bytes(nh)
        nextgen = {}
        skipped = {}
        rs = []
        for _ in range(5 if quick else 10):
            leaf = rng.below(n)
            hs = rng.chance(1, 2)
            g0 = nextgen.get((leaf, hs), 0)
            g = g0 + rng.choice([0, 0, 0, 1, 2, 7])
            nextgen[(leaf, hs)] = g + 1
            skipped.setdefault((leaf, hs), []).extend(range(g0, g))
            rs.append((leaf, hs, g))
        # out of order: a ratchet that is past generation 0 jumps ahead (once or twice), then the generations it
        # skipped are asked for, newest first or in random order - the key of (leaf, generation) is the same
        # whenever it is asked for
        if i % 2 == 1:
            leaf = rng.below(n)
            hs = rng.chance(1, 2)
            g0 = nextgen.get((leaf, hs), 0)
            a1 = g0 + rng.below(2)
            a2 = a1 + 2 + rng.below(3)
            a3 = a2 + 2 + rng.below(4)
            seq = [a1, a2] + ([a3] if rng.chance(1, 2) else [])
            prev = g0
            for g in seq:
                skipped.setdefault((leaf, hs), []).extend(range(prev, g))
                prev = g + 1
                rs.append((leaf, hs, g))
            nextgen[(leaf, hs)] = prev
        for (leaf, hs), gs in sorted(skipped.items()):
            back = sorted(set(gs), reverse=True) if rng.chance(1, 2) else rng.shuffle(sorted(set(gs)))
            for g in back[:4]:
                rs.append((leaf, hs, g))
        if not quick and i % 10 == 0:
            rs.append((rng.below(n), False, 300))
        tree_reqs.append((suite, prov, a, depth, enc, rs))
    # sizes per suite
    sizes = {}
    rc, out, err = sh([MLSH, "ks"], input="".join(json.dumps({"op": "sizes", "suite": s}) + "\n" for s in range(1, 8)))
    for s, line in zip(range(1, 8), out.splitlines()):
        sizes[s] = json.loads(line)
    # ---- transcript / membership tag on real commits and proposals
    scripts = []
    for k in range(3 if quick else 12):
        g = HistGen(rng, n_pool=5, name=f"c13-{k}")
        g.start()
        for _ in range(3):
            g.round(observe=None, encrypt=False, app=False)
        scripts.append(g.script(dump_all=True))
    recs = run_scripts(scripts)
    pubmsgs = []
    for rs in recs:
        for r in rs:
            if r.get("type") == "MlsMessage" and r["hex"].startswith("00010001"):
                pubmsgs.append(r["hex"])
    rc, out, err = sh([MLSH, "ks"], input="".join(json.dumps({"op": "ac_of", "msg": m}) + "\n" for m in pubmsgs))
    acs = [json.loads(l).get("ac") for l in out.splitlines()]
    acs = [bytes.fromhex(a) for a in acs if a]
    for ac in acs[:(10 if quick else 60)]:
        suite, prov = (1, rng.choice(["openssl", "awslc", "rustcrypto"])) if rng.chance(2, 3) else rng.choice([(7, "openssl"), (4, "openssl")])
        a = SUITE_ALG[suite]
        nh = SUITE_NH[a]
        # the same content as it is authenticated inside a PrivateMessage: wire_format = mls_private_message (2);
        # RFC 9420 8.2 hashes the wire format of the commit as it was sent
        tac = (b"\x00\x02" + ac[2:]) if rng.chance(1, 2) else ac
        c = {"kind": "transcript", "alg": a, "interim": rng.bytes(nh) if rng.chance(4, 5) else b"", "ac": tac, "ck": rng.bytes(nh), "suite": suite, "prov": prov}
        reqs.append(({"op": "transcript", "suite": suite, "provider": prov, "interim": c["interim"].hex(), "ac": tac.hex(), "confirm_key": c["ck"].hex()}, c))
        c2 = {"kind": "mtag", "alg": a, "ac": ac, "ctx": group_context(rng, suite, nh), "key": rng.bytes(nh), "suite": suite, "prov": prov}
        reqs.append(({"op": "mtag", "suite": suite, "provider": prov, "ac": ac.hex(), "ctx": c2["ctx"].hex(), "key": c2["key"].hex()}, c2))
    # ---- run the implementation
    lines = [json.dumps(r) for r, _ in reqs]
    for suite, prov, a, depth, enc, rs in tree_reqs:
        lines.append(json.dumps({"op": "stree", "suite": suite, "provider": prov, "leaf_count": 1 << depth, "enc": enc.hex(), "reqs": [[l, hs, g] for l, hs, g in rs]}))
    rc, out, err = sh([MLSH, "ks"], input="\n".join(lines) + "\n", timeout=900)
    answers = [json.loads(l) for l in out.splitlines()]
    if rc != 0 or len(answers) != len(lines):
        run.violation("mlsh ks failed", err[-1500:], failing_input_found=False)
        return
    cases = []
    impl_errors = []
    for (r, c), ans in zip(reqs, answers):
        if "err" in ans and c["kind"] == "export" and c["len"] == 0:
            # a zero-length export is refused by some providers (an error, not a wrong value);
            # provider agreement on it is C14's business
            run.cov["refused_zero_length_exports"] = run.cov.get("refused_zero_length_exports", 0) + 1
            continue
        if "err" in ans or "panic" in ans:
            impl_errors.append({"request": r, "answer": ans})
            continue
        if c["kind"] == "ks":
            c["expected"] = [bytes.fromhex(ans[k]) for k in KS_ORDER]
        elif c["kind"] == "psk":
            c["expected"] = [bytes.fromhex(ans["psk_secret"])]
        elif c["kind"] == "export":
            c["expected"] = [bytes.fromhex(ans["exported"])]
        elif c["kind"] == "transcript":
            c["expected"] = [bytes.fromhex(ans["confirmed"]), bytes.fromhex(ans["tag"]), bytes.fromhex(ans["interim"])]
        elif c["kind"] == "mtag":
            c["expected"] = [bytes.fromhex(ans["tag"])]
        cases.append(c)
    for (suite, prov, a, depth, enc, rs), ans in zip(tree_reqs, answers[len(reqs):]):
        if "keys" not in ans:
            impl_errors.append({"request": "stree", "answer": ans})
            continue
        for (leaf, hs, g), k in zip(rs, ans["keys"]):
            if isinstance(k, dict):
                impl_errors.append({"request": ["stree", suite, depth, leaf, hs, g], "answer": k})
                continue
            cases.append({"kind": "key", "alg": a, "depth": depth, "leaf": leaf, "hs": hs, "gen": g, "nk": sizes[suite]["nk"], "nn": sizes[suite]["nn"],
                          "enc": enc, "expected": [bytes.fromhex(k[0]), bytes.fromhex(k[1])], "suite": suite, "prov": prov})
    # ---- real groups: PSK-only commits without a path, PSK lists in chosen order (resumption
    # before external and vice versa); what the members' key schedules hold afterwards must be
    # the RFC value computed from the PSKs IN THE ORDER OF THE COMMIT
    gitems = []
    for i in range(6 if quick else 40):
        suite, prov = [(1, "openssl"), (2, "rustcrypto"), (3, "awslc"), (7, "openssl")][i % 4]
        gitems.append((group_psk_script(rng, i, suite, prov), suite, prov))
    grecs = run_scripts([g[0][0] for g in gitems], timeout=1500)
    n_group = 0
    for ((sc, ext, dumps, commits), suite, prov), rs in zip(gitems, grecs):
        gc = group_cases(sc, ext, dumps, commits, rs, suite, prov, impl_errors)
        n_group += len(gc)
        cases += gc
    # ---- real groups growing through commits without a path: every member's secret tree has the new size
    gritems = [growth_script(rng, i, *[(1, "openssl"), (2, "rustcrypto"), (3, "awslc")][i % 3]) for i in range(4 if quick else 24)]
    grrecs = run_scripts(gritems, timeout=1500)
    n_growth = 0
    for sc, rs in zip(gritems, grrecs):
        bad = [r for r in rs if r.get("ok") is False or r.get("crash")]
        n_growth += sum(1 for r in rs if r.get("op") == "deliver" and r.get("ok"))
        if bad:
            impl_errors.append({"request": "group growing through path-less commits: a member cannot read another member (secret trees of different size?)", "script": sc["name"], "answer": bad[0], "op": sc["ops"][bad[0]["i"]] if "i" in bad[0] else None})
    run.cov["growth_deliveries"] = n_growth
    # ---- model
    mism = []
    coq_cases = 0
    if ok1 and ok2 and os.path.exists(os.path.join(COQ, "Model", "KsCases.vo")):
        def cost(c):
            base = {"group": 25 + 6 * len(c.get("psks", [])), "ks": 25 + 6 * len(c.get("psks", [])), "psk": 2 + 6 * len(c.get("psks", [])), "export": 4 + c.get("len", 0) // 32,
                    "key": 3 + c.get("depth", 0) + c.get("gen", 0), "transcript": 6, "mtag": 5}[c["kind"]]
            return base * (1 if c["alg"] == 0 else 3)
        order = sorted(cases, key=cost, reverse=True)
        shards = [[] for _ in range(16)]
        loads = [0] * 16
        for c in order:
            i = loads.index(min(loads))
            shards[i].append(c)
            loads[i] += cost(c)
        shards = [s for s in shards if s]
        with ThreadPoolExecutor(max_workers=16) as ex:
            results = list(ex.map(lambda x: coq_shard(*x), enumerate(shards)))
        for si, (nums, log) in enumerate(results):
            if nums is None:
                broken.append(("correspondence", "Coq evaluation of the RFC model failed: " + log[-800:]))
                continue
            coq_cases += len(shards[si])
            for idx in nums:
                c = shards[si][idx]
                mism.append({k: (v.hex() if isinstance(v, bytes) else ([[a.hex(), b.hex()] for a, b in v] if k == "psks" else ([e.hex() for e in v] if k == "expected" else v))) for k, v in c.items()})
    run.obligation("correspondence RFC model (Gallina SHA-2/HKDF, vm_compute) = library bytes", not mism and coq_cases > 0 and not impl_errors)
    run.cov["group_level_psk_commits"] = n_group
    if n_group < 6:
        broken.append(("generator", f"only {n_group} group-level PSK commits could be compared"))
    hist = {}
    for c in cases:
        key = f"{c['kind']}/suite{c['suite']}/{c['prov']}"
        hist[key] = hist.get(key, 0) + 1
    run.cov.update({
        "evaluations": len(cases),
        "distinct_nontrivial": len({json.dumps(coq_case(c)) for c in cases}),
        "rule": "seeded random init/commit secrets, group contexts and PSK lists (0..6 mixed external/resumption); exporter label/context/length sweeps (0, 1, Nh-1, Nh, Nh+1, 2Nh+1, block boundaries); secret trees of depth 0..10 (thorough 16) with leaves touched in random order and generations skipped; transcript hashes, confirmation and membership tags over AuthenticatedContent of real commits/proposals. Every case is compared byte for byte; distinct = distinct inputs.",
        "samples": [coq_case(c)[:300] for c in cases[:2] + cases[-2:]],
        "case_histogram": hist,
        "compared_with_model_in_coq": coq_cases,
        "implementation_errors": len(impl_errors),
    })
    if mism:
        run.violation("library value differs from the RFC 9420 formula", mism[:10])
    elif impl_errors:
        run.violation("library refused a valid derivation request", impl_errors[:10])
    elif broken:
        run.violation("proof obligation or tie no longer checks: " + broken[0][0], [b[1] for b in broken], failing_input_found=False)
