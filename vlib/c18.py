"""C18 - a PSK commit binds the new epoch to knowledge of the PSK.

Decision: theorems of coq/Props/C18.v (PSK chain injective over collision-free KDFs; epoch
secret binds values, ids / nonces and order; the RFC chain of C13 is that chain over HKDF;
resolution model).
Tie / search oracle: commits with 1-3 external PSKs (by value and by reference) and resumption
PSKs of earlier epochs against members whose PSK store holds the committer's value, another
value or nothing, whose retention reaches or does not reach the referenced epoch, who joined
before or after it; joiners with and without the PSKs; a resumption PSK naming another group of
the same members.  Expected acceptance is computed by the resolution model in Coq from each
member's store / stored epochs; members that accept must agree on the new epoch, members that
refuse must be unchanged, the later arrival of the missing PSK must make the same commit
acceptable."""
import json

import re
from .common import *
from .histlib import run_scripts

NAMES = ["A", "B", "C", "D", "E"]


def ext_script(rng, i):
    members = [{"name": n, "storage": "mem", "retention": 3} for n in NAMES + ["J"]]
    ops = [{"op": "create", "who": "A"}]
    for n in NAMES[1:]:
        ops.append({"op": "kp", "who": n, "id": "k" + n})
    ops += [{"op": "commit", "who": "A", "id": "c0", "add": ["k" + n for n in NAMES[1:]]}, {"op": "apply", "who": "A"}]
    for n in NAMES[1:]:
        ops.append({"op": "join", "who": n, "welcome_any": "c0"})
    npsk = 1 + rng.below(3)
    ids = ["aa%02x" % (k + 1) for k in range(npsk)]
    holds = {n: {} for n in NAMES + ["J"]}
    c = rng.choice(NAMES)
    for pid in ids:
        for n in NAMES + ["J"]:
            mode = 0 if n == c else rng.below(5)
            if mode <= 2:
                holds[n][pid] = "11" * 8
            elif mode == 3:
                holds[n][pid] = "22" * 8
            # else: lacks it
    for n, d in holds.items():
        for pid, v in d.items():
            ops.append({"op": "psk_insert", "who": n, "psk_id": pid, "value": v})
    by_ref = rng.chance(1, 2)
    ops.append({"op": "opts", "who": c, "encrypt_controls": False, "single_welcome": True, "tree_ext": True})
    order = rng.shuffle(ids)
    add_j = rng.chance(1, 2)
    if add_j:
        ops.append({"op": "kp", "who": "J", "id": "kJ"})
    if by_ref:
        for pid in order:
            ops.append({"op": "propose", "who": c, "kind": "psk", "psk_id": pid, "id": "p" + pid})
            for n in NAMES:
                if n != c:
                    ops.append({"op": "deliver", "to": n, "msg": "p" + pid})
        ops.append({"op": "commit", "who": c, "id": "cp", "add": ["kJ"] if add_j else []})
    else:
        ops.append({"op": "commit", "who": c, "id": "cp", "psk": order, "add": ["kJ"] if add_j else []})
    meta = {"committer": c, "ids": ids, "holds": holds, "deliveries": [], "retries": [], "join": None, "kind": "external"}
    for n in NAMES:
        if n != c:
            ops.append({"op": "deliver", "to": n, "msg": "cp", "snap_before": True, "observe": n})
            meta["deliveries"].append((len(ops) - 1, n))
    ops.append({"op": "apply", "who": c})
    if add_j:
        ops.append({"op": "join", "who": "J", "welcome_any": "cp"})
        meta["join"] = len(ops) - 1
    # the missing / wrong PSK arrives later: the same commit becomes acceptable
    for n in NAMES:
        if n != c and any(holds[n].get(p) != holds[c][p] for p in ids):
            for p in ids:
                ops.append({"op": "psk_insert", "who": n, "psk_id": p, "value": holds[c][p]})
            ops.append({"op": "deliver", "to": n, "msg": "cp"})
            meta["retries"].append((len(ops) - 1, n))
    ops.append({"op": "observe", "who": c, "observe": "all"})
    meta["final"] = len(ops) - 1
    return {"name": f"c18-e{i}", "suite": 1, "members": members, "ops": ops}, meta


def res_script(rng, i):
    """Resumption PSK of an earlier epoch: retention and join epoch decide who can follow."""
    rets = {n: rng.choice([1, 2, 6]) for n in NAMES}
    rets["A"] = 6
    members = [{"name": n, "storage": rng.choice(["mem", "sqlite"]), "retention": rets[n]} for n in NAMES]
    ops = [{"op": "create", "who": "A"}]
    early = ["B", "C", "D"]
    for n in early:
        ops.append({"op": "kp", "who": n, "id": "k" + n})
    ops += [{"op": "commit", "who": "A", "id": "c0", "add": ["k" + n for n in early]}, {"op": "apply", "who": "A"}]
    for n in early:
        ops.append({"op": "join", "who": n, "welcome_any": "c0"})
    inside = ["A"] + early
    epoch = 1
    join_epoch = {n: 1 for n in inside}
    join_epoch["A"] = 0
    total = 4 + rng.below(3)
    late_at = 2 + rng.below(2)
    last_save = {}
    for e in range(total):
        cc = rng.choice(inside)
        ops.append({"op": "opts", "who": cc, "encrypt_controls": False, "path_required": True})
        add = []
        if epoch == late_at:
            ops.append({"op": "kp", "who": "E", "id": "kE"})
            add = ["kE"]
        ops.append({"op": "commit", "who": cc, "id": f"u{e}", "add": add})
        for n in inside:
            if n != cc:
                ops.append({"op": "deliver", "to": n, "msg": f"u{e}"})
        ops.append({"op": "apply", "who": cc})
        epoch += 1
        if add:
            ops.append({"op": "join", "who": "E", "welcome_any": f"u{e}"})
            inside.append("E")
            join_epoch["E"] = epoch
        # two members out of three write their state after an epoch; the others keep the epochs they
        # entered since their last write in memory only (the repository's pending inserts)
        for n in inside:
            if rng.chance(2, 3):
                ops.append({"op": "save", "who": n})
                last_save[n] = epoch
    unwritten = {n: list(range(last_save.get(n, join_epoch[n]), epoch)) for n in inside}
    ref = rng.below(epoch)          # referenced epoch, 0 .. current-1
    ops.append({"op": "observe", "who": "A", "observe": "all"})
    obs_i = len(ops) - 1
    # members that may have forgotten the epoch try to commit with it first (then drop the attempt)
    attempts = []
    for x in rng.shuffle([n for n in inside if n != "A"])[:2]:
        ops.append({"op": "opts", "who": x, "encrypt_controls": False})
        ops.append({"op": "commit", "who": x, "id": "try_" + x, "resumption": [ref]})
        attempts.append((len(ops) - 1, x))
        ops.append({"op": "clear", "who": x})
    ops.append({"op": "opts", "who": "A", "encrypt_controls": False})
    ops.append({"op": "commit", "who": "A", "id": "cr", "resumption": [ref]})
    attempts.append((len(ops) - 1, "A"))
    meta = {"committer": "A", "ref": ref, "epoch": epoch, "join_epoch": join_epoch, "deliveries": [], "retries": [], "join": None, "kind": "resumption", "obs": obs_i, "rets": rets, "commit": len(ops) - 1, "attempts": attempts, "unwritten": unwritten}
    for n in inside:
        if n != "A":
            ops.append({"op": "deliver", "to": n, "msg": "cr", "snap_before": True, "observe": n})
            meta["deliveries"].append((len(ops) - 1, n))
    ops.append({"op": "apply", "who": "A"})
    ops.append({"op": "observe", "who": "A", "observe": "all"})
    meta["final"] = len(ops) - 1
    return {"name": f"c18-r{i}", "suite": 1, "members": members, "ops": ops}, meta


def foreign_script(rng, i):
    """A resumption PSK naming ANOTHER group of the same two members, with different write patterns."""
    members = [{"name": n, "storage": "mem", "retention": 6} for n in ("A", "B")]
    ops = [{"op": "create", "who": "A", "gid": "a1a1"}, {"op": "kp", "who": "B", "id": "kB"}, {"op": "commit", "who": "A", "id": "c1", "add": ["kB"]}, {"op": "apply", "who": "A"}, {"op": "join", "who": "B", "welcome_any": "c1"}]
    for k in range(2):
        w = "AB"[k % 2]
        o = "BA"[k % 2]
        ops += [{"op": "commit", "who": w, "id": f"g{k}"}, {"op": "apply", "who": w}, {"op": "deliver", "to": o, "msg": f"g{k}"}]
    ops += [{"op": "save", "who": "A"}, {"op": "save", "who": "B"}, {"op": "kp", "who": "B", "id": "kB2"},
            {"op": "branch", "who": "A", "id": "bc", "gid": "b2b2", "kps": ["kB2"]}, {"op": "join_subgroup", "who": "B", "welcome_any": "bc", "tree": "bc.tree"},
            {"op": "swap", "who": "A"}, {"op": "swap", "who": "B"},
            {"op": "commit", "who": "A", "id": "h1"}, {"op": "apply", "who": "A"}, {"op": "deliver", "to": "B", "msg": "h1"}]
    if rng.chance(1, 2):
        ops.append({"op": "save", "who": "B"})
    else:
        ops.append({"op": "save", "who": "A"})
    ref = 1 + rng.below(2)        # an epoch of the parent group that both members have stored
    ops.append({"op": "commit", "who": "A", "id": "h2", "raw_psk": [{"gid": "a1a1", "epoch": ref}]})
    ops.append({"op": "deliver", "to": "B", "msg": "h2", "snap_before": True, "observe": "B"})
    meta = {"kind": "foreign", "committer": "A", "deliveries": [(len(ops) - 1, "B")], "retries": [], "join": None, "commit": len(ops) - 2}
    ops.append({"op": "apply", "who": "A"})
    ops.append({"op": "observe", "who": "A", "observe": "all"})
    meta["final"] = len(ops) - 1
    return {"name": f"c18-f{i}", "suite": 1, "members": members, "ops": ops}, meta


def main(run, args):
    rng = Rng(run.seed)
    run.assumptions += [
        "collision-freeness of the KDF is a HYPOTHESIS of the binding theorems (section variables), not an axiom and not proved",
        "PSK values are compared as tokens; that equal lists give equal secrets and the byte-exact chain are C13's correspondence",
    ]
    broken = []
    proofs_ok, log = prove(run, "C18", extra_targets=[])
    if not proofs_ok:
        broken.append(("proof", "Props/C18.v does not check; " + "; ".join(run.notes[-1:])))
    hok, herr = build_harness()
    if not hok:
        run.violation("harness build failed", herr, failing_input_found=False)
        return
    quick = run.tier == "quick"
    items = [ext_script(rng, i) for i in range(16 if quick else 120)] + [res_script(rng, i) for i in range(12 if quick else 100)] + [foreign_script(rng, i) for i in range(4 if quick else 24)]
    recs = run_scripts([x[0] for x in items], timeout=3000)
    failing, cases, writes = [], [], []
    stats = {"deliveries": 0, "accepted": 0, "refused_missing": 0, "refused_other_value": 0, "retries_ok": 0, "joiners": 0, "foreign": 0}
    for (sc, meta), rs in zip(items, recs):
        if any(r.get("crash") for r in rs):
            failing.append({"what": "history interpreter crashed", "script": sc["name"]})
            continue
        byi = {r["i"]: r for r in rs if "i" in r}
        if any(r.get("err") == "PANIC" for r in rs):
            failing.append({"what": "PANIC", "script": sc["name"], "record": [r for r in rs if r.get("err") == "PANIC"][0]})
            continue
        special = {k for k, _ in meta["deliveries"]} | ({meta["join"]} if meta["join"] is not None else set()) | {k for k, _ in meta.get("attempts", [])}
        if meta["kind"] in ("external", "resumption"):
            # every storage write of a member of the (single) group: inserts, updates, what it had written before
            written = {}
            for r in rs:
                for call in r.get("storage") or []:
                    mm = re.fullmatch(r"gs\.write\(ins=\[([0-9, ]*)\],upd=\[([0-9, ]*)\]\)", call)
                    if not mm:
                        continue
                    ins = [int(x) for x in mm.group(1).split(",") if x.strip()]
                    upd = [int(x) for x in mm.group(2).split(",") if x.strip()]
                    prev = sorted(written.setdefault(r.get("who"), set()))
                    writes.append((ins, upd, prev, {"script": sc["name"], "member": r.get("who"), "op": r.get("i"), "call": call}))
                    written[r.get("who")].update(ins)
        for (k, x) in meta.get("attempts", []):
            r = byi.get(k, {})
            pre = byi.get(meta["obs"], {}).get("obs", {})
            ox = pre.get(x) or {}
            st_x = "[" + "; ".join(f"(1, {e}, {e})" for e in (ox.get("stored_epochs") or []) if e is not None) + "]"
            un_x = "[" + "; ".join(f"({e}, {e})" for e in meta["unwritten"].get(x, [])) + "]"
            cases.append((f"can_resolve_u {un_x} {st_x} 1 {meta['epoch']} [PResumption 1 {meta['ref']}]", bool(r.get("ok")),
                          {"script": sc["name"], "member": x, "kind": "resumption commit attempt", "referenced_epoch": meta["ref"], "current_epoch": meta["epoch"], "stored": ox.get("stored_epochs"), "unwritten": meta["unwritten"].get(x), "retention": meta["rets"].get(x), "library": r.get("err") or "ok"}))
        if meta["kind"] == "resumption" and not byi.get(meta["commit"], {}).get("ok"):
            # the committer itself no longer holds the epoch (compared with the model above): nothing to deliver
            meta = dict(meta, deliveries=[])
            special |= {r["i"] for r in rs if r.get("ok") is False and r["i"] > meta["commit"]}
        bad = [r for r in rs if r.get("ok") is False and r["i"] not in special]
        if bad:
            what = "once the PSK is known, the same commit is still refused" if any(bad[0]["i"] == k for k, _ in meta["retries"]) else "operation failed in the valid part of the scenario"
            failing.append({"what": what, "script": sc["name"], "record": bad[0], "op": sc["ops"][bad[0]["i"]]})
            continue
        fin = byi.get(meta["final"], {}).get("obs", {})
        c = meta["committer"]
        cobs = fin.get(c) or {}
        for (k, n) in meta["deliveries"]:
            r = byi.get(k, {})
            stats["deliveries"] += 1
            ctx = {"script": sc["name"], "member": n, "kind": meta["kind"]}
            ok = bool(r.get("ok"))
            if meta["kind"] == "external":
                hc, hn = meta["holds"][c], meta["holds"][n]
                ext_c = "[" + "; ".join(f"({int(p, 16)}, {int(hc[p][:2], 16)})" for p in meta["ids"]) + "]"
                ext_n = "[" + "; ".join(f"({int(p, 16)}, {int(v[:2], 16)})" for p, v in hn.items()) + "]"
                ids = "[" + "; ".join(f"PExternal {int(p, 16)}" for p in meta["ids"]) + "]"
                cases.append((f"same_psks {ext_c} [] {ext_n} [] 0 0 {ids}", ok, dict(ctx, holds=hn, committer_holds=hc, library=r.get("err") or "ok")))
                if not ok:
                    lacking = any(p not in hn for p in meta["ids"])
                    stats["refused_missing" if lacking else "refused_other_value"] += 1
            elif meta["kind"] == "resumption":
                pre = byi.get(meta["obs"], {}).get("obs", {})
                on = pre.get(n) or {}
                oc = pre.get(c) or {}
                st_n = "[" + "; ".join(f"(1, {e}, {e})" for e in (on.get("stored_epochs") or []) if e is not None) + "]"
                st_c = "[" + "; ".join(f"(1, {e}, {e})" for e in (oc.get("stored_epochs") or []) if e is not None) + "]"
                un = lambda x: "[" + "; ".join(f"({e}, {e})" for e in meta["unwritten"].get(x, [])) + "]"
                cases.append((f"same_psks_u {un(c)} {st_c} {un(n)} {st_n} 1 {meta['epoch']} [PResumption 1 {meta['ref']}]", ok,
                              dict(ctx, referenced_epoch=meta["ref"], current_epoch=meta["epoch"], joined_at=meta["join_epoch"].get(n), retention=meta["rets"].get(n), stored=on.get("stored_epochs"), unwritten=meta["unwritten"].get(n), library=r.get("err") or "ok")))
                if not ok:
                    stats["refused_missing"] += 1
            else:
                stats["foreign"] += 1
                # both members hold the other group's epochs in storage: the commit must be accepted
                if not byi.get(meta["commit"], {}).get("ok"):
                    continue
                if not ok:
                    failing.append(dict(ctx, what="members holding the same PSKs disagree: a resumption PSK of another group is refused by one of them", error=r.get("err")))
            o = (r.get("obs") or {}).get(n) or {}
            if ok:
                stats["accepted"] += 1
                if cobs.get("group") and (fin.get(n) or {}).get("auth") != cobs.get("auth"):
                    failing.append(dict(ctx, what="a member that accepted the PSK commit does not share the committer's new epoch"))
            else:
                if "snap_before" in r and o.get("snap") != r["snap_before"]:
                    failing.append(dict(ctx, what="a member that refused the PSK commit was changed by it", error=r.get("err")))
        stats["retries_ok"] += len(meta["retries"])
        if meta["join"] is not None:
            r = byi.get(meta["join"], {})
            stats["joiners"] += 1
            hj, hc = meta["holds"]["J"], meta["holds"][c]
            should = all(hj.get(p) == hc[p] for p in meta["ids"])
            if bool(r.get("ok")) != should:
                failing.append({"what": "a joiner without the PSKs used the Welcome" if r.get("ok") else "a joiner holding all PSKs could not use the Welcome", "script": sc["name"], "joiner_holds": hj, "committer_holds": hc, "error": r.get("err")})
    mism = []
    coq_cases = 0
    if model_ready(proofs_ok) and cases:
        text = ("From Coq Require Import NArith List Bool.\nFrom MlsV Require Import PskIdeal Pending.\nImport ListNotations.\nLocal Open Scope N_scope.\n"
                "Definition hol (ext : list (N * N)) (st : list (N * N * N)) (gid ep : N) : holder := {| h_gid := gid; h_epoch := ep; h_current := ep; h_unwritten := []; h_stored := st; h_external := ext |}.\n"
                "Definition same_psks (ec : list (N * N)) (sc : list (N * N * N)) (en : list (N * N)) (sn : list (N * N * N)) (gid ep : N) (ids : list pskid) : N :=\n"
                "  match resolve_all (hol ec sc gid ep) ids, resolve_all (hol en sn gid ep) ids with\n"
                "  | Some a, Some b => if list_eqb a b then 1 else 0 | _, _ => 0 end.\n"
                "Definition can_resolve (st : list (N * N * N)) (gid ep : N) (ids : list pskid) : N := match resolve_all (hol [] st gid ep) ids with Some _ => 1 | None => 0 end.\n"
                "Definition holu (un : list (N * N)) (st : list (N * N * N)) (gid ep : N) : holder := {| h_gid := gid; h_epoch := ep; h_current := ep; h_unwritten := un; h_stored := st; h_external := [] |}.\n"
                "Definition can_resolve_u (un : list (N * N)) (st : list (N * N * N)) (gid ep : N) (ids : list pskid) : N := match resolve_all (holu un st gid ep) ids with Some _ => 1 | None => 0 end.\n"
                "Definition same_psks_u (uc : list (N * N)) (sc : list (N * N * N)) (un : list (N * N)) (sn : list (N * N * N)) (gid ep : N) (ids : list pskid) : N :=\n"
                "  match resolve_all (holu uc sc gid ep) ids, resolve_all (holu un sn gid ep) ids with\n"
                "  | Some a, Some b => if list_eqb a b then 1 else 0 | _, _ => 0 end.\n"
                "Eval vm_compute in [" + ";\n".join(c[0] for c in cases) + "].\n")
        nums, logtxt = coq_eval_cases("C18_cases", text, timeout=900)
        if nums is None or len(nums) != len(cases):
            broken.append(("correspondence", "Coq evaluation of the resolution model failed: " + (logtxt or "")[-500:]))
        else:
            for (expr, ok, ctx), v in zip(cases, nums):
                coq_cases += 1
                if bool(v) != ok:
                    (failing if True else mism).append(dict(ctx, what="a member holding every PSK was refused (commit or build)" if v == 1 else "a member that lacks a PSK, holds another value or no longer retains the referenced epoch ACCEPTED the commit / could build it", model="accept" if v else "refuse"))
    wf_cases = 0
    if model_ready(proofs_ok) and writes:
        lst = lambda l: "[" + "; ".join(str(x) for x in l) + "]"
        distinct = sorted({(tuple(a), tuple(b), tuple(c)) for a, b, c, _ in writes})
        text = ("From Coq Require Import NArith List Bool.\nFrom MlsV Require Import PskIdeal.\nImport ListNotations.\nLocal Open Scope N_scope.\n"
                "Definition wf_write (ins upd st : list N) : N :=\n"
                "  if repo_wf {| r_gid := 1; r_inserts := map (fun e => (e, e)) ins; r_updates := map (fun e => (e, e)) upd; r_stored := map (fun e => (1, e, e)) st |} then 1 else 0.\n"
                "Eval vm_compute in [" + ";\n".join(f"wf_write {lst(a)} {lst(b)} {lst(c)}" for a, b, c in distinct) + "].\n")
        nums, logtxt = coq_eval_cases("C18_writes", text, timeout=600)
        if nums is None or len(nums) != len(distinct):
            broken.append(("correspondence", "Coq evaluation of repo_wf failed: " + (logtxt or "")[-500:]))
        else:
            verdict = dict(zip(distinct, nums))
            for a, b, c, ctx in writes:
                wf_cases += 1
                if verdict[(tuple(a), tuple(b), tuple(c))] != 1:
                    broken.append(("bookkeeping", dict(ctx, what="a storage write does not satisfy repo_wf (consecutive inserts, written epochs older than the first insert): the hypothesis of C18_translated_repository_lookup_is_the_model is not met by the library", inserts=a, updates=b, written_before=c)))
    run.obligation("every observed storage write satisfies the repository bookkeeping repo_wf assumed by the translated lookup", wf_cases > 0 and not any(b[0] == "bookkeeping" for b in broken))
    run.obligation("acceptance of every PSK commit = resolution model; acceptors agree, refusers unchanged, late PSK arrival heals, joiners need the PSKs", not failing and not mism and coq_cases > 0)
    if stats["refused_missing"] < 3 or stats["refused_other_value"] < 2 or stats["accepted"] < 10:
        broken.append(("generator", f"degenerate scenarios: {stats}"))
    run.cov.update({
        "evaluations": stats["deliveries"] + stats["joiners"] + stats["retries_ok"],
        "distinct_nontrivial": len({c[0] for c in cases}),
        "rule": "five members; external: 1-3 PSK ids, each member holds the committer's value (3/5), another value (1/5) or nothing (1/5), proposals by reference or by value in random order, optional joiner; resumption: 4-6 epochs with saves, retention 1/2/6 per member, a member joining midway, a commit with the resumption PSK of a random earlier epoch; foreign: a branch group commits with a resumption PSK of the parent group under different write patterns.",
        "samples": [cases[0][2]] if cases else [],
        "stats": stats,
        "resolution_cases_in_coq": coq_cases,
        "storage_writes_checked_against_repo_wf": wf_cases,
        "histories": len(items),
    })
    if failing:
        run.violation("a PSK commit was followed by a member that does not know the PSKs, or refused by one that does", failing[:8])
    elif broken:
        run.violation("proof obligation or tie no longer checks: " + broken[0][0], [b[1] for b in broken], failing_input_found=False)
