"""C14 - the shipped crypto providers are interchangeable.

Decision: the providers are foreign code; what is proved (coq/Props/C14.v) is the REFERENCE they
are compared with: shape theorems of the Gallina SHA-2 / HMAC / HKDF for every input, and
soundness / completeness / rejection theorems of the chain-validation model.
Tie / search oracle (this file): `mlsh prov` runs every request on every provider that supports
the cipher suite:
  * deterministic primitives (hash, MAC, KDF extract / expand, AEAD seal / open, KEM key
    derivation, signature public key, KEM public-key validation): all answers byte-identical,
    errors included, and hash / MAC / KDF equal to the Gallina reference evaluated in Coq;
  * randomised primitives: signature made by P verified by Q (good / wrong data / wrong
    signature / truncated), HPKE seal by P opened by Q in base and PSK mode with wrong aad /
    info / psk, exporter agreement of setup_s / setup_r;
  * X.509: generated PKIs (valid, expired, not yet valid, times at and around both boundaries,
    wrong signature, wrong issuer name, missing / reordered / extra intermediate, non-CA issuer,
    missing basic constraints, unknown or impostor root, root in chain, no validation time): the
    three verdicts and the returned key against the model evaluated in Coq;
  * groups whose members use different providers (agreement oracle of C01) on every cipher
    suite that at least two providers share."""
import json
import subprocess

from .common import *
from .histlib import run_scripts
from . import c01

SUITE_ALG = {1: 0, 2: 0, 3: 0, 4: 2, 5: 2, 6: 2, 7: 1}
NH = {0: 32, 1: 48, 2: 64}
AEAD_KEY = {1: 16, 2: 16, 3: 32, 4: 32, 5: 32, 6: 32, 7: 32}
SIG_SK = {1: 32, 2: 32, 3: 32, 4: 57, 5: 66, 6: 57, 7: 48}
PROVS = ("openssl", "awslc", "rustcrypto")
T0 = 1700000000


def prov_run(reqs, shards=16, timeout=1800):
    from concurrent.futures import ThreadPoolExecutor
    shards = max(1, min(shards, len(reqs)))
    groups = [reqs[i::shards] for i in range(shards)]

    def one(g):
        inp = "".join(json.dumps(r) + "\n" for r in g)
        p = subprocess.run([MLSH, "prov"], input=inp, capture_output=True, text=True, timeout=timeout, env=ENV)
        out = []
        for line in p.stdout.splitlines():
            try:
                out.append(json.loads(line))
            except ValueError:
                out.append({"crash": line[:200]})
        while len(out) < len(g):
            out.append({"crash": p.stderr[-300:]})
        return out

    with ThreadPoolExecutor(max_workers=shards) as ex:
        res = list(ex.map(one, groups))
    merged = [None] * len(reqs)
    for gi, g in enumerate(res):
        for k, r in enumerate(g):
            merged[gi + k * shards] = r
    return merged


LENS = [0, 1, 3, 31, 32, 33, 55, 56, 57, 63, 64, 65, 111, 112, 113, 119, 120, 127, 128, 129, 191, 200, 256, 300]


def det_requests(rng, quick):
    """Deterministic-primitive requests; second component: Gallina case or None."""
    reqs = []
    suites = [1, 2, 3, 4, 5, 6, 7]
    lens = LENS if not quick else [0, 1, 32, 55, 56, 63, 64, 65, 111, 112, 127, 128, 129, 200]
    for s in suites:
        a = SUITE_ALG[s]
        nh = NH[a]
        for n in lens:
            d = rng.bytes(n)
            reqs.append(({"t": "hash", "suite": s, "data": d.hex()}, ("PHash", a, [d])))
        for n in (rng.shuffle(lens)[:8] + [0]):
            for kl in (0, 1, nh, 64, 65, 128, 129, 200)[: 4 if quick else 8]:
                k = rng.bytes(kl)
                d = rng.bytes(n)
                reqs.append(({"t": "mac", "suite": s, "key": k.hex(), "data": d.hex()}, ("PMac", a, [k, d])))
        for sl in (0, 1, nh, 129):
            for il in (0, 1, nh, 200):
                sa, ik = rng.bytes(sl), rng.bytes(il)
                # the providers refuse an empty IKM by design (TooShortKey)
                reqs.append(({"t": "kdf_extract", "suite": s, "salt": sa.hex(), "ikm": ik.hex()}, ("PExtract", a, [sa, ik]) if il else None))
        for ln in (0, 1, nh - 1, nh, nh + 1, 2 * nh, 2 * nh + 1, 5 * nh + 7, 255 * nh, 255 * nh + 1):
            for il in (0, 10, 80):
                prk, info = rng.bytes(rng.choice([nh, nh, 16, 0, 100])), rng.bytes(il)
                gal = ("PExpand", a, [prk, info], ln) if ln <= 6 * nh and len(prk) >= nh else None    # shorter PRKs are refused by design
                reqs.append(({"t": "kdf_expand", "suite": s, "prk": prk.hex(), "info": info.hex(), "len": ln}, gal))
        kl = AEAD_KEY[s]
        for n in (0, 1, 15, 16, 17, 64, 300):
            for aad in (None, b"", b"aad-bytes"):
                for (klen, nlen) in ((kl, 12), (kl - 1, 12), (kl + 1, 12), (kl, 11), (kl, 13), (0, 12), (kl, 0)):
                    if (klen, nlen) != (kl, 12) and (n not in (0, 16) or aad is None):
                        continue
                    q = {"t": "aead_seal", "suite": s, "key": rng.bytes(klen).hex(), "pt": rng.bytes(n).hex(), "nonce": rng.bytes(nlen).hex()}
                    if aad is not None:
                        q["aad"] = aad.hex()
                    reqs.append((q, None))
        for n in (0, 1, 31, 32, 33, 48, 64, 66, 100):
            reqs.append(({"t": "kem_derive", "suite": s, "ikm": rng.bytes(n).hex()}, None))
        sl = SIG_SK[s]
        if s in (1, 3):
            # Ed25519 secret keys are seed || public key: the seeds are completed in a second pass
            for n in (32, 32, 32, 31, 0, 16):
                reqs.append(({"t": "sig_pub", "suite": s, "sk": rng.bytes(n).hex()}, None))
            continue
        for n in (sl, sl, sl, sl - 1, sl + 1, 0, 2 * sl):
            sk = rng.bytes(n)
            if s in (5,) and n == sl:
                sk = bytes([sk[0] & 1]) + sk[1:]          # P-521 scalars have 521 bits
            reqs.append(({"t": "sig_pub", "suite": s, "sk": sk.hex()}, None))
        reqs.append(({"t": "sig_pub", "suite": s, "sk": (b"\x00" * sl).hex()}, None))
        reqs.append(({"t": "sig_pub", "suite": s, "sk": (b"\xff" * sl).hex()}, None))
    return reqs


def open_requests(rng, seal_reqs, seal_outs):
    """aead_open on what the providers sealed: genuine, flipped bit, truncated, wrong aad."""
    reqs = []
    for q, out in zip(seal_reqs, seal_outs):
        cts = {v for k, v in out.items() if isinstance(v, str) and v not in ("ERR", "PANIC")}
        if len(cts) != 1:
            continue
        ct = bytes.fromhex(next(iter(cts)))
        base = {"t": "aead_open", "suite": q["suite"], "key": q["key"], "nonce": q["nonce"]}
        if "aad" in q:
            base["aad"] = q["aad"]
        variants = [ct, ct[:-1], ct[:15], b"", ct + b"\x00"]
        if ct:
            j = rng.below(len(ct))
            variants.append(ct[:j] + bytes([ct[j] ^ (1 << rng.below(8))]) + ct[j + 1:])
        for v in variants:
            reqs.append(dict(base, ct=v.hex()))
        reqs.append(dict(base, ct=ct.hex(), aad="00"))
        w = dict(base, ct=ct.hex())
        w["key"] = (bytes([bytes.fromhex(q["key"])[0] ^ 1]) + bytes.fromhex(q["key"])[1:]).hex() if q["key"] else "00"
        reqs.append(w)
    return reqs


def ed25519_requests(rng, reqs, outs):
    """Second pass for Ed25519: seed || public key (the well-formed secret key), its truncations and
    extensions, and pairs whose halves do not belong together."""
    out = []
    for q, o in zip(reqs, outs):
        if q["t"] != "sig_pub" or q["suite"] not in (1, 3) or len(q["sk"]) != 64:
            continue
        pk = o.get("openssl")
        if not isinstance(pk, str) or len(pk) != 64:
            continue
        good = bytes.fromhex(q["sk"]) + bytes.fromhex(pk)
        bad = bytearray(good)
        bad[32 + rng.below(32)] ^= 1 << rng.below(8)
        for v, wf in ((good, True), (good[:63], False), (good + b"\x00", False), (bytes(bad), False), (good[32:] + good[:32], False)):
            out.append(({"t": "sig_pub", "suite": q["suite"], "sk": v.hex()}, wf, pk))
    return out


def kem_validate_requests(rng, derive_reqs, derive_outs):
    reqs = []
    for q, out in zip(derive_reqs, derive_outs):
        pks = {v[1] for v in out.values() if isinstance(v, list)}
        if len(pks) != 1:
            continue
        pk = bytes.fromhex(next(iter(pks)))
        vs = [pk, pk[:-1], pk + b"\x00", b"", bytes(len(pk)), b"\xff" * len(pk)]
        j = rng.below(len(pk))
        vs.append(pk[:j] + bytes([pk[j] ^ (1 << rng.below(8))]) + pk[j + 1:])
        if pk[:1] == b"\x04":
            vs.append(b"\x02" + pk[1:1 + (len(pk) - 1) // 2])     # compressed form
            vs.append(b"\x04" + bytes(len(pk) - 1))
        for v in vs:
            reqs.append({"t": "kem_validate", "suite": q["suite"], "pk": v.hex()})
    return reqs


def coq_str(b):
    return '"' + b.hex() + '"%string'


def coq_p_shard(i, cases):
    def one(c, exp):
        k, a, bs = c[0], c[1], c[2]
        t = f"{k} {a} " + " ".join(coq_str(b) for b in bs) + (f" {c[3]}" if len(c) > 3 else "")
        return f"({t}, {coq_str(exp)})"
    items = ";\n".join(one(c, e) for c, e in cases)
    text = ("From Coq Require Import NArith List String.\nFrom MlsV Require Import ProvCases.\n"
            "Import ListNotations.\nLocal Open Scope N_scope.\n"
            f"Definition cases : list (pcase * string) := [\n{items}\n].\n"
            "Eval vm_compute in (p_mismatches cases).\n")
    return coq_eval_cases(f"C14_prim_{i}", text, timeout=1500)


# ---- X.509 ---------------------------------------------------------------------------------
def cert(name, issuer, ca, nb=T0 - 1000, na=T0 + 1000, **kw):
    d = {"name": name, "issuer": issuer, "ca": ca, "nb": nb, "na": na}
    d.update(kw)
    return d


def x509_cases(rng, quick):
    """(label, case).  Certificates: index 0 leaf, then intermediates, last the root."""
    cases = []
    n_rand = 60 if quick else 600
    for i in range(n_rand):
        depth = rng.choice([0, 1, 1, 2, 2, 3])          # number of intermediates
        n = depth + 2
        certs = [cert(f"n{j}", min(j + 1, n - 1), j > 0) for j in range(n)]
        chain = list(range(n - 1))
        roots = [n - 1]
        time = T0
        label = []
        for _ in range(rng.choice([0, 1, 1, 1, 2])):
            m = rng.choice(["expired", "notyet", "boundary", "bad_sig", "issuer_name", "missing", "reorder", "non_ca", "no_bc", "unknown_root",
                            "impostor_root", "root_in_chain", "junk", "no_time", "two_roots", "root_expired_edge"])
            label.append(m)
            j = rng.below(n)
            if m == "expired":
                certs[j]["na"] = T0 - rng.choice([1, 2, 500])
            elif m == "notyet":
                certs[j]["nb"] = T0 + rng.choice([1, 2, 500])
            elif m == "boundary":
                which = rng.choice(["nb", "na"])
                certs[j][which] = T0 + rng.choice([-1, 0, 0, 1])
            elif m == "bad_sig":
                certs[rng.below(n - 1)]["bad_sig"] = True
            elif m == "issuer_name":
                certs[rng.below(n - 1)]["issuer_name"] = "nobody"
            elif m == "missing" and len(chain) > 1:
                del chain[1 + rng.below(len(chain) - 1)]
            elif m == "reorder" and len(chain) > 2:
                rest = chain[1:]
                rest = rng.shuffle(rest)
                chain = [chain[0]] + rest
            elif m == "non_ca" and n > 2:
                certs[1 + rng.below(n - 2)]["ca"] = False
            elif m == "no_bc" and n > 2:
                certs[1 + rng.below(n - 2)]["no_bc"] = True
            elif m == "unknown_root":
                certs.append(cert("other", len(certs), True))
                roots = [len(certs) - 1]
            elif m == "impostor_root":
                certs.append(cert(certs[n - 1]["name"], len(certs), True))
                roots = [len(certs) - 1]
            elif m == "root_in_chain":
                chain = chain + [n - 1]
            elif m == "junk":
                certs.append(cert("junk", len(certs), True))
                chain = chain + [len(certs) - 1]
            elif m == "no_time":
                time = None
            elif m == "two_roots":
                certs.append(cert("other2", len(certs), True))
                roots = rng.shuffle(roots + [len(certs) - 1])
            elif m == "root_expired_edge":
                certs[n - 1]["na"] = T0 + rng.choice([-1, 0, 1])
        if time is not None and rng.chance(1, 4):
            time = T0 + rng.choice([-1001, -1000, -999, 999, 1000, 1001])
        cases.append(("+".join(label) or "valid", {"certs": certs, "chain": chain, "roots": roots, "time": time}))
    # boundary sweep: every certificate position x {nb, na} x {-1, 0, +1}
    for depth in (0, 1, 2):
        n = depth + 2
        for j in range(n):
            for which in ("nb", "na"):
                for dt in (-1, 0, 1):
                    certs = [cert(f"n{k}", min(k + 1, n - 1), k > 0) for k in range(n)]
                    certs[j][which] = T0 + dt
                    cases.append((f"sweep-{which}{dt:+d}-pos{j}/{n}", {"certs": certs, "chain": list(range(n - 1)), "roots": [n - 1], "time": T0}))
                    # the same with the trust anchor itself sent along at the end of the chain: the verdict
                    # must not depend on it (the anchor's own validity period counts either way)
                    cases.append((f"sweep-{which}{dt:+d}-pos{j}/{n}-root-in-chain", {"certs": [dict(c) for c in certs], "chain": list(range(n)), "roots": [n - 1], "time": T0}))
    base = [cert("leaf", 1, False), cert("int", 2, True), cert("root", 2, True)]
    four = [cert("leaf", 1, False), cert("int1", 2, True), cert("int2", 3, True), cert("root", 3, True)]
    directed = {
        "valid": dict(certs=base, chain=[0, 1], roots=[2], time=T0),
        "no_time": dict(certs=base, chain=[0, 1], roots=[2], time=None),
        "leaf_expired_no_time": dict(certs=[cert("leaf", 1, False, na=T0 - 10), base[1], base[2]], chain=[0, 1], roots=[2], time=None),
        "reordered": dict(certs=four, chain=[0, 2, 1], roots=[3], time=T0),
        "reordered_with_root": dict(certs=four, chain=[0, 2, 1, 3], roots=[3], time=T0),
        "ordered2": dict(certs=four, chain=[0, 1, 2], roots=[3], time=T0),
        "missing_first_int": dict(certs=four, chain=[0, 2], roots=[3], time=T0),
        "missing_second_int": dict(certs=four, chain=[0, 1], roots=[3], time=T0),
        "non_ca_issuer": dict(certs=[base[0], cert("int", 2, False), base[2]], chain=[0, 1], roots=[2], time=T0),
        "unknown_root": dict(certs=base + [cert("other", 3, True)], chain=[0, 1], roots=[3], time=T0),
        "leaf_direct_root": dict(certs=[cert("leaf", 1, False), cert("root", 1, True)], chain=[0], roots=[1], time=T0),
        "extra_unrelated_cert": dict(certs=base + [cert("junk", 3, True)], chain=[0, 1, 3], roots=[2], time=T0),
        "wrong_issuer_name": dict(certs=[cert("leaf", 1, False, issuer_name="nobody"), base[1], base[2]], chain=[0, 1], roots=[2], time=T0),
        "int_no_basic_constraints": dict(certs=[base[0], cert("int", 2, True, no_bc=True), base[2]], chain=[0, 1], roots=[2], time=T0),
        "bad_sig_leaf": dict(certs=[cert("leaf", 1, False, bad_sig=True), base[1], base[2]], chain=[0, 1], roots=[2], time=T0),
        "bad_sig_int": dict(certs=[base[0], cert("int", 2, True, bad_sig=True), base[2]], chain=[0, 1], roots=[2], time=T0),
        "no_roots": dict(certs=base, chain=[0, 1], roots=[], time=T0),
    }
    for k, v in directed.items():
        cases.append(("directed:" + k, v))
    cases.append(("empty_chain", {"certs": [cert("a", 1, False), cert("r", 1, True)], "chain": [], "roots": [1], "time": T0}))
    cases.append(("root_only", {"certs": [cert("r", 0, True)], "chain": [0], "roots": [0], "time": T0}))
    return cases


def model_cert(spec, certs, i, names):
    iss = spec.get("issuer", i)
    iname = spec.get("issuer_name") or certs[min(iss, len(certs) - 1)]["name"]
    sw = 999 if spec.get("bad_sig") else min(iss, len(certs) - 1) + 1
    ca = bool(spec.get("ca")) and not spec.get("no_bc")
    nid = lambda s: names.setdefault(s, len(names) + 1)
    return f"mk {nid(spec['name'])} {nid(iname)} {spec['nb']} {spec['na']} {'true' if ca else 'false'} {sw} {i + 1}"


def coq_x_shard(i, cases):
    rows = []
    for _, c in cases:
        names = {}
        cs = [model_cert(s, c["certs"], k, names) for k, s in enumerate(c["certs"])]
        lst = lambda idx: "[" + "; ".join(cs[k] for k in idx if k < len(cs)) + "]"
        t = "None" if c["time"] is None else f"(Some {c['time']})"
        rows.append(f"x509_code {lst(c['roots'])} {t} {lst(c['chain'])}")
    text = ("From Coq Require Import NArith List String.\nFrom MlsV Require Import X509 ProvCases.\n"
            "Import ListNotations.\nLocal Open Scope N_scope.\n"
            "Eval vm_compute in ([\n" + ";\n".join(rows) + "\n] : list N).\n")
    return coq_eval_cases(f"C14_x509_{i}", text, timeout=1500)


def main(run, args):
    rng = Rng(run.seed)
    run.assumptions += [
        "the three providers are foreign libraries; their agreement is decided by running them side by side on generated inputs, the theorems fix the reference they are compared with",
        "certificates are P-256 / SHA-256 certificates built with the openssl crate; keys and names are tokens in the model (signature and name equality are taken as given by the cryptographic library)",
        "HPKE / signature / AEAD have no Gallina reference: they are compared between providers only (and, through C13, with the RFC 9420 labels)",
    ]
    broken = []
    proofs_ok, log = prove(run, "C14", extra_targets=["Model/ProvCases.vo"])
    if not proofs_ok:
        broken.append(("proof", "Props/C14.v does not check; " + "; ".join(run.notes[-1:])))
    hok, herr = build_harness()
    if not hok:
        run.violation("harness build failed", herr, failing_input_found=False)
        return
    quick = run.tier == "quick"
    known = {k.get("id") for k in load_known_findings()}
    failing = []
    stats = {}

    seen_known = set()

    def agree(q, out, what):
        if (q["t"] == "sig_pub" and q["suite"] in (1, 3) and len(q["sk"]) >= 64 and not q.get("well_formed") and "F25" in known
                and "PANIC" not in out.values()):
            seen_known.add("F25")
            return True
        if "crash" in out:
            failing.append({"what": "harness crashed", "request": q, "detail": out})
            return False
        vals = {k: json.dumps(v, sort_keys=True) for k, v in out.items()}
        if any(v == '"PANIC"' for v in vals.values()):
            failing.append({"what": f"{what}: a provider panicked", "request": q, "answers": out})
            return False
        if len(set(vals.values())) > 1:
            failing.append({"what": f"{what}: providers disagree", "request": q, "answers": out})
            return False
        return True

    # ---- deterministic primitives
    det = det_requests(rng, quick)
    outs = prov_run([q for q, _ in det])
    gal = []
    for (q, g), out in zip(det, outs):
        stats[q["t"]] = stats.get(q["t"], 0) + 1
        if agree(q, out, q["t"]) and g is not None and len(out) >= 1:
            v = next(iter(out.values()))
            if isinstance(v, str) and v not in ("ERR", "PANIC"):
                gal.append((g, bytes.fromhex(v), q))
            else:
                failing.append({"what": f"{q['t']}: every provider failed on an input the reference accepts", "request": q, "answers": out})
    seal = [(q, o) for (q, _), o in zip(det, outs) if q["t"] == "aead_seal"]
    opens = open_requests(rng, [q for q, _ in seal], [o for _, o in seal])
    derive = [(q, o) for (q, _), o in zip(det, outs) if q["t"] == "kem_derive"]
    kvs = kem_validate_requests(rng, [q for q, _ in derive], [o for _, o in derive])
    eds = ed25519_requests(rng, [q for q, _ in det], outs)
    edq = [dict(q, well_formed=wf) for q, wf, _ in eds]
    outs2 = prov_run(opens + kvs + edq)
    n_open_ok = 0
    for (q, wf, pk), out in zip(eds, outs2[len(opens) + len(kvs):]):
        if wf and any(v != pk for v in out.values()):
            failing.append({"what": "sig_pub: a well-formed Ed25519 secret key (seed || public key) does not give its public key on every provider", "request": q, "answers": out})
    for q, out in zip(opens + kvs + edq, outs2):
        stats[q["t"]] = stats.get(q["t"], 0) + 1
        agree(q, out, q["t"])
        if q["t"] == "aead_open" and all(isinstance(v, str) and v not in ("ERR", "PANIC") for v in out.values()):
            n_open_ok += 1
    stats["aead_open_accepted"] = n_open_ok
    # sealing then opening gives the plaintext back (first variant of each group)
    # Gallina comparison, sharded
    if not quick:
        gal_use = gal
    else:
        gal_use = [g for g in gal if sum(len(b) for b in g[0][2]) <= 420][:700]
    nsh = 16
    from concurrent.futures import ThreadPoolExecutor
    shards = [gal_use[i::nsh] for i in range(nsh)]
    with ThreadPoolExecutor(max_workers=nsh) as ex:
        res = list(ex.map(lambda p: coq_p_shard(p[0], [(g, e) for g, e, _ in p[1]]) if p[1] else ([], ""), enumerate(shards)))
    n_gal = 0
    for sh_cases, (nums, msg) in zip(shards, res):
        if nums is None:
            broken.append(("reference evaluation", msg[-1500:]))
            continue
        n_gal += len(sh_cases)
        for j in nums:
            g, e, q = sh_cases[j]
            failing.append({"what": f"{q['t']}: all providers agree with each other but not with the Gallina reference", "request": q, "provider_value": e.hex()})
    run.obligation("deterministic primitives: identical answers on every provider, equal to the Gallina SHA-2 / HMAC / HKDF", not failing and n_gal > 0)

    # ---- randomised primitives
    nf = len(failing)
    rreqs = []
    for s in [1, 2, 3, 4, 5, 6, 7]:
        for n in ([0, 1, 64, 300] if quick else [0, 1, 31, 32, 64, 127, 128, 300, 1000]):
            rreqs.append({"t": "sign", "suite": s, "data": rng.bytes(n).hex()})
        for (il, al, pl, psk) in ([(0, 0, 0, 0), (5, 7, 33, 32), (40, 0, 1, 16), (0, 20, 200, 0)] if quick else
                                  [(0, 0, 0, 0), (5, 7, 33, 32), (40, 0, 1, 16), (0, 20, 200, 0), (100, 100, 1000, 64), (1, 1, 16, 32), (0, 0, 15, 32)]):
            rreqs.append({"t": "hpke", "suite": s, "ikm": rng.bytes(rng.choice([32, 48, 66])).hex(), "info": rng.bytes(il).hex(), "aad": rng.bytes(al).hex(),
                          "pt": rng.bytes(pl).hex(), "psk": rng.bytes(psk).hex(), "psk_id": rng.bytes(8 if psk else 0).hex()})
    routs = prov_run(rreqs)
    pairs = 0
    for q, out in zip(rreqs, routs):
        stats[q["t"]] = stats.get(q["t"], 0) + 1
        if "crash" in out:
            failing.append({"what": "harness crashed", "request": q, "detail": out})
            continue
        for maker, row in out.items():
            if not isinstance(row, dict):
                failing.append({"what": f"{q['t']}: {maker} could not derive a key pair", "request": q, "answer": row})
                continue
            if q["t"] == "sign":
                if not row.get("made"):
                    failing.append({"what": f"sign: {maker} could not generate a key or sign", "request": q})
                    continue
                for ver in PROVS:
                    c = row.get(ver)
                    if c is None:
                        continue
                    pairs += 1
                    want = {"good": True, "wrong_data": False, "wrong_sig": False, "truncated": False, "same_public": True}
                    if c != want:
                        failing.append({"what": f"signature made by {maker}, judged by {ver}", "request": q, "got": c, "expected": want})
            else:
                for ver in PROVS:
                    c = row.get(ver)
                    if c is None:
                        continue
                    pairs += 1
                    # an empty plaintext is refused by every provider by design, a PSK shorter than 32
                    # bytes by RFC 9180 5.1.1: then no ciphertext exists and the cells must be absent
                    want = {"export_equal": True}
                    if q["pt"]:
                        want.update({"open": True, "open_wrong_aad": False, "open_wrong_info": False})
                    if q["pt"] and len(q["psk"]) >= 64:
                        want.update({"open_psk": True, "open_psk_wrong_value": False, "open_psk_as_base": False})
                    if c != want:
                        failing.append({"what": f"HPKE made by {maker}, opened by {ver}", "request": q, "got": c, "expected": want})
    stats["maker_verifier_pairs"] = pairs
    run.obligation("randomised primitives interoperate between every pair of providers (signatures, HPKE base / PSK, exporter)", len(failing) == nf and pairs > 0)

    # ---- X.509
    nf = len(failing)
    xc = x509_cases(rng, quick)
    xouts = prov_run([dict(t="x509", suite=2, **c) for _, c in xc])
    nsh = 8
    xsh = [xc[i::nsh] for i in range(nsh)]
    with ThreadPoolExecutor(max_workers=nsh) as ex:
        xres = list(ex.map(lambda p: coq_x_shard(p[0], p[1]), enumerate(xsh)))
    codes = [None] * len(xc)
    for si, (nums, msg) in enumerate(xres):
        if nums is None or len(nums) != len(xsh[si]):
            broken.append(("chain-validation model evaluation", (msg or "")[-1500:]))
            continue
        for k, v in enumerate(nums):
            codes[si + k * nsh] = v
    verdicts = {"accept": 0, "reject": 0}
    labels = {}
    for (label, c), out, code in zip(xc, xouts, codes):
        if code is None:
            continue
        labels[label.split("-")[0].split("+")[0]] = labels.get(label.split("-")[0].split("+")[0], 0) + 1
        model_ok = bool(code & 1)
        later_ok = bool(code & 2)
        any_order_ok = bool(code & 4)
        verdicts["accept" if model_ok else "reject"] += 1
        if "crash" in out:
            failing.append({"what": "harness crashed", "case": c, "detail": out})
            continue
        for p in PROVS:
            v = out.get(p)
            if v == "PANIC" or not isinstance(v, dict):
                failing.append({"what": f"x509: {p} panicked / no verdict", "label": label, "case": c, "answer": v})
                continue
            if v["ok"] == model_ok:
                if v["ok"] and v.get("pk") != out.get("leaf_pk"):
                    failing.append({"what": f"x509: {p} accepted the chain but returned a key that is not the leaf's", "label": label, "case": c, "answer": v})
                continue
            ctx = {"label": label, "case": c, "provider": p, "provider_verdict": v, "model_accepts": model_ok, "all": {q: (out.get(q) or {}).get("ok") if isinstance(out.get(q), dict) else out.get(q) for q in PROVS}}
            if model_ok and not v["ok"] and not later_ok and p in ("openssl", "awslc") and "expired" in v.get("err", "") and "F14" in known:
                seen_known.add("F14")
                continue
            if not model_ok and v["ok"] and any_order_ok and p in ("openssl", "awslc") and "F15" in known:
                seen_known.add("F15")
                continue
            failing.append(dict(ctx, what=f"x509: {p} " + ("accepts a chain the reference rejects" if v["ok"] else "rejects a chain the reference accepts")))
    if "F25" in seen_known:
        run.known_finding("F25 sig_pub: malformed Ed25519 secret keys (bare seed, inconsistent seed || public pair) are accepted / derived differently by the three providers")
    if "F14" in seen_known:
        run.known_finding("F14 x509: OpenSSL and AWS-LC reject a certificate at validation time == notAfter (RFC 5280: the period includes notAfter); RustCrypto and the reference accept")
    if "F15" in seen_known:
        run.known_finding("F15 x509: OpenSSL and AWS-LC accept a chain whose intermediates are out of issuer order; RustCrypto and the reference (RFC 9420 5.3 ordering) reject")
    stats["x509_cases"] = len(xc)
    stats["x509_model_verdicts"] = verdicts
    stats["x509_labels"] = labels
    if verdicts["accept"] < 10 or verdicts["reject"] < 10:
        broken.append(("generator", f"degenerate x509 cases: {verdicts}"))
    run.obligation("x509: the three validators give the reference verdict and the leaf's key on every generated PKI (known findings aside)", len(failing) == nf)

    # ---- mixed-provider groups
    nf = len(failing)
    mixes = [(1, ["openssl", "awslc", "rustcrypto"]), (2, ["awslc", "rustcrypto"]), (3, ["openssl", "rustcrypto"]), (5, ["openssl", "awslc"]),
             (7, ["openssl", "awslc", "rustcrypto"]), (7, ["rustcrypto", "awslc"]), (2, ["openssl", "awslc"]), (3, ["awslc", "openssl", "rustcrypto"])]
    items = [c01.gen(rng, i, True, suite=mixes[i % len(mixes)][0], provs=mixes[i % len(mixes)][1]) for i in range(8 if quick else 64)]
    recs = run_scripts([x[0] for x in items], timeout=3000)
    gfail, gstats = c01.judge(items, recs)
    failing += gfail
    stats["mixed_groups"] = {k: gstats[k] for k in ("commits", "member_comparisons", "cross_decryptions", "suites", "provider_mixes")}
    run.obligation("members using different providers form one working group (C01 oracle) on suites 1,2,3,5,7", len(failing) == nf and gstats["member_comparisons"] > 0)

    run.cov.update({
        "evaluations": len(det) + len(opens) + len(kvs) + pairs + len(xc) * 3 + gstats["member_comparisons"],
        "distinct_nontrivial": len(det) + len(opens) + len(kvs) + len(rreqs) + len(xc) + gstats["commits"],
        "rule": "per cipher suite 1-7 (every provider that supports it): hash over 14 (thorough 24) lengths incl. 0 and the padding boundaries 55/56/63/64/65/111/112/127/128/129; MAC over key lengths 0,1,Nh,64,65,128,129,200 x data lengths; KDF extract salt x ikm lengths incl. empty; KDF expand to 0,1,Nh-1,Nh,Nh+1,2Nh,2Nh+1,5Nh+7,255Nh,255Nh+1 bytes; AEAD seal with right / short / long / empty key and nonce, aad absent / empty / present, then open of the genuine ciphertext, truncated, extended, bit-flipped, wrong aad, wrong key; KEM derive over ikm lengths; public key from right / short / long / zero / all-ones signature secret; KEM public key validation of genuine, truncated, extended, empty, zero, all-ones, bit-flipped, compressed keys; sign x verify and HPKE seal x open matrices between all providers; X.509: random PKIs of 0-3 intermediates with 0-2 mutations of 16 kinds + sweep of every position x {notBefore, notAfter} x {-1,0,+1}s; 8 (thorough 64) mixed-provider group histories.",
        "samples": [det[0][0], rreqs[0], {"x509": xc[0][0]}],
        "stats": stats,
        "gallina_reference_cases": n_gal,
    })
    if failing:
        run.violation("providers differ from each other or from the reference", failing[:10])
    elif broken:
        run.violation("proof obligation or tie no longer checks: " + broken[0][0], [b[1] for b in broken], failing_input_found=False)
