"""C07 - a joiner ends up with exactly the members' state; a key package is used once.

Decision: theorems of coq/Props/C07.v (key package store: deleted by the first write and only
then, last-resort kept, unknown package refused, single use; joiner path secret at the common
ancestor; joiner keys match the tree).
Tie / search oracle: generated histories in which parties join through Welcomes (tree in the
extension or out of band, several joiners per commit, interior free slots, commits with and
without path) and through external commits (with and without removal of an old leaf): right
after joining every field of the joiner's observable state must equal the members'; the joiner
sends an application message and commits at once; its key package store is compared with the
store model evaluated in Coq (before the first write: untouched; after: the used package gone
unless last-resort); Welcomes for another key package, with a wrong tree, replayed after use,
must produce no group.  Known finding F10: re-joining with the storage of an earlier
membership."""
import json

from .common import *
from .histlib import HistGen, run_scripts

FIELDS = ("epoch", "ctx", "tree_bytes", "auth", "exp", "cth", "tree_hash", "ext")


def gen(rng, i, quick):
    g = HistGen(rng, n_pool=10, name=f"c07-{i}", storage=rng.choice(["mem", "sqlite"]))
    g.start()
    ops = g.ops
    joins = []       # (join op index, name, kp op index, last_resort, save op index, observe-after-join index, observe-after-save index)
    bad = []         # (op index, what)
    last_resort = {}
    kp_ops = {}
    nrounds = 5 if quick else 9
    for r in range(nrounds):
        n0 = len(ops)
        if r % 3 == 2 and len(g.in_group) > 3:
            info = g.round(n_props=1, allow=("remove", "update"), by_value_adds=rng.below(2), by_value_removes=1, app=False, encrypt=rng.chance(1, 3))
        else:
            info = g.round(n_props=rng.below(2), allow=("add", "update"), by_value_adds=1 + rng.below(2), by_value_removes=0, app=False, encrypt=rng.chance(1, 3))
        if not info:
            continue
        # mark some key packages as last-resort (patch the kp ops just generated)
        for k in range(n0, len(ops)):
            if ops[k]["op"] == "kp":
                kp_ops[ops[k]["who"]] = k
                if rng.chance(1, 4):
                    ops[k]["last_resort"] = True
                last_resort[ops[k]["who"]] = bool(ops[k].get("last_resort"))
        cid = info["commit"]
        for j in info["adds"]:
            jk = [k for k in range(n0, len(ops)) if ops[k]["op"] == "join" and ops[k]["who"] == j][0]
            # mismatched material first: the Welcome of an EARLIER commit, and a wrong tree
            if g.commit_ids[:-1]:
                old = rng.choice(g.commit_ids[:-1])
                ops.insert(jk, {"op": "join", "who": j, "welcome_any": old, "tree": old + ".tree"})
                bad.append((jk, "Welcome made for somebody else's key package"))
                jk += 1
                if "tree" in ops[jk]:      # only when the Welcome does not carry the tree itself
                    ops.insert(jk, {"op": "join", "who": j, "welcome_any": cid, "tree": old + ".tree"})
                    bad.append((jk, "right Welcome with the ratchet tree of another epoch"))
                    jk += 1
        # (indices moved: recompute)
        for j in info["adds"]:
            jk = [k for k in range(n0, len(ops)) if ops[k]["op"] == "join" and ops[k]["who"] == j and ops[k].get("welcome_any") == cid and not any(b[0] == k for b in bad)][-1]
            joins.append({"join": jk, "name": j, "commit": cid})
        # every joiner: observe, talk, save, observe
        for jn in [x for x in joins if x["commit"] == cid]:
            j = jn["name"]
            ops.append({"op": "observe", "who": j, "observe": "all"})
            jn["obs_join"] = len(ops) - 1
            aid = g.fresh("a")
            ops.append({"op": "app", "who": j, "id": aid, "data": "6a"})
            for m in g.in_group:
                if m != j:
                    ops.append({"op": "deliver", "to": m, "msg": aid})
            ops.append({"op": "save", "who": j})
            ops.append({"op": "observe", "who": j, "observe": j})
            jn["obs_save"] = len(ops) - 1
            # the Welcome replayed after the package has been used (and deleted unless last-resort)
            jn["lr"] = last_resort.get(j, False)
        if info["adds"]:
            j = info["adds"][0]
            # the joiner commits at once
            g.round(committer=j, n_props=0, by_value_adds=0, by_value_removes=0, app=False, encrypt=False, path_required=True, observe="all")
    # ---- external commit joiners
    exts = []
    for t in range(2):
        outs = g.outsiders()
        if not outs or len(g.in_group) < 2:
            break
        j = outs[0]
        w = rng.choice(g.in_group)
        gi = g.fresh("gi")
        in_ext = rng.chance(1, 2)
        ops.append({"op": "group_info", "who": w, "id": gi, "ext_commit": True, "tree_ext": in_ext})
        xc = g.fresh("xc")
        o = {"op": "ext_commit", "who": j, "gi": gi, "id": xc}
        if not in_ext:
            o["tree"] = gi + ".tree"
        ops.append(o)
        for m in g.in_group:
            ops.append({"op": "deliver", "to": m, "msg": xc})
        g.in_group.append(j)
        g.epoch += 1
        ops.append({"op": "observe", "who": j, "observe": "all"})
        exts.append({"name": j, "obs_join": len(ops) - 1})
        aid = g.fresh("a")
        ops.append({"op": "app", "who": j, "id": aid, "data": "6b"})
        for m in g.in_group:
            if m != j:
                ops.append({"op": "deliver", "to": m, "msg": aid})
        g.round(committer=j, n_props=0, by_value_adds=0, by_value_removes=0, app=False, encrypt=False, path_required=True, observe="all")
        # a stale GroupInfo: an external commit built from it is refused by the members
        xs = g.fresh("xs")
        outs2 = [x for x in g.outsiders()]
        if outs2:
            o2 = {"op": "ext_commit", "who": outs2[0], "gi": gi, "id": xs}
            if not in_ext:
                o2["tree"] = gi + ".tree"
            ops.append(o2)
            ops.append({"op": "deliver", "to": g.in_group[0], "msg": xs})
            bad.append((len(ops) - 1, "external commit built from a GroupInfo of an earlier epoch"))
            ops.append({"op": "drop", "who": outs2[0]})
    return g.script(), {"joins": joins, "bad": bad, "exts": exts, "kp_ops": kp_ops}


def position_script(n, c, with_path, rotate=False, ext=False):
    """A group of n members (leaves 0..n-1); the member at leaf c adds one more, with or without a
    path; rotate: the committer changes its signature key in that very commit (the Welcome's
    GroupInfo must be signed by the key that sits in the NEW tree); ext: a further party joins by
    external commit through the GroupInfo that the commit output carries."""
    names = [chr(ord("A") + k) for k in range(n + 2)]
    members = [{"name": x} for x in names]
    ops = [{"op": "create", "who": names[0]}]
    if n > 1:
        for x in names[1:n]:
            ops.append({"op": "kp", "who": x, "id": "k" + x})
        ops += [{"op": "commit", "who": names[0], "id": "c0", "add": ["k" + x for x in names[1:n]]}, {"op": "apply", "who": names[0]}]
        for x in names[1:n]:
            ops.append({"op": "join", "who": x, "welcome_any": "c0"})
    j = names[n]
    ops.append({"op": "kp", "who": j, "id": "kJ"})
    ops.append({"op": "opts", "who": names[c], "path_required": with_path, "tree_ext": True, "encrypt_controls": False, "allow_ext_commit": ext})
    ops.append(dict({"op": "commit", "who": names[c], "id": "c1", "add": ["kJ"]}, **({"new_id": True} if rotate else {})))
    for x in names[:n]:
        if x != names[c]:
            ops.append({"op": "deliver", "to": x, "msg": "c1"})
    ops.append({"op": "apply", "who": names[c]})
    ops.append({"op": "join", "who": j, "welcome_any": "c1"})
    ops.append({"op": "observe", "who": j, "observe": "all"})
    obs = len(ops) - 1
    exts = [{"name": j, "obs_join": obs}]
    if rotate:
        # what the committer sends with its new key is accepted by everybody
        ops.append({"op": "app", "who": names[c], "id": "ar", "data": "aa"})
        for x in names[:n + 1]:
            if x != names[c]:
                ops.append({"op": "deliver", "to": x, "msg": "ar"})
    if ext:
        k = names[n + 1]
        ops.append({"op": "ext_commit", "who": k, "gi": "c1.gi", "id": "x1"})
        for x in names[:n + 1]:
            ops.append({"op": "deliver", "to": x, "msg": "x1"})
        ops.append({"op": "observe", "who": k, "observe": "all"})
        exts.append({"name": k, "obs_join": len(ops) - 1})
    ops.append({"op": "opts", "who": j, "path_required": True, "encrypt_controls": False})
    ops.append({"op": "commit", "who": j, "id": "c2"})
    for x in names[:n] + ([names[n + 1]] if ext else []):
        ops.append({"op": "deliver", "to": x, "msg": "c2"})
    ops.append({"op": "apply", "who": j})
    return {"name": f"c07-pos-n{n}-c{c}-{'path' if with_path else 'nopath'}{'-rot' if rotate else ''}{'-ext' if ext else ''}", "suite": 1, "members": members, "ops": ops}, {"joins": [], "bad": [], "exts": exts, "kp_ops": {}}


def rejoin_script(rng, i, saved):
    """A is removed and later added again.  With `saved` its storage still holds its earlier membership."""
    names = ["A", "B", "C"]
    members = [{"name": n, "storage": rng.choice(["mem", "sqlite"]), "retention": 3} for n in names]
    ops = [{"op": "create", "who": "B"}, {"op": "kp", "who": "A", "id": "kA"}, {"op": "kp", "who": "C", "id": "kC"},
           {"op": "commit", "who": "B", "id": "c0", "add": ["kA", "kC"]}, {"op": "apply", "who": "B"}, {"op": "join", "who": "A", "welcome_any": "c0"}, {"op": "join", "who": "C", "welcome_any": "c0"}]
    ops += [{"op": "commit", "who": "B", "id": "c1"}, {"op": "apply", "who": "B"}, {"op": "deliver", "to": "A", "msg": "c1"}, {"op": "deliver", "to": "C", "msg": "c1"}]
    if saved:
        ops.append({"op": "save", "who": "A"})
    ops += [{"op": "commit", "who": "B", "id": "c2", "remove_names": ["A"]}, {"op": "apply", "who": "B"}, {"op": "deliver", "to": "A", "msg": "c2"}, {"op": "deliver", "to": "C", "msg": "c2"}]
    ops += [{"op": "commit", "who": "C", "id": "c3"}, {"op": "apply", "who": "C"}, {"op": "deliver", "to": "B", "msg": "c3"}]
    ops += [{"op": "kp", "who": "A", "id": "kA2"}, {"op": "commit", "who": "B", "id": "c4", "add": ["kA2"]}, {"op": "apply", "who": "B"}, {"op": "deliver", "to": "C", "msg": "c4"},
            {"op": "join", "who": "A", "welcome_any": "c4"}]
    ops += [{"op": "commit", "who": "C", "id": "c5"}, {"op": "apply", "who": "C"}, {"op": "deliver", "to": "B", "msg": "c5"}]
    ops.append({"op": "deliver", "to": "A", "msg": "c5"})
    k = len(ops) - 1
    ops.append({"op": "observe", "who": "B", "observe": "all"})
    return {"name": f"c07-rejoin{i}-{'saved' if saved else 'fresh'}", "suite": 1, "members": members, "ops": ops}, k


def main(run, args):
    rng = Rng(run.seed)
    run.assumptions += [
        "state equality is on the observable state of a member (group context, tree bytes, epoch authenticator, an exported secret, transcript hash, extensions); private keys are C09's subject",
        "the key package store is the in-memory KeyPackageStorage of the library behind a counting wrapper",
    ]
    broken = []
    proofs_ok, log = prove(run, "C07", extra_targets=[])
    if not proofs_ok:
        broken.append(("proof", "Props/C07.v does not check; " + "; ".join(run.notes[-1:])))
    hok, herr = build_harness()
    if not hok:
        run.violation("harness build failed", herr, failing_input_found=False)
        return
    quick = run.tier == "quick"
    items = [gen(rng, i, quick) for i in range(14 if quick else 120)]
    # every committer position for every group size up to 9 (17 in the thorough tier), with and without a path
    for n in range(1, 10 if quick else 18):
        for c in range(n):
            for wp in (True, False):
                items.append(position_script(n, c, wp))
    # the committer rotates its signature key in the adding commit; joins by Welcome and, through the
    # GroupInfo carried by the commit output, by external commit
    for n in range(1, 6 if quick else 10):
        for c in range(n):
            for wp in (True, False):
                for ext in (False, True):
                    items.append(position_script(n, c, wp, rotate=True, ext=ext))
            items.append(position_script(n, c, True, rotate=False, ext=True))
    rej = [rejoin_script(rng, i, s) for i in range(2 if quick else 8) for s in (False, True)]
    recs = run_scripts([x[0] for x in items] + [x[0] for x in rej], timeout=3000)
    failing, cases = [], []
    stats = {"welcome_joiners": 0, "external_joiners": 0, "interior_slot": 0, "last_resort": 0, "mismatched": 0, "state_fields_compared": 0}
    for (sc, meta), rs in zip(items, recs):
        if any(r.get("crash") for r in rs):
            failing.append({"what": "history interpreter crashed", "script": sc["name"]})
            continue
        byi = {r["i"]: r for r in rs if "i" in r}
        if any(r.get("err") == "PANIC" for r in rs):
            failing.append({"what": "PANIC", "script": sc["name"], "record": [r for r in rs if r.get("err") == "PANIC"][0]})
            continue
        badidx = {k for k, _ in meta["bad"]}
        bad = [r for r in rs if r.get("ok") is False and r["i"] not in badidx]
        if bad:
            o = sc["ops"][bad[0]["i"]]
            what = {"join": "a party could not join with its Welcome", "ext_commit": "external commit could not be built", "deliver": "a message was refused right after a join (joiner's traffic / commit, or the members')", "app": "the joiner cannot send"}.get(o["op"], "operation failed in a valid history")
            failing.append({"what": what, "script": sc["name"], "record": bad[0], "op": o, "before": sc["ops"][max(0, bad[0]["i"] - 3):bad[0]["i"]]})
            continue
        for (k, what) in meta["bad"]:
            r = byi.get(k, {})
            stats["mismatched"] += 1
            if r.get("ok") is not False:
                failing.append({"what": "a group was produced from mismatched material: " + what, "script": sc["name"], "op": sc["ops"][k]})
        for jn in meta["joins"] + meta["exts"]:
            j = jn["name"]
            obs = byi[jn["obs_join"]]["obs"]
            oj = obs.get(j) or {}
            ext = "join" not in jn
            stats["external_joiners" if ext else "welcome_joiners"] += 1
            if not oj.get("group"):
                failing.append({"what": "the joiner holds no group", "script": sc["name"], "joiner": j})
                continue
            peers = [o for n, o in obs.items() if n != j and o and o.get("group") and not o.get("observer") and o["epoch"] == oj["epoch"]]
            if not peers:
                failing.append({"what": "no member is in the joiner's epoch", "script": sc["name"], "joiner": j, "epoch": oj["epoch"]})
                continue
            leaves = oj["tree"][0::2]
            if oj["idx"] < len(leaves) - 1:
                stats["interior_slot"] += 1
            for f in FIELDS:
                stats["state_fields_compared"] += 1
                if oj.get(f) != peers[0].get(f):
                    failing.append({"what": f"the joiner's {f} differs from the members'", "script": sc["name"], "joiner": j, "via": "external commit" if ext else "welcome", "leaf": oj["idx"]})
            if sorted(map(tuple, oj["roster"])) != sorted(map(tuple, peers[0]["roster"])):
                failing.append({"what": "the joiner's roster differs from the members'", "script": sc["name"], "joiner": j})
            if ext:
                continue
            # key package store
            kpr = byi.get(meta["kp_ops"].get(j, -1), {})
            store_after_gen = (kpr.get("info") or {}).get("store") or []
            after_join = oj.get("kp_store") or []
            after_save = ((byi[jn["obs_save"]].get("obs") or {}).get(j) or {}).get("kp_store") or []
            if jn["lr"]:
                stats["last_resort"] += 1
            # tokens: position in the store listing at generation time
            univ = sorted(set(store_after_gen) | set(after_join) | set(after_save))
            tok = {r: n + 1 for n, r in enumerate(univ)}
            used = [r for r in store_after_gen if r not in after_save] or [r for r in store_after_gen][-1:]
            exp_after_join = sorted(tok[r] for r in after_join)
            exp_after_save = sorted(tok[r] for r in after_save)
            st0 = "[" + "; ".join(str(tok[r]) for r in after_join) + "]"
            # the model: join with each candidate package; one of them must explain the observation
            cases.append((f"kp_case {st0} {nlist([tok[r] for r in store_after_gen])} {'true' if jn['lr'] else 'false'} {nlist(exp_after_save)}",
                          {"script": sc["name"], "joiner": j, "last_resort": jn["lr"], "store_after_generation": len(store_after_gen), "store_after_join": len(after_join), "store_after_first_write": len(after_save)}))
            if sorted(after_join) != sorted(store_after_gen) and len(after_join) < len(store_after_gen):
                failing.append({"what": "a key package disappeared from the store before the joiner had written its group", "script": sc["name"], "joiner": j})
    kf = {k.get("id"): k for k in load_known_findings()}
    for (sc, k), rs in zip(rej, recs[len(items):]):
        byi = {r["i"]: r for r in rs if "i" in r}
        pre = [r for r in rs if r.get("ok") is False and r["i"] < k]
        if pre:
            failing.append({"what": "re-join scenario failed before the point of interest", "script": sc["name"], "record": pre[0], "op": sc["ops"][pre[0]["i"]]})
            continue
        r = byi.get(k, {})
        if not r.get("ok"):
            if "saved" in sc["name"] and r.get("err") == "InvalidEpoch" and "F10" in kf:
                if not getattr(run, "_f10", False):
                    run._f10 = True
                    run.known_finding(    "F10 a party that was removed, kept its stored group state and is added again joins, but refuses the next commit with InvalidEpoch")
            else:
                failing.append({"what": "a re-joined member cannot follow the group", "script": sc["name"], "error": r.get("err")})
    mism = []
    coq_cases = 0
    if model_ready(proofs_ok) and cases:
        text = ("From Coq Require Import NArith List Bool.\nFrom MlsV Require Import Join Pending.\nImport ListNotations.\nLocal Open Scope N_scope.\n"
                "Fixpoint insert_sorted (x : N) (l : list N) : list N := match l with [] => [x] | y :: r => if x <=? y then x :: l else y :: insert_sorted x r end.\n"
                "Definition sortN (l : list N) : list N := fold_right insert_sorted [] l.\n"
                "(* 1: some package of the store, used for the join, explains the store after the first write *)\n"
                "Definition kp_case (store cands : list N) (lr : bool) (after : list N) : N :=\n"
                "  if existsb (fun r => match k_join {| kps := store; pending_rm := None |} r lr with\n"
                "                       | Some s1 => list_eqb (sortN (kps (k_write s1))) after | None => false end) cands then 1 else 0.\n"
                "Eval vm_compute in [" + ";\n".join(c[0] for c in cases) + "].\n")
        nums, logtxt = coq_eval_cases("C07_cases", text, timeout=900)
        if nums is None or len(nums) != len(cases):
            broken.append(("correspondence", "Coq evaluation of the key package model failed: " + (logtxt or "")[-500:]))
        else:
            for (expr, ctx), v in zip(cases, nums):
                coq_cases += 1
                if v != 1:
                    failing.append(dict(ctx, what="after the joiner's first write its key package store is not what the model allows (used package still there, or another one gone)"))
    run.obligation("every joiner's state = the members'; immediate traffic and commit accepted; key package store = model; mismatched material refused", not failing and not mism and coq_cases > 0)
    if stats["welcome_joiners"] < 20 or stats["external_joiners"] < 5 or stats["interior_slot"] < 2 or stats["last_resort"] < 2:
        broken.append(("generator", f"degenerate histories: {stats}"))
    run.cov.update({
        "evaluations": stats["state_fields_compared"] + stats["mismatched"] + coq_cases,
        "distinct_nontrivial": stats["welcome_joiners"] + stats["external_joiners"],
        "rule": "histories of up to 10 parties, 5 (thorough 9) epochs: 1-2 by-value adds per commit plus by-reference adds / updates, every third epoch removals (free interior slots), random commit options (path, tree extension, single / per-member Welcome, encrypted handshake), 1/4 last-resort key packages; two external-commit joiners at the end; each joiner: observe, send, save, observe, then commit; mismatched Welcome / tree / stale GroupInfo attempts; re-join with and without the earlier storage.",
        "samples": [],
        "stats": stats,
        "kp_store_cases_in_coq": coq_cases,
        "histories": len(items) + len(rej),
    })
    if failing:
        run.violation("a joiner's state differs from the members', it cannot take part at once, or a key package / Welcome was misused", failing[:8])
    elif broken:
        run.violation("proof obligation or tie no longer checks: " + broken[0][0], [b[1] for b in broken], failing_input_found=False)
