"""C06 - a group restored from storage is the same group, at every crash point.

Decision: theorems of coq/Props/C06.v (snapshot round trip for the regenerated Snapshot type,
crash returns the last written state, failed write changes nothing, providers agree).
Tie / search oracle: generated histories on both providers with save / drop / reload inserted
at random positions: the complete observation of the member (including the hash of its encoded
snapshot) must be identical before and after the reload, a reload after unsaved operations must
return the observation of the last save, and the reloaded member must stay in lockstep with
the others.  The repository model (Coq) is run on the member's write pattern."""
import json
import os

from .common import *
from .histlib import HistGen, run_scripts
from .c19 import two_group_script

IGNORE = set()


def obs_equal(a, b):
    """Equality of two observations of one member.  The encoded snapshot is compared byte for
    byte, except that the out-of-order key history of a ratchet is a hash map, encoded in
    iteration order: when only the snapshot bytes differ, the order-insensitive digest (length and
    multiset of bytes) decides."""
    da = {k: v for k, v in a.items() if k not in IGNORE}
    db = {k: v for k, v in b.items() if k not in IGNORE}
    if da == db:
        return True
    keys = {k for k in set(da) | set(db) if da.get(k) != db.get(k)}
    return keys <= {"snap", "stored_state"} and da.get("snap_bag") == db.get("snap_bag")


def main(run, args):
    rng = Rng(run.seed)
    run.assumptions += [
        "process death is emulated by dropping every in-memory object of the member (and re-opening the SQLite file)",
        "SQLite durability (a committed transaction is visible after reopen) is trusted",
    ]
    broken = []
    ok2, m2 = regen("codec", "CodecTypes.v")
    run.obligation("translate the Snapshot type and its constituents", ok2)
    proofs_ok, log = prove(run, "C06", extra_targets=["Model/StorageCases.vo"])
    if not proofs_ok:
        broken.append(("proof", "Props/C06.v does not check; " + "; ".join(run.notes[-1:])))
    hok, herr = build_harness()
    if not hok:
        run.violation("harness build failed", herr, failing_input_found=False)
        return
    quick = run.tier == "quick"
    scripts, marks = [], []
    for i in range(24 if quick else 200):
        storage = rng.choice(["mem", "sqlite"])
        g = HistGen(rng, n_pool=5, storage=storage, retention=rng.choice([1, 3]), name=f"c06-{i}")
        g.start()
        mk = []   # (kind, member, index of first observe, index of second observe)
        nrounds = 3 + rng.below(4)
        for r in range(nrounds):
            g.round(observe="all" if r == nrounds - 1 else None)
            # save / reload in the middle of the history: must be invisible
            if g.in_group and rng.chance(2, 3):
                m = rng.choice(g.in_group)
                # optionally leave something pending before the save
                if rng.chance(1, 3) and len(g.in_group) >= 2:
                    pid = g.fresh("p")
                    g.ops.append({"op": "propose", "who": m, "kind": "update", "id": pid})
                    g.busy.add(m)
                    for o in g.in_group:
                        if o != m:
                            g.ops.append({"op": "deliver", "to": o, "msg": pid})
                elif rng.chance(1, 4):
                    nt = rng.chance(1, 2)      # state written without the ratchet tree, tree kept aside
                    g.ops.append({"op": "commit", "who": m, "id": g.fresh("pc")})
                    g.ops.append({"op": "save", "who": m, "no_tree": nt})
                    g.ops.append({"op": "observe", "who": m, "observe": m})
                    a = len(g.ops) - 1
                    g.ops.append({"op": "load", "who": m, "no_tree": nt})
                    g.ops.append({"op": "observe", "who": m, "observe": m})
                    mk.append(("reload_pending_commit" + ("_treeless" if nt else ""), m, a, len(g.ops) - 1))
                    g.ops.append({"op": "clear", "who": m})
                    continue
                nt = rng.chance(1, 3)
                g.ops.append({"op": "save", "who": m, "no_tree": nt})
                g.ops.append({"op": "observe", "who": m, "observe": m})
                a = len(g.ops) - 1
                g.ops.append({"op": "load", "who": m, "no_tree": nt})
                g.ops.append({"op": "observe", "who": m, "observe": m})
                mk.append(("reload" + ("_treeless" if nt else ""), m, a, len(g.ops) - 1))
        # crash: save, then more (unsaved) operations, then reload -> the saved state
        if g.in_group:
            m = rng.choice(g.in_group)
            g.ops.append({"op": "save", "who": m})
            g.ops.append({"op": "observe", "who": m, "observe": m})
            a = len(g.ops) - 1
            g.round(committer=rng.choice([x for x in g.in_group if x != m] or g.in_group), observe=None, allow=("update",), by_value_adds=0, by_value_removes=0)
            g.ops.append({"op": "load", "who": m})
            g.ops.append({"op": "observe", "who": m, "observe": m})
            mk.append(("crash", m, a, len(g.ops) - 1))
        scripts.append(g.script())
        marks.append(mk)
    # directed: messages in flight at the time of the write (the receiver holds keys of skipped
    # generations in its out-of-order history), in the current and in a prior epoch
    for i in range(6 if quick else 40):
        storage = ["mem", "sqlite"][i % 2]
        members = [{"name": n, "storage": storage, "retention": 3} for n in "ABC"]
        ops = [{"op": "create", "who": "A"}, {"op": "kp", "who": "B", "id": "kB"}, {"op": "kp", "who": "C", "id": "kC"},
               {"op": "commit", "who": "A", "id": "c1", "add": ["kB", "kC"]}, {"op": "apply", "who": "A"},
               {"op": "join", "who": "B", "welcome_any": "c1"}, {"op": "join", "who": "C", "welcome_any": "c1"}]
        enc_ctl = rng.chance(1, 2)
        ops.append({"op": "opts", "who": "A", "encrypt_controls": enc_ctl})
        n = 4 + rng.below(5)
        ids = []
        for k in range(n):
            ops.append({"op": "app", "who": "A", "id": f"m{k}", "data": "%02x" % k})
            ids.append(f"m{k}")
        late = sorted(rng.shuffle(list(range(n - 1)))[:1 + rng.below(2)])          # delayed messages
        first = [k for k in range(n) if k not in late]
        for k in rng.shuffle(first):
            ops.append({"op": "deliver", "to": "B", "msg": f"m{k}"})
        mk = []
        prior = rng.chance(1, 2)
        if prior:
            ops += [{"op": "commit", "who": "C", "id": "c2"}, {"op": "deliver", "to": "A", "msg": "c2"}, {"op": "deliver", "to": "B", "msg": "c2"}, {"op": "apply", "who": "C"}]
        ops.append({"op": "save", "who": "B"})
        ops.append({"op": "observe", "who": "B", "observe": "B"})
        a = len(ops) - 1
        ops.append({"op": "load", "who": "B"})
        ops.append({"op": "observe", "who": "B", "observe": "B"})
        mk.append(("reload_in_flight_prior" if prior else "reload_in_flight", "B", a, len(ops) - 1))
        for k in late:
            ops.append({"op": "deliver", "to": "B", "msg": f"m{k}"})
        ops += [{"op": "commit", "who": "B", "id": "c3"}, {"op": "deliver", "to": "A", "msg": "c3"}, {"op": "deliver", "to": "C", "msg": "c3"}, {"op": "apply", "who": "B"},
                {"op": "observe", "who": "B", "observe": "all"}]
        scripts.append({"name": f"c06-flight-{i}", "suite": 1, "members": members, "ops": ops})
        marks.append(mk)
    # directed: late messages of SEVERAL stored past epochs are read in an order that goes back and forth
    # between the epochs, then the state is written and loaded: what was read stays read (a replay is
    # refused by the loaded group exactly as by the saved one), what was not read is still readable
    expect_fail = {}
    for i in range(6 if quick else 40):
        storage = ["mem", "sqlite"][i % 2]
        members = [{"name": n, "storage": storage, "retention": 5} for n in "ABC"]
        ops = [{"op": "create", "who": "A"}, {"op": "kp", "who": "B", "id": "kB"}, {"op": "kp", "who": "C", "id": "kC"},
               {"op": "commit", "who": "A", "id": "c0", "add": ["kB", "kC"]}, {"op": "apply", "who": "A"},
               {"op": "join", "who": "B", "welcome_any": "c0"}, {"op": "join", "who": "C", "welcome_any": "c0"}]
        n_ep = 3 + rng.below(2)
        msgs = []
        for e in range(1, n_ep + 1):
            for x in "ab":
                ops.append({"op": "app", "who": "B", "id": f"m{e}{x}", "data": "%02x" % e})
                msgs.append((f"m{e}{x}", e))
            ops += [{"op": "opts", "who": "A", "path_required": True}, {"op": "commit", "who": "A", "id": f"c{e}"}, {"op": "apply", "who": "A"},
                    {"op": "deliver", "to": "B", "msg": f"c{e}"}, {"op": "deliver", "to": "C", "msg": f"c{e}"}]
        ops.append({"op": "save", "who": "C"})
        # newer, older, newer again (and a random tail)
        e_hi, e_lo = rng.shuffle(list(range(1, n_ep + 1)))[:2]
        e_hi, e_lo = max(e_hi, e_lo), min(e_hi, e_lo)
        order = [f"m{e_hi}a", f"m{e_lo}a", f"m{e_hi}b"] + [m for m, _ in rng.shuffle(msgs) if m not in (f"m{e_hi}a", f"m{e_lo}a", f"m{e_hi}b")][:rng.below(3)]
        for m in order:
            ops.append({"op": "deliver", "to": "C", "msg": m})
        mk = []
        ops.append({"op": "save", "who": "C"})
        ops.append({"op": "observe", "who": "C", "observe": "C"})
        a = len(ops) - 1
        ops.append({"op": "load", "who": "C"})
        ops.append({"op": "observe", "who": "C", "observe": "C"})
        mk.append(("reload_after_late_messages", "C", a, len(ops) - 1))
        fails = set()
        for m in rng.shuffle(order):
            ops.append({"op": "deliver", "to": "C", "msg": m})
            fails.add(len(ops) - 1)
        for m, _ in msgs:
            if m not in order:
                ops.append({"op": "deliver", "to": "C", "msg": m})
        ops += [{"op": "commit", "who": "C", "id": "cz"}, {"op": "deliver", "to": "A", "msg": "cz"}, {"op": "deliver", "to": "B", "msg": "cz"}, {"op": "apply", "who": "C"},
                {"op": "observe", "who": "C", "observe": "all"}]
        expect_fail[f"c06-late-{i}"] = fails
        scripts.append({"name": f"c06-late-{i}", "suite": 1, "members": members, "ops": ops})
        marks.append(mk)
    # directed: the member's signature key inside the group is no longer the key its client was configured
    # with (it rotated the key in a commit of its own, or by an Update that somebody else committed): the
    # loaded group is the saved group, signer included, and what it sends is accepted by the others
    for i in range(4 if quick else 24):
        storage = ["mem", "sqlite"][i % 2]
        members = [{"name": n, "storage": storage, "retention": 3} for n in "ABC"]
        ops = [{"op": "create", "who": "A"}, {"op": "kp", "who": "B", "id": "kB"}, {"op": "kp", "who": "C", "id": "kC"},
               {"op": "commit", "who": "A", "id": "c0", "add": ["kB", "kC"]}, {"op": "apply", "who": "A"},
               {"op": "join", "who": "B", "welcome_any": "c0"}, {"op": "join", "who": "C", "welcome_any": "c0"}]
        if i % 4 < 2:
            ops += [{"op": "commit", "who": "B", "id": "c1", "new_id": True}, {"op": "deliver", "to": "A", "msg": "c1"}, {"op": "deliver", "to": "C", "msg": "c1"}, {"op": "apply", "who": "B"}]
        else:
            ops += [{"op": "propose", "who": "B", "kind": "update_id", "id": "p1"}, {"op": "deliver", "to": "A", "msg": "p1"}, {"op": "deliver", "to": "C", "msg": "p1"},
                    {"op": "commit", "who": "A", "id": "c1"}, {"op": "deliver", "to": "B", "msg": "c1"}, {"op": "deliver", "to": "C", "msg": "c1"}, {"op": "apply", "who": "A"}]
        nt = i % 2 == 1 and i % 4 >= 2
        ops.append({"op": "save", "who": "B", "no_tree": nt})
        ops.append({"op": "observe", "who": "B", "observe": "B"})
        a = len(ops) - 1
        ops.append({"op": "load", "who": "B", "no_tree": nt})
        ops.append({"op": "observe", "who": "B", "observe": "B"})
        mk = [("reload_after_key_rotation" + ("_treeless" if nt else ""), "B", a, len(ops) - 1)]
        ops += [{"op": "app", "who": "B", "id": "m1", "data": "01"}, {"op": "deliver", "to": "A", "msg": "m1"}, {"op": "deliver", "to": "C", "msg": "m1"},
                {"op": "commit", "who": "B", "id": "c2"}, {"op": "deliver", "to": "A", "msg": "c2"}, {"op": "deliver", "to": "C", "msg": "c2"}, {"op": "apply", "who": "B"},
                {"op": "observe", "who": "B", "observe": "all"}]
        scripts.append({"name": f"c06-rot-{i}", "suite": 1, "members": members, "ops": ops})
        marks.append(mk)
    # the member's storage holds TWO groups; the other one runs far ahead and is written after every epoch.
    # The member is then restored from storage: the restored main group still reads the late messages of
    # its own retained epochs (what one group writes must not touch what the storage keeps for another)
    for i in range(4 if quick else 24):
        sc2, checks2 = two_group_script(rng, f"c06-two-{i}", ["sqlite", "mem"][i % 2], rng.choice([2, 3, 5]))
        sc2["ops"].insert(checks2[0], {"op": "load", "who": "C"})
        scripts.append(sc2)
        marks.append([])
    recs = run_scripts(scripts, timeout=1500)
    failing = []
    n_checks = 0
    kinds = {}
    for sc, mk, rs in zip(scripts, marks, recs):
        if any(r.get("crash") for r in rs):
            failing.append({"what": "history interpreter crashed", "script": sc["name"]})
            continue
        byi = {r["i"]: r for r in rs if "i" in r}
        xf = expect_fail.get(sc["name"], set())
        for k in sorted(xf):
            if byi.get(k, {}).get("ok") is not False:
                failing.append({"what": "after the reload a message that had been read BEFORE the write is accepted again (the written state lost its consumption)", "script": sc["name"], "op": sc["ops"][k], "ops": sc["ops"][max(0, k - 12):k + 1]})
        bad = [r for r in rs if r.get("ok") is False and r["i"] not in xf]
        if bad:
            failing.append({"what": "operation failed in a history with reloads (reloaded member out of step?)", "script": sc["name"], "record": bad[0], "ops": sc["ops"][max(0, bad[0]["i"] - 6):bad[0]["i"] + 1]})
            continue
        for kind, m, a, b in mk:
            oa = byi[a]["obs"][m]
            ob = byi[b]["obs"][m]
            n_checks += 1
            kinds[kind] = kinds.get(kind, 0) + 1
            if not obs_equal(oa, ob):
                diff = {k: (oa.get(k), ob.get(k)) for k in oa if oa.get(k) != ob.get(k)}
                failing.append({"what": f"{kind}: the loaded group differs from the saved one", "script": sc["name"], "member": m, "differences": diff, "ops": sc["ops"][a - 3:b + 1]})
            if not kind.endswith("_treeless") and oa.get("stored_state") != oa.get("snap") and oa.get("stored_bag") != oa.get("snap_bag"):
                failing.append({"what": "the stored state is not the member's snapshot at the time of the write", "script": sc["name"], "member": m})
        # lockstep: members of the same epoch agree (includes the reloaded ones)
        for r in rs:
            if "obs" in r and len(r["obs"]) > 1:
                by_epoch = {}
                for n, o in r["obs"].items():
                    if o and o.get("group") and n in [x for x in r["obs"]]:
                        by_epoch.setdefault(o["epoch"], set()).add((o["ctx"], o["auth"], o["tree_bytes"]))
                top = max(by_epoch) if by_epoch else None
                if top is not None and len(by_epoch[top]) > 1:
                    failing.append({"what": "members of the same epoch disagree after reloads", "script": sc["name"], "op": r["i"]})
    # F8: provider configuration difference (retention 0)
    rc, out, err = sh([MLSH, "store"], input='{"backend":"mem","retention":0,"ops":[]}\n{"backend":"sqlite","retention":0,"probe":[0],"ops":[{"w":[1,[[0,5]],[]]}]}\n')
    lines = out.splitlines()
    try:
        a0, a1 = json.loads(lines[0]), json.loads(lines[1])
        if "setup_error" in a0 and "steps" in a1 and a1["steps"][0]["epochs"] == [None]:
            for kf in load_known_findings():
                if kf.get("id") == "F8":
                    run.known_finding("F8 " + kf["what"])
                    break
            else:
                failing.append({"what": "providers differ for retention 0 (in-memory refuses, SQLite keeps nothing)"})
    except Exception:
        pass
    run.obligation("reload transparency and crash recovery on the implementation (all marks)", not failing)
    run.cov.update({
        "evaluations": n_checks,
        "distinct_nontrivial": n_checks,
        "rule": "generated histories (5 members, 3-6 epochs, adds/removes/updates, both providers, retention 1 or 3) with save+reload inserted after random rounds (plain, with cached proposals and own pending updates, with a pending commit) and a final crash point (save, one more unsaved epoch, reload); late messages of several stored epochs read back and forth, then save + reload, replays refused and unread messages readable; one check = one save/reload pair, every field of the observation compared.",
        "samples": [{"script": scripts[0]["name"], "marks": marks[0]}],
        "mark_kinds": kinds,
        "histories": len(scripts),
    })
    if failing:
        run.violation("a reloaded group is not the saved group", failing[:8])
    elif broken:
        run.violation("proof obligation or tie no longer checks: " + broken[0][0], [b[1] for b in broken], failing_input_found=False)
