"""C03 - any modification or forgery of protocol traffic is rejected.

Decision: theorems of coq/Props/C03.v (coverage of every message field by the signature,
the membership MAC and the AEADs; acceptance with unforgeable primitives implies authenticity).
Tie: the membership tag of every member public message of generated histories is recomputed in
Coq from the wire bytes (model TBM + Gallina HMAC) and must equal the tag in the message; the
real signature must verify over the bytes the model says are signed; flipped copies are
refused by the model as well.
Search oracle (exhaustive on the implementation): every single-bit flip and every truncation of
commits, proposals, application messages (public and encrypted), Welcomes, GroupInfos and
ratchet trees; byte-range splices of two valid messages of the same kind; replays into later
epochs and into another group; insider commits (short / long update path, foreign path key,
wrong parent hash, wrong confirmation tag re-MACed): always an error, never a panic, never
acceptance; accepted genuine messages report the true sender, payload and authenticated data."""
import json
from concurrent.futures import ThreadPoolExecutor

from .common import *
from .histlib import HistGen, run_scripts

KINDS = ("commit_pub", "commit_enc", "commit_ext", "proposal_pub", "proposal_enc", "app", "welcome", "group_info", "tree")


def build_script(rng, i, quick):
    """A group of 5-7 members with some history; then a set of target messages is produced in
    one epoch and swept against receivers at several positions."""
    n = rng.choice([5, 6, 7])
    g = HistGen(rng, n_pool=n + 8, name=f"c03-{i}")
    g.start()
    g.round(n_props=0, by_value_adds=n - 1, by_value_removes=0, app=False, encrypt=False)
    for r in range(2 + rng.below(2)):
        g.round(app=rng.chance(1, 2), encrypt=rng.chance(1, 2), by_value_adds=0)
    ops = g.ops
    members = list(g.in_group)
    sweeps = []      # (op index, kind, receiver, message id, mode)
    plain = []       # (message id, sender, ctx-holder) for the framing tie
    truth = []       # (op index, expected sender name, data, aad)
    stride = 1 if (i == 0 or not quick) else rng.choice([3, 5, 7])
    snd = rng.choice(members)
    others = [m for m in members if m != snd]
    rcv = rng.shuffle(others)[:2 if quick else 3]
    # context of the epoch (for the Coq tie)
    ops.append({"op": "ctx_dump", "who": snd})
    ctx_op = len(ops) - 1
    for m in members:
        ops.append({"op": "sigkey", "who": m})
    # ---- application message
    aid = g.fresh("a")
    ops.append({"op": "app", "who": snd, "id": aid, "data": "c0ffee", "aad": "beef"})
    aid2 = g.fresh("a")
    ops.append({"op": "app", "who": snd, "id": aid2, "data": "c0ffef"})
    for r in rcv:
        for mode in ("bits", "trunc", "splice"):
            ops.append({"op": "sweep", "who": r, "msg": aid, "kind": mode, "stride": stride if mode == "bits" else 1, "other": aid2, "seed": i + 2, "count": 120})
            sweeps.append((len(ops) - 1, "app", r, aid, mode))
        ops.append({"op": "deliver", "to": r, "msg": aid})
        truth.append((len(ops) - 1, snd, "c0ffee", "beef"))
    # ---- proposals, public and encrypted
    for enc in (False, True):
        ops.append({"op": "opts", "who": snd, "encrypt_controls": enc})
        pid = g.fresh("p")
        ops.append({"op": "propose", "who": snd, "kind": "update" if enc else "gce", "id": pid, "aad": "a1a2", "ext_data": "0102"})
        pid2 = g.fresh("p")
        # the author of the second proposal keeps it to itself: it must not be the member that builds the encrypted commit
        o2 = [m for m in others if m not in rcv] or [m for m in others if m != rcv[0]] or others
        ops.append({"op": "opts", "who": o2[0], "encrypt_controls": enc})
        ops.append({"op": "propose", "who": o2[0], "kind": "remove", "name": rng.choice([m for m in members if m not in (snd, o2[0])] or [m for m in members if m != o2[0]]), "id": pid2})
        kind = "proposal_enc" if enc else "proposal_pub"
        for r in rcv:
            for mode in ("bits", "trunc", "splice"):
                ops.append({"op": "sweep", "who": r, "msg": pid, "kind": mode, "stride": stride if mode == "bits" else 1, "other": pid2, "seed": i + 1, "count": 120})
                sweeps.append((len(ops) - 1, kind, r, pid, mode))
        if not enc:
            plain.append((pid, snd))
            plain.append((pid2, o2[0]))
        for r in others:
            ops.append({"op": "deliver", "to": r, "msg": pid})
            truth.append((len(ops) - 1, snd, None, "a1a2"))
    # ---- commits (with a path, an add -> Welcome), public and encrypted, built by two members
    cm = []
    joiner = g.outsiders()[0]
    ops.append({"op": "kp", "who": joiner, "id": "kpJ"})
    for enc in (False, True):
        c = snd if not enc else rcv[0]
        ops.append({"op": "opts", "who": c, "encrypt_controls": enc, "path_required": True, "tree_ext": False, "single_welcome": True})
        cid = g.fresh("c")
        ops.append({"op": "commit", "who": c, "id": cid, "add": ["kpJ"] if not enc else [], "aad": "0badc0de"})
        cm.append((cid, c, enc))
    for (cid, c, enc), (cid2, c2, _) in zip(cm, reversed(cm)):
        kind = "commit_enc" if enc else "commit_pub"
        for r in [m for m in rcv if m != c][:2]:
            for mode in ("bits", "trunc", "splice"):
                ops.append({"op": "sweep", "who": r, "msg": cid, "kind": mode, "stride": stride if mode == "bits" else 1, "other": cid2, "seed": i + 3, "count": 160})
                sweeps.append((len(ops) - 1, kind, r, cid, mode))
        if not enc:
            plain.append((cid, c))
    # ---- Welcome, GroupInfo, tree (joiner and outside observer)
    wid = cm[0][0] + ".w0"
    ops.append({"op": "sweep", "who": joiner, "msg": wid, "target": "join", "kind": "bits", "stride": stride * 2 + 1, "tree": cm[0][0] + ".tree"})
    sweeps.append((len(ops) - 1, "welcome", joiner, wid, "bits"))
    ops.append({"op": "sweep", "who": joiner, "msg": wid, "target": "join", "kind": "trunc", "stride": 3, "tree": cm[0][0] + ".tree"})
    sweeps.append((len(ops) - 1, "welcome", joiner, wid, "trunc"))
    ops.append({"op": "sweep", "who": joiner, "msg": cm[0][0] + ".tree", "welcome": wid, "target": "join_tree", "kind": "bits", "stride": stride * 4 + 1, "tree": cm[0][0] + ".tree"})
    sweeps.append((len(ops) - 1, "tree", joiner, cm[0][0] + ".tree", "bits"))
    gi = g.fresh("gi")
    ops.append({"op": "group_info", "who": snd, "id": gi, "ext_commit": True, "tree_ext": False})
    ops.append({"op": "sweep", "who": snd, "msg": gi, "target": "observe", "kind": "bits", "stride": stride * 2 + 1, "tree": gi + ".tree"})
    sweeps.append((len(ops) - 1, "group_info", "observer", gi, "bits"))
    ops.append({"op": "sweep", "who": snd, "msg": gi, "target": "observe", "kind": "trunc", "stride": 3, "tree": gi + ".tree"})
    sweeps.append((len(ops) - 1, "group_info", "observer", gi, "trunc"))
    ops.append({"op": "sweep", "who": snd, "msg": gi + ".tree", "gi": gi, "target": "observe_tree", "kind": "bits", "stride": stride * 4 + 1, "tree": gi + ".tree"})
    sweeps.append((len(ops) - 1, "tree", "observer", gi + ".tree", "bits"))
    # ---- an external commit (PublicMessage of a new member: no membership tag, the confirmation tag is
    # checked only by recomputation) swept against the members
    xouts = [o for o in g.outsiders() if o != joiner]
    if len(xouts) >= 2:
        xc = g.fresh("xc")
        ops.append({"op": "ext_commit", "who": xouts[-1], "gi": gi, "tree": gi + ".tree", "id": xc})
        for r in rcv[:2]:
            for mode in ("bits", "trunc"):
                ops.append({"op": "sweep", "who": r, "msg": xc, "kind": mode, "stride": stride if mode == "bits" else 1, "other": cm[0][0], "seed": i + 5, "count": 160})
                sweeps.append((len(ops) - 1, "commit_ext", r, xc, mode))
    # ---- messages made in this epoch but first seen in the NEXT one: an encrypted proposal that
    # nobody has processed yet and a NewMemberProposal (no membership tag, signature without context)
    late = []
    pe = g.fresh("p")
    ops.append({"op": "opts", "who": others[-1], "encrypt_controls": True})
    ops.append({"op": "propose", "who": others[-1], "kind": "gce", "id": pe, "ext_data": "0c0d"})
    late.append(pe)
    ops.append({"op": "opts", "who": others[-1], "encrypt_controls": False})
    outs = [o for o in g.outsiders() if o != joiner][:1]
    if outs:
        gi2 = g.fresh("gi")
        ops.append({"op": "group_info", "who": snd, "id": gi2, "ext_commit": False, "tree_ext": True})
        xa = g.fresh("p")
        ops.append({"op": "ext_add", "who": outs[0], "gi": gi2, "id": xa})
        ops.append({"op": "deliver", "to": rcv[0], "msg": xa})      # genuine in ITS epoch
        late.append(xa)
    # ---- insider: the public commit with a flipped confirmation tag and a fresh membership tag
    insider = []
    pub = cm[0]
    forger = [m for m in members if m != pub[1]][0]
    for bit in (270, 300, 500):
        fid = g.fresh("f")
        ops.append({"op": "remac", "who": forger, "src": pub[0], "id": fid, "bit": bit, "from_end": True})
        for r in [m for m in members if m not in (pub[1], forger)][:2]:
            ops.append({"op": "deliver", "to": r, "msg": fid, "snap_before": True, "observe": r})
            insider.append((len(ops) - 1, "remac bit %d from the end" % bit, r))
    # ---- the genuine public commit wins; truth of what is reported
    ops.append({"op": "clear", "who": cm[1][1]})
    for m in members:
        if m != pub[1]:
            ops.append({"op": "deliver", "to": m, "msg": pub[0]})
            truth.append((len(ops) - 1, pub[1], None, "0badc0de"))
    ops.append({"op": "apply", "who": pub[1]})
    jo = {"op": "join", "who": joiner, "welcome": wid, "tree": pub[0] + ".tree"}
    ops.append(jo)
    members2 = members + [joiner]
    # ---- replays into the next epoch
    replays = []
    for mid in [p for p, _ in plain] + [aid, cm[1][0]]:
        r = rng.choice([m for m in (rcv if mid == aid else members) if m != pub[1]] or rcv)
        ops.append({"op": "deliver", "to": r, "msg": mid, "snap_before": True, "observe": r})
        replays.append((len(ops) - 1, mid, r))
    for mid in late:
        for r in [m for m in members if m not in (pub[1], others[-1], rcv[0])][:2]:
            ops.append({"op": "deliver", "to": r, "msg": mid, "snap_before": True, "observe": r})
            replays.append((len(ops) - 1, mid, r))
    # ---- insider commits built with the presets
    for preset in ("short_path", "long_path", "foreign_path_key", "bad_parent_hash"):
        ins = rng.choice(members)
        ops.append({"op": "opts", "who": ins, "encrypt_controls": False, "path_required": True})
        ops.append({"op": "preset", "who": ins, "preset": preset})
        fid = g.fresh("x")
        ops.append({"op": "commit", "who": ins, "id": fid})
        ops.append({"op": "preset", "who": ins, "preset": "none"})
        for r in [m for m in members2 if m != ins]:
            ops.append({"op": "deliver", "to": r, "msg": fid, "snap_before": True, "observe": r})
            insider.append((len(ops) - 1, preset, r))
        ops.append({"op": "clear", "who": ins})
    # the group still works
    fin = rng.choice(members2)
    ops.append({"op": "opts", "who": fin, "encrypt_controls": False, "path_required": True})
    cid = g.fresh("c")
    ops.append({"op": "commit", "who": fin, "id": cid})
    for m in members2:
        if m != fin:
            ops.append({"op": "deliver", "to": m, "msg": cid})
    ops.append({"op": "apply", "who": fin})
    ops.append({"op": "observe", "who": fin, "observe": "all"})
    # dumps for the Coq tie
    dumps = {}
    for mid, _ in plain:
        ops.append({"op": "dump", "who": snd, "msg": mid})
        dumps[mid] = len(ops) - 1
    return g.script(), {"sweeps": sweeps, "plain": plain, "truth": truth, "insider": insider, "replays": replays, "ctx_op": ctx_op, "dumps": dumps, "members": members, "sender": snd}


def late_reuse_script(rng, i):
    """A message that arrives late, after its sender's leaf has changed hands: B encrypts in epoch
    n, B is removed, a new member takes B's leaf, then the message reaches A.  It may be refused;
    if it is accepted it must be reported as B's (never as the new owner's)."""
    members = [{"name": n, "retention": 5} for n in "ABCDE"]
    ops = [{"op": "create", "who": "A"}, {"op": "kp", "who": "B", "id": "kB"}, {"op": "kp", "who": "C", "id": "kC"},
           {"op": "commit", "who": "A", "id": "c0", "add": ["kB", "kC"]}, {"op": "apply", "who": "A"},
           {"op": "join", "who": "B", "welcome_any": "c0"}, {"op": "join", "who": "C", "welcome_any": "c0"}]
    victim = rng.choice(["B", "C"])
    other = "C" if victim == "B" else "B"
    for m in "ABC":
        ops.append({"op": "opts", "who": m, "encrypt_controls": rng.chance(1, 2), "path_required": rng.chance(1, 2), "tree_ext": True})
    ops.append({"op": "app", "who": victim, "id": "late1", "data": "b0b0", "aad": "aa"})
    ops.append({"op": "propose", "who": victim, "kind": "gce", "id": "latep", "ext_data": "01"})
    # the victim leaves
    ops.append({"op": "commit", "who": "A", "id": "c1", "remove_names": [victim]})
    ops.append({"op": "deliver", "to": other, "msg": "c1"})
    ops.append({"op": "apply", "who": "A"})
    checks = []
    stage = rng.choice(["blank", "reused", "reused"])
    if stage == "reused":
        newc = rng.choice(["D", "E"])
        ops.append({"op": "kp", "who": newc, "id": "kN"})
        c = rng.choice(["A", other])
        o = other if c == "A" else "A"
        ops.append({"op": "commit", "who": c, "id": "c2", "add": ["kN"]})
        ops.append({"op": "deliver", "to": o, "msg": "c2"})
        ops.append({"op": "apply", "who": c})
        ops.append({"op": "join", "who": newc, "welcome_any": "c2"})
        if rng.chance(1, 2):
            ops.append({"op": "commit", "who": newc, "id": "c3"})
            for m in ("A", other):
                ops.append({"op": "deliver", "to": m, "msg": "c3"})
            ops.append({"op": "apply", "who": newc})
    for r in ("A", other):
        ops.append({"op": "deliver", "to": r, "msg": "late1"})
        checks.append((len(ops) - 1, victim))
    return {"name": f"c03-late{i}", "suite": 1, "members": members, "ops": ops}, checks


def cross_group_script(rng, i):
    """Two groups with disjoint members in one world: traffic of one is refused by the other."""
    members = [{"name": n} for n in "ABCDEFGHX"]
    ops = [{"op": "create", "who": "A", "ext_senders": ["X"]}, {"op": "kp", "who": "B", "id": "kB"}, {"op": "kp", "who": "C", "id": "kC"},
           {"op": "commit", "who": "A", "id": "g1c", "add": ["kB", "kC"]}, {"op": "apply", "who": "A"}, {"op": "join", "who": "B", "welcome_any": "g1c"}, {"op": "join", "who": "C", "welcome_any": "g1c"},
           {"op": "create", "who": "D", "ext_senders": ["X"]}, {"op": "kp", "who": "E", "id": "kE"}, {"op": "kp", "who": "F", "id": "kF"},
           {"op": "commit", "who": "D", "id": "g2c", "add": ["kE", "kF"]}, {"op": "apply", "who": "D"}, {"op": "join", "who": "E", "welcome_any": "g2c"}, {"op": "join", "who": "F", "welcome_any": "g2c"}]
    msgs = []
    for enc in (False, True):
        for (a, tag) in (("A", "1"), ("D", "2")):
            ops.append({"op": "opts", "who": a, "encrypt_controls": enc, "path_required": True})
            ops.append({"op": "app", "who": a, "id": f"a{tag}{int(enc)}", "data": "01"})
            ops.append({"op": "propose", "who": a, "kind": "update", "id": f"p{tag}{int(enc)}"})
            ops.append({"op": "commit", "who": a, "id": f"c{tag}{int(enc)}"})
            ops.append({"op": "clear", "who": a})
            ops.append({"op": "clear_proposals", "who": a})
            msgs += [(f"p{tag}{int(enc)}", tag), (f"a{tag}{int(enc)}", tag), (f"c{tag}{int(enc)}", tag)]
    # messages of NON-members, which carry no membership tag and are signed without the group
    # context: a new-member proposal (external add request) and an external sender's proposals,
    # made for one group and handed to the other, which is in the same epoch and lists the same
    # external sender
    for (a, tag, other) in (("A", "1", "G"), ("D", "2", "H")):
        ops.append({"op": "group_info", "who": a, "id": f"gi{tag}", "ext_commit": True, "tree_ext": True})
        ops.append({"op": "ext_add", "who": other, "gi": f"gi{tag}", "id": f"xa{tag}"})
        ops.append({"op": "obs_join", "who": f"O{tag}", "gi": f"gi{tag}", "signer_of": "X"})
        ops.append({"op": "kp", "who": other, "id": f"kx{tag}"})
        ops.append({"op": "obs_propose", "who": f"O{tag}", "kind": "add", "kp": f"kx{tag}", "id": f"xs{tag}"})
        ops.append({"op": "obs_propose", "who": f"O{tag}", "kind": "remove", "index": 1, "id": f"xr{tag}"})
        msgs += [(f"xa{tag}", tag), (f"xs{tag}", tag), (f"xr{tag}", tag)]
    cross = []
    # control: the group they were made for accepts them
    for (rcv, ids) in (("B", ("xa1", "xs1", "xr1")), ("E", ("xa2", "xs2", "xr2"))):
        for mid in ids:
            ops.append({"op": "deliver", "to": rcv, "msg": mid})
    for mid, tag in msgs:
        for r in (("E", "F") if tag == "1" else ("B", "C")):
            ops.append({"op": "deliver", "to": r, "msg": mid, "snap_before": True, "observe": r})
            cross.append((len(ops) - 1, mid, r))
    # a Welcome of group 1 handed to a member candidate of group 2's key package holder
    return {"name": f"c03-x{i}", "suite": 1, "members": members, "ops": ops}, cross


def stale_group_info_script(rng, i):
    """A GroupInfo handed to MEMBERS (process_incoming_message): the one of the current epoch is accepted, the same
    bytes are refused once the group has moved on - also when the move left the ratchet tree byte-identical (a commit
    without a path: PSK only), with the tree in the extension or not."""
    members = [{"name": n} for n in "ABC"]
    ops = [{"op": "create", "who": "A"}, {"op": "kp", "who": "B", "id": "kB"}, {"op": "kp", "who": "C", "id": "kC"},
           {"op": "commit", "who": "A", "id": "c0", "add": ["kB", "kC"]}, {"op": "apply", "who": "A"},
           {"op": "join", "who": "B", "welcome_any": "c0"}, {"op": "join", "who": "C", "welcome_any": "c0"}]
    for n in "ABC":
        ops.append({"op": "psk_insert", "who": n, "psk_id": "aa01", "value": "0102030405060708"})
        ops.append({"op": "opts", "who": n, "encrypt_controls": False, "path_required": False})
    signer = "ABC"[i % 3]
    gis = []
    for te in (True, False):
        for xc in (False, True):
            gid = f"gi{int(te)}{int(xc)}"
            ops.append({"op": "group_info", "who": signer, "id": gid, "ext_commit": xc, "tree_ext": te})
            gis.append(gid)
    # control: members of the epoch it was made in accept it
    for gid in gis:
        for r in [m for m in "ABC" if m != signer]:
            ops.append({"op": "deliver", "to": r, "msg": gid})
    c = [m for m in "ABC" if m != signer][i % 2]
    if i % 4 < 3:
        ops.append({"op": "commit", "who": c, "id": "c1", "psk": ["aa01"]})           # no path: the tree stays as it is
    else:
        ops.append({"op": "opts", "who": c, "path_required": True})
        ops.append({"op": "commit", "who": c, "id": "c1"})
    for m in "ABC":
        if m != c:
            ops.append({"op": "deliver", "to": m, "msg": "c1"})
    ops.append({"op": "apply", "who": c})
    stale = []
    for gid in gis:
        for r in "ABC":
            ops.append({"op": "deliver", "to": r, "msg": gid, "snap_before": True, "observe": r})
            stale.append((len(ops) - 1, gid, r))
    ops.append({"op": "observe", "who": "A", "observe": "all"})
    return {"name": f"c03-gi{i}", "suite": 1, "members": members, "ops": ops}, stale


def main(run, args):
    rng = Rng(run.seed)
    run.assumptions += [
        "unforgeability of the signature scheme and of HMAC are HYPOTHESES of the acceptance theorems (section variables), not proved and not axioms",
        "the insider model is a member that alters its own commits before signing (commit modifiers under cfg(mls_rs_verif)) or re-MACs altered public messages with the membership key",
        "bytes after the end of a complete message are ignored by MlsMessage::from_bytes; not counted as a modification of the message",
    ]
    broken = []
    ok2, m2 = regen("codec", "CodecTypes.v")
    run.obligation("translate the message types (PublicMessage, TBS, TBM, PrivateMessage, AADs)", ok2)
    proofs_ok = False
    if ok2:
        proofs_ok, log = prove(run, "C03", extra_targets=["Model/FramingCases.vo"])
    if not proofs_ok:
        broken.append(("proof", "Props/C03.v does not check; " + "; ".join(run.notes[-1:])))
    hok, herr = build_harness()
    if not hok:
        run.violation("harness build failed", herr, failing_input_found=False)
        return
    quick = run.tier == "quick"
    items = [build_script(rng, i, quick) for i in range(3 if quick else 24)]
    xs = [cross_group_script(rng, i) for i in range(1 if quick else 4)]
    lates = [late_reuse_script(rng, i) for i in range(8 if quick else 60)]
    gis = [stale_group_info_script(rng, i) for i in range(4 if quick else 16)]
    recs = run_scripts([x[0] for x in items] + [x[0] for x in xs] + [x[0] for x in lates] + [x[0] for x in gis], timeout=3000)
    failing = []
    totals = {k: {"variants": 0, "errors": {}, "accepted_same_effect": 0} for k in KINDS}
    n_truth = n_insider = n_replay = n_cross = 0
    tie_cases = []
    for (sc, meta), rs in zip(items, recs):
        if any(r.get("crash") for r in rs):
            failing.append({"what": "history interpreter crashed", "script": sc["name"], "stderr": [r.get("stderr") for r in rs if r.get("crash")][:1]})
            continue
        byi = {r["i"]: r for r in rs if "i" in r}
        special = {k for k, *_ in meta["sweeps"]} | {k for k, *_ in meta["insider"]} | {k for k, *_ in meta["replays"]}
        bad = [r for r in rs if r.get("ok") is False and r["i"] not in special]
        if bad:
            failing.append({"what": "operation failed in the valid part of the history", "script": sc["name"], "record": bad[0], "op": sc["ops"][bad[0]["i"]]})
            continue
        for (k, kind, rcv, mid, mode) in meta["sweeps"]:
            r = byi.get(k, {})
            info = r.get("info") or {}
            ctx = {"script": sc["name"], "op": sc["ops"][k], "message_kind": kind, "receiver": rcv}
            if not r.get("ok"):
                failing.append(dict(ctx, what="sweep could not run", error=r.get("err")))
                continue
            if info.get("genuine") != "ok":
                failing.append(dict(ctx, what="the genuine message is not accepted by the receiver", error=info.get("genuine")))
                continue
            t = totals[kind]
            t["variants"] += info.get("n", 0)
            for e, c in (info.get("errors") or {}).items():
                t["errors"][e] = t["errors"].get(e, 0) + c
            if info.get("panics"):
                failing.append(dict(ctx, what="PANIC while processing a corrupted message", variants=info["panics"][:5]))
            for a in info.get("accepted") or []:
                if a.get("variant") in ("append0", "whole_other"):
                    continue
                if a.get("same_effect_as_genuine") and kind in ("welcome",):
                    t["accepted_same_effect"] += 1      # a part of the Welcome addressed to somebody else
                    continue
                failing.append(dict(ctx, what="a corrupted message was ACCEPTED", variant=a))
        for (k, exp_sender, data, aad) in meta["truth"]:
            r = byi.get(k, {})
            info = r.get("info") or {}
            n_truth += 1
            if not r.get("ok"):
                failing.append({"what": "genuine message refused", "script": sc["name"], "op": sc["ops"][k], "error": r.get("err")})
                continue
            if info.get("sender_name") != exp_sender:
                failing.append({"what": "accepted message attributed to the wrong sender", "script": sc["name"], "op": sc["ops"][k], "reported": info.get("sender_name"), "true_sender": exp_sender})
            if aad is not None and info.get("aad") != aad:
                failing.append({"what": "accepted message reported with wrong authenticated data", "script": sc["name"], "op": sc["ops"][k], "reported": info.get("aad"), "sent": aad})
            if data is not None and info.get("data") != data:
                failing.append({"what": "accepted application message reported with wrong payload", "script": sc["name"], "op": sc["ops"][k], "reported": info.get("data"), "sent": data})
        for (k, what, rcv) in meta["insider"] + [(k, "replay of " + mid, r) for (k, mid, r) in meta["replays"]]:
            r = byi.get(k, {})
            if what.startswith("replay"):
                n_replay += 1
            else:
                n_insider += 1
            ctx = {"script": sc["name"], "op": sc["ops"][k], "case": what, "receiver": rcv}
            if r.get("err") == "PANIC":
                failing.append(dict(ctx, what="PANIC on an invalid message signed / MACed by a member"))
            elif r.get("ok") is not False:
                if str(r.get("err", "")).startswith("no message"):
                    continue
                failing.append(dict(ctx, what="an invalid or replayed message was ACCEPTED", result=r.get("info")))
        # tie cases
        cr = byi.get(meta["ctx_op"], {}).get("info") or {}
        for mid, sender in meta["plain"]:
            d = byi.get(meta["dumps"][mid], {}).get("info") or {}
            if d.get("hex") and cr.get("ctx"):
                pk = None
                for r in rs:
                    if r.get("op") == "sigkey" and r.get("who") == sender:
                        pk = r["info"]["pk"]
                tie_cases.append({"script": sc["name"], "msg": mid, "hex": d["hex"], "ctx": cr["ctx"], "mkey": cr["mkey"], "pk": pk})
    n_late = 0
    for (sc, checks), rs in zip(lates, recs[len(items) + len(xs):]):
        byi = {r["i"]: r for r in rs if "i" in r}
        ck = {k for k, _ in checks}
        setup_bad = [r for r in rs if (r.get("ok") is False or r.get("crash")) and r.get("i") not in ck]
        if setup_bad:
            failing.append({"what": "setup of a late-delivery history failed", "script": sc["name"], "record": setup_bad[0], "op": sc["ops"][setup_bad[0].get("i", 0)]})
            continue
        for (k, true_sender) in checks:
            r = byi.get(k, {})
            n_late += 1
            if r.get("err") == "PANIC":
                failing.append({"what": "PANIC on a late message", "script": sc["name"], "op": sc["ops"][k]})
            elif r.get("ok") and (r.get("info") or {}).get("sender_name") != true_sender:
                failing.append({"what": "a late message whose sender's leaf has changed hands was accepted and attributed to the new owner of the leaf", "script": sc["name"], "op": sc["ops"][k],
                                "reported": (r.get("info") or {}).get("sender_name"), "true_sender": true_sender})
    for (sc, cross), rs in zip(xs, recs[len(items):len(items) + len(xs)]):
        byi = {r["i"]: r for r in rs if "i" in r}
        crossidx = {k for k, _, _ in cross}
        setup_bad = [r for r in rs if (r.get("ok") is False or r.get("crash")) and r.get("i") not in crossidx]
        if setup_bad:
            failing.append({"what": "setup of the cross-group world failed (a message that its own group must accept was refused, or could not be made)", "script": sc["name"], "record": setup_bad[0], "op": sc["ops"][setup_bad[0].get("i", 0)]})
            continue
        for (k, mid, rcv) in cross:
            r = byi.get(k, {})
            n_cross += 1
            ctx = {"script": sc["name"], "op": sc["ops"][k]}
            if r.get("err") == "PANIC":
                failing.append(dict(ctx, what="PANIC on a message of another group"))
            elif r.get("ok") is not False:
                failing.append(dict(ctx, what="a message of ANOTHER group was accepted", result=r.get("info")))
            elif "snap_before" in r and (r.get("obs") or {}).get(rcv, {}).get("snap") != r["snap_before"]:
                failing.append(dict(ctx, what="state changed by a refused message of another group"))
    n_stale_gi = 0
    for (sc, stale), rs in zip(gis, recs[len(items) + len(xs) + len(lates):]):
        byi = {r["i"]: r for r in rs if "i" in r}
        staleidx = {k for k, _, _ in stale}
        setup_bad = [r for r in rs if (r.get("ok") is False or r.get("crash")) and r.get("i") not in staleidx]
        if setup_bad:
            failing.append({"what": "a GroupInfo of the current epoch was refused by a member, or the history could not be built", "script": sc["name"], "record": setup_bad[0], "op": sc["ops"][setup_bad[0].get("i", 0)]})
            continue
        for (k, mid, rcv) in stale:
            r = byi.get(k, {})
            n_stale_gi += 1
            ctx = {"script": sc["name"], "op": sc["ops"][k], "ops": sc["ops"][max(0, k - 14):k + 1]}
            if r.get("err") == "PANIC":
                failing.append(dict(ctx, what="PANIC on a stale GroupInfo"))
            elif r.get("ok") is not False:
                failing.append(dict(ctx, what="a GroupInfo of an EARLIER epoch was accepted by a member (replay across epochs)", result=r.get("info")))
            elif "snap_before" in r and (r.get("obs") or {}).get(rcv, {}).get("snap") != r["snap_before"]:
                failing.append(dict(ctx, what="state changed by a refused GroupInfo"))
    # ---- framing tie in Coq
    mism = []
    coq_cases = 0
    sig_checked = 0
    if model_ready(proofs_ok) and tie_cases:
        def flip(hexs, bit):
            b = bytearray.fromhex(hexs)
            b[bit // 8] ^= 1 << (bit % 8)
            return b.hex()
        exprs, metas = [], []
        for c in tie_cases:
            exprs.append(f'[mtag_case 0 "{c["mkey"]}"%string "{c["ctx"]}"%string "{c["hex"]}"%string]')
            metas.append(("tag", c))
            exprs.append(f'siginput_case "{c["ctx"]}"%string "{c["hex"]}"%string')
            metas.append(("sig", c))
            nb = len(c["hex"]) * 4
            for b in [rng.below(nb) for _ in range(6)]:
                exprs.append(f'[mtag_case 0 "{c["mkey"]}"%string "{c["ctx"]}"%string "{flip(c["hex"], b)}"%string]')
                metas.append(("flip", dict(c, bit=b)))
        nsh = min(16, len(exprs))
        shards = [list(range(len(exprs)))[s::nsh] for s in range(nsh)]

        def shard(si, ids):
            text = ("From Coq Require Import NArith List Bool String.\nFrom MlsV Require Import Codec CodecTypes CodecCases FramingCases.\nImport ListNotations.\nLocal Open Scope N_scope.\n"
                    "Eval vm_compute in List.concat (map (fun l => N.of_nat (List.length l) :: l) [" + ";\n".join(exprs[k] for k in ids) + "]).\n")
            return coq_eval_cases(f"C03_cases_{si}", text, timeout=900)
        with ThreadPoolExecutor(max_workers=16) as ex:
            results = list(ex.map(lambda x: shard(*x), enumerate(shards)))
        sigjobs = []
        for ids, (nums, logtxt) in zip(shards, results):
            if nums is None:
                broken.append(("correspondence", "Coq evaluation of the framing model failed: " + (logtxt or "")[-600:]))
                continue
            pos = 0
            for k in ids:
                n = nums[pos]
                out = nums[pos + 1:pos + 1 + n]
                pos += 1 + n
                kind, c = metas[k]
                coq_cases += 1
                if kind == "tag" and out != [0]:
                    mism.append({"what": "membership tag recomputed by the framing model differs from the tag in the message", "script": c["script"], "msg": c["msg"], "code": out})
                elif kind == "flip" and out == [0]:
                    mism.append({"what": "framing model accepts the membership tag of a flipped message", "script": c["script"], "msg": c["msg"], "bit": c["bit"]})
                elif kind == "sig":
                    if not out or out[0] != 0:
                        mism.append({"what": "framing model cannot build the signed bytes", "script": c["script"], "msg": c["msg"]})
                    else:
                        ln = out[1]
                        si = bytes(out[2:2 + ln]).hex()
                        sl = out[2 + ln]
                        sig = bytes(out[3 + ln:3 + ln + sl]).hex()
                        sigjobs.append((c, si, sig))
        # real signature over the model's bytes
        if sigjobs:
            ops = [{"op": "sigverify", "who": "A", "pk": c["pk"], "sig": sig, "data": si} for (c, si, sig) in sigjobs] + \
                  [{"op": "sigverify", "who": "A", "pk": c["pk"], "sig": sig, "data": si[:-2] + ("00" if si[-2:] != "00" else "01")} for (c, si, sig) in sigjobs]
            rs = run_scripts([{"name": "sig", "suite": 1, "members": [{"name": "A"}], "ops": ops}])[0]
            for j, r in enumerate(rs):
                if "i" not in r:
                    continue
                c, si, sig = sigjobs[r["i"] % len(sigjobs)]
                valid = (r.get("info") or {}).get("valid")
                if r["i"] < len(sigjobs):
                    sig_checked += 1
                    if valid is not True:
                        mism.append({"what": "the message signature does not verify over the bytes the framing model says are signed", "script": c["script"], "msg": c["msg"]})
                elif valid is not False:
                    mism.append({"what": "signature verifies over altered bytes", "script": c["script"], "msg": c["msg"]})
    total_variants = sum(t["variants"] for t in totals.values())
    run.obligation("every corrupted / replayed / insider-invalid message refused without panic; genuine messages reported truthfully", not failing and total_variants > 0)
    run.obligation("framing model = implementation: membership tags recomputed in Coq, signatures verify over the modelled bytes", not mism and coq_cases > 0 and sig_checked > 0)
    empty = [k for k in KINDS if totals[k]["variants"] == 0]
    if empty:
        broken.append(("generator", f"no variants for message kinds {empty}"))
    run.cov.update({
        "evaluations": total_variants + n_truth + n_insider + n_replay + n_cross + coq_cases,
        "distinct_nontrivial": total_variants,
        "rule": "per history: one epoch with public+encrypted proposals, an application message, public+encrypted commits (path, add), the Welcome, a GroupInfo and trees; each swept (all single-bit flips - stride 1 in the first history, 3-7 in the others in the quick tier -, all truncations, 120-160 byte-range splices with a second valid message of the same kind) against 2-3 receivers; then insider re-MACed confirmation-tag flips, replays into the next epoch, four insider commit presets to every member, cross-group deliveries.",
        "samples": [{"kind": k, "variants": totals[k]["variants"], "errors": totals[k]["errors"]} for k in KINDS][:3],
        "per_message_kind": totals,
        "truthful_reports_checked": n_truth,
        "insider_messages": n_insider,
        "replays": n_replay,
        "late_messages_after_leaf_changed_hands": n_late,
        "cross_group_deliveries": n_cross,
        "stale_group_infos_to_members": n_stale_gi,
        "framing_cases_in_coq": coq_cases,
        "signatures_checked_over_model_bytes": sig_checked,
        "histories": len(items) + len(xs),
    })
    if failing:
        run.violation("a modified, replayed or forged message was accepted or crashed the receiver", failing[:8])
    elif mism:
        run.violation("framing model and implementation disagree", mism[:6], failing_input_found=False)
    elif broken:
        run.violation("proof obligation or tie no longer checks: " + broken[0][0], [b[1] for b in broken], failing_input_found=False)
