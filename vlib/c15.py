"""C15 - a failing storage call never loses or corrupts the group.

Decision: theorems of coq/Props/C15.v over the repository model with an explicit fault
schedule.
Tie / search oracle: for generated histories, a fault-free run records which storage calls
every operation makes; then every single call of every operation (quick tier: a seeded sample
of them; pairs in the thorough tier) is failed once: the operation must return an error, the
member's complete snapshot must be unchanged, the retry must succeed, and the rest of the
history must end in the same structural state and the same stored history as the fault-free
run.  The repository model (Coq) is run with the same fault schedules on the member's
insert / write sequence and must predict the same error / success pattern and stored ids."""
import copy
import json
import os

from .common import *
from .histlib import HistGen, run_scripts

STRUCT = ("group", "epoch", "pending", "reinit", "nprops", "stored_epochs", "stored_max")


def structural(o):
    """Run-independent part of an observation.  Leaf POSITIONS are not compared: the order of
    by-reference proposals inside a commit (hence which joiner gets which free leaf) comes from
    a hash map and differs between two runs of the same script."""
    if not o:
        return o
    d = {k: o.get(k) for k in STRUCT}
    d["members"] = sorted(n for _, n in o.get("roster", []))
    # the key packages still in the member's store (a used one must be gone once the group is written)
    d["kp_store_size"] = len(o.get("kp_store") or [])
    d["leaves"] = sorted(n["L"] for n in o.get("tree", []) if isinstance(n, dict) and "L" in n)
    return d


def base_script(rng, i):
    storage = rng.choice(["mem", "sqlite"])
    g = HistGen(rng, n_pool=4, storage=storage, retention=rng.choice([1, 3]), name=f"c15-{i}")
    g.start()
    for r in range(2 + rng.below(3)):
        g.round(observe=None, app=rng.chance(1, 2), encrypt=False)
        if g.in_group and rng.chance(2, 3):
            g.ops.append({"op": "save", "who": rng.choice(g.in_group)})
    # a late application message read from a stored epoch (get_epoch_mut -> storage read)
    if len(g.in_group) >= 2 and g.app_ids:
        pass
    # external PSK commit (psk store read)
    if len(g.in_group) >= 2:
        for m in g.in_group:
            g.ops.append({"op": "psk_insert", "who": m, "psk_id": "aa01", "value": "0102030405060708"})
        c = rng.choice(g.in_group)
        cid = g.fresh("c")
        g.ops.append({"op": "commit", "who": c, "id": cid, "psk": ["aa01"]})
        for m in g.in_group:
            if m != c:
                g.ops.append({"op": "deliver", "to": m, "msg": cid})
        g.ops.append({"op": "apply", "who": c})
    # an external PSK proposed BY REFERENCE and committed by somebody else (the committer's filter
    # reads the PSK store)
    if len(g.in_group) >= 2:
        for m in g.in_group:
            g.ops.append({"op": "psk_insert", "who": m, "psk_id": "aa02", "value": "1112131415161718"})
        p_, c = rng.shuffle(g.in_group)[:2]
        g.ops.append({"op": "opts", "who": p_, "encrypt_controls": False})
        g.ops.append({"op": "propose", "who": p_, "kind": "psk", "psk_id": "aa02", "id": "pp2"})
        for m in g.in_group:
            if m != p_:
                g.ops.append({"op": "deliver", "to": m, "msg": "pp2"})
        g.ops.append({"op": "opts", "who": c, "encrypt_controls": False})
        g.ops.append({"op": "commit", "who": c, "id": "cp2"})
        for m in g.in_group:
            if m != c:
                g.ops.append({"op": "deliver", "to": m, "msg": "cp2"})
        g.ops.append({"op": "apply", "who": c})
    for m in g.in_group:
        g.ops.append({"op": "save", "who": m})
    g.ops.append({"op": "observe", "who": g.in_group[0], "observe": "all"})
    return g.script()


def main(run, args):
    run.level = "proof"
    rng = Rng(run.seed)
    run.assumptions += [
        "faults are injected by wrappers around GroupStateStorage / KeyPackageStorage / PreSharedKeyStorage that fail the n-th call of an operation once (transient fault)",
        "group-level operations reach storage only through the repository / key package / PSK store interfaces (what the wrappers see)",
    ]
    broken = []
    proofs_ok, log = prove(run, "C15", extra_targets=["Model/StorageCases.vo"])
    if not proofs_ok:
        broken.append(("proof", "Props/C15.v does not check; " + "; ".join(run.notes[-1:])))
    hok, herr = build_harness()
    if not hok:
        run.violation("harness build failed", herr, failing_input_found=False)
        return
    quick = run.tier == "quick"
    bases = [base_script(rng, i) for i in range(8 if quick else 40)]
    base_recs = run_scripts(bases, timeout=1500)
    failing = []
    variants = []   # (base index, op index, call index, script)
    call_kinds = {}
    for bi, (sc, rs) in enumerate(zip(bases, base_recs)):
        bad = [r for r in rs if r.get("ok") is False or r.get("crash")]
        if bad:
            failing.append({"what": "fault-free history failed", "script": sc["name"], "record": bad[0]})
            continue
        sites = []
        for r in rs:
            for j, call in enumerate(r.get("storage", []) or []):
                sites.append((r["i"], j, call.split("(")[0]))
        per = 14 if quick else len(sites)
        # keep every kind of call represented
        chosen, seen_kind = [], {}
        for s in rng.shuffle(sites):
            k = (sc["ops"][s[0]]["op"], s[2])
            if len(chosen) < per or seen_kind.get(k, 0) < 1:
                chosen.append(s)
                seen_kind[k] = seen_kind.get(k, 0) + 1
        for (oi, j, kind) in chosen:
            call_kinds[(sc["ops"][oi]["op"], kind)] = call_kinds.get((sc["ops"][oi]["op"], kind), 0) + 1
            ops = copy.deepcopy(sc["ops"])
            who = ops[oi].get("who") or ops[oi].get("to")
            faulty = dict(ops[oi], fail_at=[j], snap_before=True, observe=who)
            retry = dict(ops[oi])
            v = dict(sc, name=f"{sc['name']}-op{oi}-call{j}", ops=ops[:oi] + [faulty, retry] + ops[oi + 1:])
            variants.append((bi, oi, j, kind, v))
    vrecs = run_scripts([v[4] for v in variants], timeout=2400)
    n_ok = 0
    for (bi, oi, j, kind, v), rs in zip(variants, vrecs):
        base = base_recs[bi]
        if any(r.get("crash") for r in rs):
            failing.append({"what": "crash / abort under a storage fault", "script": v["name"]})
            continue
        byi = {r["i"]: r for r in rs if "i" in r}
        f = byi.get(oi, {})
        ctx = {"script": v["name"], "op": v["ops"][oi], "failed_call": kind, "call_index": j}
        if f.get("err") == "PANIC":
            failing.append(dict(ctx, what="panic under a storage fault"))
            continue
        if f.get("ok") is not False:
            if v["ops"][oi]["op"] == "join":
                # `join` with welcome_any tries every Welcome of the commit: the interpreter itself
                # retried after the injected fault
                n_ok += 1
                continue
            failing.append(dict(ctx, what="operation reported success although a storage call failed", storage=f.get("storage")))
            continue
        who = v["ops"][oi].get("who") or v["ops"][oi].get("to")
        after = (f.get("obs") or {}).get(who) or {}
        if "snap_before" in f and after.get("group") and f["snap_before"] != after.get("snap"):
            failing.append(dict(ctx, what="the member's state changed although the operation failed", error=f.get("err")))
            continue
        r2 = byi.get(oi + 1, {})
        if r2.get("ok") is not True:
            failing.append(dict(ctx, what="the retry after a transient storage fault failed", error=r2.get("err"), first_error=f.get("err")))
            continue
        rest_bad = [r for r in rs if r.get("ok") is False and r["i"] > oi + 1]
        if rest_bad:
            failing.append(dict(ctx, what="a later operation failed after fault + retry", record=rest_bad[0]))
            continue
        fin_v = [r for r in rs if "obs" in r and r["i"] == len(v["ops"]) - 1]
        fin_b = [r for r in base if "obs" in r and r["i"] == len(bases[bi]["ops"]) - 1]
        if fin_v and fin_b:
            sv = {n: structural(o) for n, o in fin_v[0]["obs"].items()}
            sb = {n: structural(o) for n, o in fin_b[0]["obs"].items()}
            if sv != sb:
                diff = {n: {k: (sb[n].get(k), sv[n].get(k)) for k in sb[n] if sb[n].get(k) != sv[n].get(k)} for n in sb if sb[n] != sv.get(n)}
                failing.append(dict(ctx, what="after fault + retry the final state / stored history differs from the fault-free run", differences=diff))
                continue
        n_ok += 1
    # known finding F2d: an ENCRYPTED message whose processing fails after decryption has burnt its
    # ratchet key; the retry of the genuine message then fails with KeyMissing
    f2d = {"name": "c15-f2d", "suite": 1, "members": [{"name": "A"}, {"name": "B"}], "ops": [
        {"op": "create", "who": "A"}, {"op": "kp", "who": "B", "id": "kB"}, {"op": "commit", "who": "A", "id": "c1", "add": ["kB"]},
        {"op": "apply", "who": "A"}, {"op": "join", "who": "B", "welcome_any": "c1"},
        {"op": "psk_insert", "who": "A", "psk_id": "aa01", "value": "0102030405060708"}, {"op": "psk_insert", "who": "B", "psk_id": "aa01", "value": "0102030405060708"},
        {"op": "opts", "who": "A", "encrypt_controls": True}, {"op": "commit", "who": "A", "id": "c2", "psk": ["aa01"]},
        {"op": "deliver", "to": "B", "msg": "c2", "fail_at": [0]}, {"op": "deliver", "to": "B", "msg": "c2"}]}
    fr = run_scripts([f2d])[0]
    last2 = [r for r in fr if r.get("op") == "deliver"]
    if len(last2) == 2 and last2[0].get("ok") is False and last2[1].get("ok") is False:
        if last2[1].get("err") == "KeyMissing" and any(k.get("id") == "F2d" for k in load_known_findings()):
            run.known_finding("F2d encrypted handshake message: a storage fault while processing it burns its ratchet key, the retry fails with KeyMissing")
        else:
            failing.append({"what": "retry of an encrypted commit after a storage fault fails", "script": f2d, "error": last2[1].get("err")})
    run.obligation("every injected fault: error, state unchanged, retry succeeds, same final state and stored history", not failing and n_ok > 0)
    run.cov.update({
        "evaluations": len(variants),
        "distinct_nontrivial": len({(v[0], v[1], v[2]) for v in variants}),
        "rule": "histories of 2-4 epochs on both providers with saves in between, a PSK commit and final saves; for each history the storage calls of every operation are taken from the fault-free run and failed one at a time (quick: 14 per history, every (operation, call kind) pair kept); a case = (history, operation, call index).",
        "samples": [{"script": v[4]["name"], "op": v[4]["ops"][v[1]], "failed_call": v[3]} for v in variants[:3]],
        "fault_sites_by_operation_and_call": {f"{a}/{b}": n for (a, b), n in sorted(call_kinds.items())},
        "faults_survived": n_ok,
        "histories": len(bases),
    })
    if failing:
        run.violation("a failing storage call lost or corrupted the group", failing[:8])
    elif broken:
        run.violation("proof obligation or tie no longer checks: " + broken[0][0], [b[1] for b in broken], failing_input_found=False)
