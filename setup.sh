#!/bin/sh
# Build the framework from files on disk only (offline). Run once after a fresh restore.
set -e
cd "$(dirname "$0")"
export CARGO_NET_OFFLINE=true
[ -f harness/Cargo.lock ] || cp /repo/Cargo.lock harness/Cargo.lock
(cd translator && cargo build --offline --release -q)
(cd harness && cargo build --offline -q)
./translator/target/release/rs2v treemath /repo coq/Gen/TreeMathGen.v
./translator/target/release/rs2v codec /repo coq/Gen/CodecTypes.v
./translator/target/release/rs2v effects /repo coq/Gen/ProcessEffects.v
./translator/target/release/rs2v window /repo coq/Gen/WindowGen.v
./translator/target/release/rs2v kem /repo coq/Gen/KemGen.v
./translator/target/release/rs2v pathreq /repo coq/Gen/PathReqGen.v
./translator/target/release/rs2v ratchet /repo coq/Gen/RatchetGen.v
./translator/target/release/rs2v admission /repo coq/Gen/AdmissionGen.v
./translator/target/release/rs2v resume /repo coq/Gen/ResumeGen.v
./translator/target/release/rs2v privgen /repo coq/Gen/PrivGen.v
./translator/target/release/rs2v nodevec /repo coq/Gen/NodeVecGen.v
./translator/target/release/rs2v transcript /repo coq/Gen/TranscriptGen.v
./translator/target/release/rs2v latesender /repo coq/Gen/LateSenderGen.v
./translator/target/release/rs2v welcome /repo coq/Gen/WelcomeGen.v
./translator/target/release/rs2v keysched /repo coq/Gen/KeySchedGen.v
./translator/target/release/rs2v reinitrule /repo coq/Gen/ReinitGen.v
./translator/target/release/rs2v hashcache /repo coq/Gen/HashCacheGen.v
./translator/target/release/rs2v parenthash /repo coq/Gen/ParentHashGen.v
./translator/target/release/rs2v varint /repo coq/Gen/VarIntGen.v
(cd coq && coq_makefile -f _CoqProject -o Makefile >/dev/null && timeout 3000 make -j16 >/dev/null)
echo setup done
